#!/usr/bin/env python3
"""Offline history checker H (second, independent implementation of the checker inside
harness/e2_history.cc).  Re-validates a recorded witness history so that the verdict on a witness
does not depend on reproducing the schedule.

usage: history.py <history.jsonl>
The first line is a header {"config": {...}}; every further line is one event
{"t": stamp, "type": name, "tid": n, "a": x, "b": y}.  Prints one line per violated assertion
(`VIOLATED <property>/<assertion>/<class> ...`) and exits 1 if there is any, else 0."""
import bisect
import json
import sys


def check(path):
    lines = [json.loads(l) for l in open(path) if l.strip()]
    cfg = lines[0]["config"]
    ev = sorted(lines[1:], key=lambda e: e["t"])
    subj = cfg["subject_name"]
    batchy = cfg["subject"] < 4
    decoys = False  # decoy exporters carry their own id in field a of their flush/shutdown events
    recs = {}       # (p,s) -> dict(call, ret, delivered, enter, exit)
    batches = []    # dict(id, enter, exit, items)
    by_id = {}
    open_by_tid = {}
    flushes, shutdowns = {}, {}
    exp_flush, exp_shutdown = [], []
    open_f, open_s = {}, {}
    overlaps = 0
    for e in ev:
        t, ty, tid, a, b = e["t"], e["type"], e["tid"], e["a"], e["b"]
        decoy = ty in ("export_enter", "export_exit") and a >= 1000000
        if ty == "prod_call":
            recs.setdefault((a, b), {"call": 0, "ret": 0, "delivered": 0, "enter": 0, "exit": None})["call"] = t
        elif ty == "prod_ret":
            recs.setdefault((a, b), {"call": 0, "ret": 0, "delivered": 0, "enter": 0, "exit": None})["ret"] = t
        elif ty == "export_enter":
            if decoy:
                open_by_tid.pop(tid, None)
            else:
                bt = {"id": a, "enter": t, "exit": None, "items": []}
                by_id[a] = bt
                batches.append(bt)
                open_by_tid[tid] = bt
        elif ty == "export_item":
            bt = open_by_tid.get(tid)
            if bt is not None and bt["enter"] == t:
                bt["items"].append((a, b))
        elif ty == "export_exit":
            if not decoy and a in by_id:
                by_id[a]["exit"] = t
        elif ty == "exp_flush_enter":
            if a == 0:
                open_f[tid] = t
        elif ty == "exp_flush_exit":
            if a == 0:
                exp_flush.append((open_f.get(tid, 0), t))
        elif ty == "exp_shutdown_enter":
            if a == 0:
                open_s[tid] = t
        elif ty == "exp_shutdown_exit":
            if a == 0:
                exp_shutdown.append((open_s.get(tid, 0), t))
        elif ty == "flush_call":
            flushes[a] = {"call": t, "ret": None, "arg": b, "result": 0}
        elif ty == "flush_ret":
            flushes[a]["ret"] = t
            flushes[a]["result"] = b
        elif ty == "shutdown_call":
            shutdowns[a] = {"call": t, "ret": None}
        elif ty == "shutdown_ret":
            shutdowns[a]["ret"] = t
        elif ty == "overlap":
            overlaps += 1
    INF = float("inf")
    first_sd_call = min([s["call"] for s in shutdowns.values()] or [INF])
    first_sd_ret = min([s["ret"] for s in shutdowns.values() if s["ret"] is not None] or [INF])
    out = []

    # C03
    if overlaps:
        out.append("C03/one-export-at-a-time/%s: %d overlapping Export entries" % (subj, overlaps))
    for bt in batches:
        fl_before = any(f["call"] < bt["enter"] for f in flushes.values())
        fl_open = any(f["call"] < bt["enter"] and (f["ret"] is None or bt["enter"] < f["ret"]) for f in flushes.values())
        if bt["enter"] > first_sd_call:
            phase = "drain-after-flush" if fl_before else "drain-no-flush"
        elif fl_open:
            phase = "during-flush"
        elif fl_before:
            phase = "after-flush"
        else:
            phase = "before-first-flush"
        if batchy:
            if not bt["items"]:
                out.append("C03/batch-non-empty/%s:%s" % (subj, phase))
            if len(bt["items"]) > cfg["batch"]:
                out.append("C03/batch-le-max/%s:%s: batch of %d > %d" % (subj, phase, len(bt["items"]), cfg["batch"]))

    # C01
    last = {}
    for bt in batches:
        for it in bt["items"]:
            r = recs.get(it)
            if r is None or r["call"] == 0 or r["call"] > bt["enter"]:
                out.append("C01/exactly-once/%s:phantom: %s" % (subj, it))
                continue
            r["delivered"] += 1
            if r["delivered"] == 2:
                out.append("C01/exactly-once/%s:duplicate: %s" % (subj, it))
            if r["delivered"] == 1:
                r["enter"], r["exit"] = bt["enter"], bt["exit"]
            if it[1] + 1 <= last.get(it[0], 0):
                out.append("C01/producer-order/%s: producer %d sequence %d after %d" % (subj, it[0], it[1], last[it[0]] - 1))
            else:
                last[it[0]] = it[1] + 1
    if batchy:
        acc = sorted(r["call"] for r in recs.values() if r["delivered"])
        con = sorted(r["enter"] for r in recs.values() if r["delivered"])
        all_calls = sorted(r["call"] for r in recs.values())
        all_rets = sorted(r["ret"] for r in recs.values() if r["ret"])
        true_fl = sorted((f["ret"], f["call"]) for f in flushes.values()
                         if f["ret"] is not None and f["result"] and f["ret"] < first_sd_call)
        for k, r in sorted(recs.items()):
            if r["delivered"] or r["ret"] == 0 or r["ret"] > first_sd_call:
                continue
            A = bisect.bisect_left(acc, r["ret"])
            C = bisect.bisect_left(con, r["call"])
            if A - C < cfg["queue"]:
                out.append("C01/lost-with-room/%s: record %s never exported, A-C=%d < max_queue_size %d" % (
                    subj, k, A - C, cfg["queue"]))
                continue
            # corollary: at most max_queue_size records produced since a completed (true) flush began
            done = [fc for (fr, fc) in true_fl if fr < r["call"]]
            if done:
                fcall = max(done)
                n = bisect.bisect_left(all_calls, r["ret"]) - bisect.bisect_right(all_rets, fcall)
                if n <= cfg["queue"]:
                    out.append("C01/lost-with-room/%s:after-completed-flush: record %s never exported, only %d <= "
                               "max_queue_size %d records produced since a true flush began" % (subj, k, n, cfg["queue"]))
    if not batchy:
        return out

    # C02
    for f in flushes.values():
        if f["ret"] is None or not f["result"] or f["call"] > first_sd_ret:
            continue
        racing = f["ret"] > first_sd_call
        active = any(r["call"] < f["ret"] and r["ret"] > f["call"] for r in recs.values())
        cls = "%s:%s" % (subj, "racing-shutdown" if racing else ("producers-active" if active else "quiescent"))
        missing = [k for k, r in recs.items() if r["ret"] and r["ret"] < f["call"] and r["delivered"] and
                   (r["exit"] is None or r["exit"] > f["ret"])]
        if missing:
            out.append("C02/flush-complete/%s: %d record(s) produced before the flush not through a finished Export, e.g. %s" % (
                cls, len(missing), missing[0]))
        if not decoys and not any(x[0] > f["call"] and x[1] < f["ret"] for x in exp_flush):
            out.append("C02/flush-calls-exporter-flush/%s" % cls)
    if shutdowns:
        if not decoys and len(exp_shutdown) != 1:
            out.append("C02/exporter-shutdown-once/%s:%s: %d exporter Shutdown calls" % (
                subj, "never" if not exp_shutdown else "repeated", len(exp_shutdown)))
        late = [bt for bt in batches if bt["enter"] > first_sd_ret]
        if late:
            out.append("C02/no-exporter-call-after-shutdown/%s:Export: %d" % (subj, len(late)))
        if not decoys:
            if any(x[0] > first_sd_ret for x in exp_flush):
                out.append("C02/no-exporter-call-after-shutdown/%s:ForceFlush" % subj)
            if any(x[0] > first_sd_ret for x in exp_shutdown):
                out.append("C02/no-exporter-call-after-shutdown/%s:Shutdown" % subj)
        miss = [k for k, r in recs.items() if r["ret"] and r["ret"] < first_sd_call and r["delivered"] and
                (r["exit"] is None or r["exit"] > first_sd_ret)]
        if miss:
            out.append("C02/shutdown-exports-all/%s: %d record(s), e.g. %s" % (subj, len(miss), miss[0]))
    return out


def main():
    if len(sys.argv) != 2:
        print(__doc__)
        return 2
    res = check(sys.argv[1])
    for r in res:
        print("VIOLATED", r)
    if not res:
        print("history satisfies every assertion of H")
    return 1 if res else 0


if __name__ == "__main__":
    sys.exit(main())
