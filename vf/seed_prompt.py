#!/usr/bin/env python3
"""Print the briefing for an independent fault-seeding sub-agent.

usage: seed_prompt.py <property id> <wave number> [<count>]

The briefing contains only the property's text (title, statement, quantifier, anchored files), the agent's own
scratch paths, and the one-line titles of changes already kept for this property ("find something different") -
nothing about how /verif decides the property."""
import glob
import json
import os
import sys

VERIF = os.path.dirname(os.path.dirname(os.path.abspath(__file__)))


def main():
    pid, wave = sys.argv[1], sys.argv[2]
    count = int(sys.argv[3]) if len(sys.argv) > 3 else 2
    prop = None
    for line in open(os.path.join(VERIF, "properties.jsonl")):
        p = json.loads(line)
        if p["id"] == pid:
            prop = p
    known = []
    for f in sorted(glob.glob(os.path.join(VERIF, "seeded", pid + "-*", "meta.json"))):
        try:
            t = json.load(open(f)).get("title", "")
        except ValueError:
            t = ""
        if t:
            known.append(t)
    base = "/tmp/seed%s-%s" % (wave, pid)
    out = []
    w = out.append
    w("You are a careful C++ engineer helping to evaluate a verification effort by *seeding a realistic defect*.")
    w("")
    w("Repository: opentelemetry-cpp (OpenTelemetry C++ API and SDK), checked out in /repo. You must NOT edit /repo and must NOT "
      "read or touch anything under /verif. Create your own scratch worktree and work only there:")
    w("    git -C /repo worktree add --detach %s/wt HEAD" % base)
    w("    cd %s/wt && cmake -G Ninja -S . -B _build -DBUILD_W3CTRACECONTEXT_TEST=ON -DCMAKE_BUILD_TYPE=RelWithDebInfo "
      "-DCMAKE_CXX_FLAGS=-Wno-error -DCMAKE_C_FLAGS=-Wno-error >/dev/null && ninja -C _build -j8      (several minutes; the "
      "machine is shared: use -j8 and do not start more than one build at a time)" % base)
    w("The sandbox has no network. The test suite is run with `ctest --test-dir _build -j8 --timeout 900` (510 tests; the three "
      "ext.http.curl.BasicCurlHttpTests that need a network fail on the unchanged tree too; ignore exactly those).")
    w("")
    w("Property %s - %s" % (pid, prop["title"]))
    w("Statement: " + prop["statement"])
    w("Must hold: " + prop["quantifier"]["text"])
    w("Code it is anchored in: " + ", ".join(prop["anchors"]["files"]))
    w("")
    w("Deliver %d DIFFERENT changes to the repository's sources (api/ or sdk/, not tests), each of which" % count)
    w("  * compiles, and leaves the repository's existing test suite passing (run the whole suite, not only the nearby tests);")
    w("  * breaks the property above (state which clause);")
    w("  * looks like something a maintainer could plausibly commit (a refactoring slip, an 'optimisation', a fix for "
      "something else, a copy/paste error) - not sabotage, no dead give-aways in comments;")
    w("  * needs something SPECIFIC to manifest: a particular interleaving, a fault or timeout at a particular point, a "
      "multi-step sequence of operations, an unusual input or configuration, or two cooperating sites that each look fine "
      "alone. Changes that ordinary use would expose at once are not wanted.")
    w("")
    w("For each change k = 1..%d create the directory %s/out/<k>/ containing" % (count, base))
    w("  patch.diff   `git diff` of your worktree against HEAD (sources only, must apply to a clean HEAD with `git apply`)")
    w("  demo.cc      a small stand-alone program (main returns 0 = property held, non-zero = property broken) that links "
      "against the static libraries of the worktree's _build and deterministically (or with very high probability, say "
      "by repeating the scenario) FAILS with the change and PASSES without it. It is compiled from the worktree root with")
    w("                 g++ -std=gnu++17 -O1 -g -DOPENTELEMETRY_ABI_VERSION_NO=1 -I api/include -I sdk/include -I sdk demo.cc "
      "$(find _build/sdk -name 'libopentelemetry_*.a') (libraries listed twice) -lpthread")
    w("               if it needs anything else, add build.sh (called as `bash build.sh <worktree>` from the worktree root; it "
      "must build AND run the demo and exit with the demo's status).")
    w("  meta.json    {\"property\": \"%s\", \"title\": one line describing the change, \"breaks_clause\": ..., "
      "\"needs_to_manifest\": ..., \"files_changed\": [...], \"ctest_result_with_change\": ..., \"demo_result_unchanged\": ..., "
      "\"demo_result_changed\": ..., \"why_existing_tests_miss_it\": ...}" % pid)
    w("Verify all of it yourself: suite passes with the change, demo passes on clean HEAD and fails with the change. Reset the "
      "worktree to clean HEAD between the changes (`git checkout -- .`).")
    if known:
        w("")
        w("Changes of this kind that are ALREADY KNOWN for this property - find something different in site, mechanism and "
          "clause:")
        for t in known:
            w("  - " + t)
    w("")
    w("When you are done remove your build output and worktree (`git -C /repo worktree remove --force %s/wt`) but keep "
      "%s/out. Finish with a short report: for each change the title, the clause it breaks and what it needs to manifest." % (base, base))
    print("\n".join(out))


if __name__ == "__main__":
    main()
