#!/usr/bin/env python3
"""Mechanical mutation campaign: how many small syntactic changes to a property's anchored code does its check notice?

usage: mutate.py <scratch worktree of /repo> <property id> <count> [--seed N] [--files f1,f2,...] [--out file.jsonl]

Not a check and not evidence - a measurement of the checks' detection power that complements the changes written by
independent sub-agents (seeded/).  Every mutant is applied to the scratch worktree only (VERIF_REPO=<worktree>), the
property's quick check is run against it, and the worktree is restored.  A mutant is
  killed       the check exits 1 (VIOLATION line)
  inconclusive the check exits 2 and the tree does not build / a floor was missed (reported, not counted as killed)
  survived     the check exits 0 -> to be triaged by hand: equivalent mutant, outside the statement, or a gap
Operators (one token on one line): relational flip (< <=, > >=, == !=), && <-> ||, true <-> false, negation dropped
from `if (!x)`, `+ 1`/`- 1` dropped, a `+=`/`-=` swapped, a whole call statement deleted, `break;` <-> `continue;`.
Lines that are comments, preprocessor directives, log/diagnostic text or declarations are skipped."""
import argparse
import json
import os
import random
import re
import subprocess
import sys
import time

VERIF = os.path.dirname(os.path.dirname(os.path.abspath(__file__)))

SKIP = re.compile(r"^\s*(//|\*|/\*|#|OTEL_INTERNAL_LOG|OPENTELEMETRY_|using |namespace |template|typedef|static_assert|case |default:|public:|private:|protected:)")

OPS = [
    ("rel<=", re.compile(r"(?<![<>=!\-])<=(?!=)"), "<"),
    ("rel>=", re.compile(r"(?<![<>=!\-])>=(?!=)"), ">"),
    ("rel<", re.compile(r"(?<=[\w\)\] ]) < (?=[\w\(\-])"), " <= "),
    ("rel>", re.compile(r"(?<=[\w\)\] ]) > (?=[\w\(\-])"), " >= "),
    ("eq", re.compile(r"(?<![<>=!])==(?!=)"), "!="),
    ("ne", re.compile(r"!=(?!=)"), "=="),
    ("and", re.compile(r"(?<= )&&(?= )"), "||"),
    ("or", re.compile(r"(?<= )\|\|(?= )"), "&&"),
    ("true", re.compile(r"\btrue\b"), "false"),
    ("false", re.compile(r"\bfalse\b"), "true"),
    ("neg", re.compile(r"\(\!(?=[\w\(])"), "("),
    ("plus1", re.compile(r" \+ 1\b"), ""),
    ("minus1", re.compile(r" - 1\b"), ""),
    ("pluseq", re.compile(r"\+="), "-="),
    ("minuseq", re.compile(r"-="), "+="),
    ("break", re.compile(r"\bbreak;"), "continue;"),
    ("continue", re.compile(r"\bcontinue;"), "break;"),
]
CALL_STMT = re.compile(r"^\s*[\w:\.\->\[\]\(\)\*]+\(.*\);\s*$")


def candidates(path):
    out = []
    try:
        lines = open(path, errors="replace").read().split("\n")
    except OSError:
        return out
    in_block = False
    for i, ln in enumerate(lines):
        s = ln.strip()
        if in_block:
            if "*/" in s:
                in_block = False
            continue
        if s.startswith("/*") and "*/" not in s:
            in_block = True
            continue
        if not s or SKIP.match(ln) or '"' in ln and ("LOG" in ln or "<<" in ln):
            continue
        code = ln.split("//")[0]
        for name, rx, rep in OPS:
            for m in rx.finditer(code):
                # leave template angle brackets and arrows alone
                if name in ("rel<", "rel>") and re.search(r"(template|static_cast|reinterpret_cast|const_cast|<\w+(::\w+)*>|->)", code):
                    continue
                out.append((i, name, m.start(), m.end(), rep))
        if CALL_STMT.match(code) and not re.match(r"^\s*(return|delete|throw|new)\b", code) and "=" not in code.split("(")[0]:
            out.append((i, "delstmt", 0, len(ln), ""))
    return out


def sh(cmd, env=None, timeout=3600):
    e = dict(os.environ)
    e.update(env or {})
    try:
        r = subprocess.run(cmd, shell=True, stdout=subprocess.PIPE, stderr=subprocess.STDOUT, text=True, errors="replace", env=e,
                           timeout=timeout)
        return r.returncode, r.stdout
    except subprocess.TimeoutExpired:
        return 124, "timeout"


def main():
    ap = argparse.ArgumentParser()
    ap.add_argument("worktree")
    ap.add_argument("prop")
    ap.add_argument("count", type=int)
    ap.add_argument("--seed", type=int, default=1)
    ap.add_argument("--files", default="")
    ap.add_argument("--out", default="")
    ap.add_argument("--checks", default="", help="comma separated check ids to run (default: the property's own)")
    a = ap.parse_args()
    wt = a.worktree.rstrip("/")
    files = [f for f in a.files.split(",") if f]
    if not files:
        for line in open(os.path.join(VERIF, "properties.jsonl")):
            p = json.loads(line)
            if p["id"] == a.prop:
                files = [f for f in p["anchors"]["files"] if os.path.exists(os.path.join(wt, f)) and "/test/" not in f]
    cands = []
    for f in files:
        for c in candidates(os.path.join(wt, f)):
            cands.append((f,) + c)
    rng = random.Random(a.seed * 1000003 + sum(map(ord, a.prop)))
    rng.shuffle(cands)
    # spread over files and lines: at most one mutant per (file, line)
    seen, pick = set(), []
    for c in cands:
        if (c[0], c[1]) in seen:
            continue
        seen.add((c[0], c[1]))
        pick.append(c)
        if len(pick) >= a.count:
            break
    out = open(a.out, "a") if a.out else sys.stdout
    sh("git -C %s checkout -q -- ." % wt)
    for f, i, name, s, e, rep in pick:
        path = os.path.join(wt, f)
        lines = open(path, errors="replace").read().split("\n")
        orig = lines[i]
        lines[i] = orig[:s] + rep + orig[e:] if name != "delstmt" else re.match(r"^\s*", orig).group(0) + ";"
        open(path, "w").write("\n".join(lines))
        t0 = time.time()
        rc, o = 0, ""
        for chk in (a.checks.split(",") if a.checks else [a.prop]):
            rc1, o1 = sh("cd %s && ./check %s --tier quick" % (VERIF, chk), env={"VERIF_REPO": wt}, timeout=2400)
            o += o1
            if rc1 == 1:
                rc = 1
                break
            rc = max(rc, rc1)
        keys = re.findall(r"VIOLATION property=\S+ replay=\S+ key=(\S+)", o)
        other = [l[:160] for l in o.splitlines() if "HARNESS-FAILURE" in l or "INCONCLUSIVE" in l or "error:" in l][:2]
        verdict = "killed" if rc == 1 else ("survived" if rc == 0 else "inconclusive")
        rec = {"property": a.prop, "file": f, "line": i + 1, "op": name, "before": orig.strip()[:160], "after": lines[i].strip()[:160],
               "verdict": verdict, "rc": rc, "keys": keys[:4], "other": other, "wall_s": round(time.time() - t0)}
        out.write(json.dumps(rec) + "\n")
        out.flush()
        sh("git -C %s checkout -q -- ." % wt)
    return 0


if __name__ == "__main__":
    sys.exit(main())
