// Harness core: PRNG, exact-size buffers, violation/evidence reporting, case loop with
// crash-resumable progress.  Header-only; included by every harness.
#pragma once

#include <algorithm>
#include <atomic>
#include <chrono>
#include <cinttypes>
#include <cmath>
#include <cstdint>
#include <cstdio>
#include <cstdlib>
#include <cstring>
#include <functional>
#include <map>
#include <mutex>
#include <set>
#include <sstream>
#include <string>
#include <unordered_set>
#include <vector>

#include <fcntl.h>
#include <sys/mman.h>
#include <sys/stat.h>
#include <unistd.h>

namespace vf
{

#ifndef VF_SHIM_H
template <class T>
using raw_atomic = std::atomic<T>;
#endif

// ---------------------------------------------------------------------------------------------
// PRNG
// ---------------------------------------------------------------------------------------------
inline uint64_t splitmix64(uint64_t &x)
{
  uint64_t z = (x += 0x9e3779b97f4a7c15ull);
  z          = (z ^ (z >> 30)) * 0xbf58476d1ce4e5b9ull;
  z          = (z ^ (z >> 27)) * 0x94d049bb133111ebull;
  return z ^ (z >> 31);
}

inline uint64_t mix(uint64_t a, uint64_t b)
{
  uint64_t x = a * 0x9e3779b97f4a7c15ull ^ (b + 0x7f4a7c15ull + (a << 6) + (a >> 2));
  return splitmix64(x);
}

inline uint64_t fnv1a(const void *p, size_t n, uint64_t h = 1469598103934665603ull)
{
  const unsigned char *c = static_cast<const unsigned char *>(p);
  for (size_t i = 0; i < n; ++i)
  {
    h ^= c[i];
    h *= 1099511628211ull;
  }
  return h;
}
inline uint64_t fnv1a(const std::string &s, uint64_t h = 1469598103934665603ull)
{
  return fnv1a(s.data(), s.size(), h);
}

struct Rng
{
  uint64_t s[4];
  explicit Rng(uint64_t seed = 1)
  {
    uint64_t x = seed;
    for (auto &v : s)
      v = splitmix64(x);
  }
  static uint64_t rotl(uint64_t x, int k) { return (x << k) | (x >> (64 - k)); }
  uint64_t next()
  {
    uint64_t r = rotl(s[1] * 5, 7) * 9, t = s[1] << 17;
    s[2] ^= s[0];
    s[3] ^= s[1];
    s[1] ^= s[2];
    s[0] ^= s[3];
    s[2] ^= t;
    s[3] = rotl(s[3], 45);
    return r;
  }
  // uniform in [0, n)
  uint64_t below(uint64_t n) { return n ? next() % n : 0; }
  // uniform in [lo, hi]
  int64_t range(int64_t lo, int64_t hi) { return lo + static_cast<int64_t>(below(static_cast<uint64_t>(hi - lo) + 1)); }
  bool chance(uint32_t num, uint32_t den) { return below(den) < num; }
  bool coin() { return next() & 1; }
  double unit() { return (next() >> 11) * (1.0 / 9007199254740992.0); }
  template <class T>
  const T &pick(const std::vector<T> &v)
  {
    return v[below(v.size())];
  }
  template <class T, size_t N>
  const T &pick(const T (&v)[N])
  {
    return v[below(N)];
  }
  std::string bytes(size_t n, const std::string &alphabet)
  {
    std::string r;
    r.reserve(n);
    for (size_t i = 0; i < n; ++i)
      r.push_back(alphabet[below(alphabet.size())]);
    return r;
  }
  std::string anybytes(size_t n)
  {
    std::string r;
    r.reserve(n);
    for (size_t i = 0; i < n; ++i)
      r.push_back(static_cast<char>(next() & 0xff));
    return r;
  }
};

// ---------------------------------------------------------------------------------------------
// Exact-size heap buffer: malloc(n) of exactly n bytes, never terminated.  A one-byte over-read
// or a string_view::data()-as-C-string bug is an ASan red-zone hit.  kill() scribbles every byte
// (each byte changes) or frees the block.
// ---------------------------------------------------------------------------------------------
struct Buf
{
  char *p  = nullptr;
  size_t n = 0;
  Buf() = default;
  explicit Buf(const std::string &s) { assign(s.data(), s.size()); }
  Buf(const char *d, size_t len) { assign(d, len); }
  Buf(const Buf &)            = delete;
  Buf &operator=(const Buf &) = delete;
  Buf(Buf &&o) noexcept : p(o.p), n(o.n)
  {
    o.p = nullptr;
    o.n = 0;
  }
  Buf &operator=(Buf &&o) noexcept
  {
    if (this != &o)
    {
      release();
      p   = o.p;
      n   = o.n;
      o.p = nullptr;
      o.n = 0;
    }
    return *this;
  }
  ~Buf() { release(); }
  void assign(const char *d, size_t len)
  {
    release();
    n = len;
    p = static_cast<char *>(malloc(len ? len : 1));
    if (len)
      memcpy(p, d, len);
    else
      p[0] = '\x7f';
  }
  const char *data() const { return p; }
  size_t size() const { return n; }
  void scribble()
  {
    for (size_t i = 0; i < n; ++i)
      p[i] = static_cast<char>(p[i] ^ 0x5a ^ (i & 1 ? 0x21 : 0));
    if (p && n == 0)
      p[0] ^= 0x5a;
  }
  void release()
  {
    if (p)
      free(p);
    p = nullptr;
    n = 0;
  }
};

// ---------------------------------------------------------------------------------------------
// JSON helpers (writer only)
// ---------------------------------------------------------------------------------------------
inline std::string jstr(const std::string &s)
{
  std::string o = "\"";
  char b[8];
  for (unsigned char c : s)
  {
    switch (c)
    {
      case '"':
        o += "\\\"";
        break;
      case '\\':
        o += "\\\\";
        break;
      case '\n':
        o += "\\n";
        break;
      case '\r':
        o += "\\r";
        break;
      case '\t':
        o += "\\t";
        break;
      default:
        if (c < 0x20 || c >= 0x7f)
        {
          snprintf(b, sizeof b, "\\u%04x", c);
          o += b;
        }
        else
          o.push_back(static_cast<char>(c));
    }
  }
  o += "\"";
  return o;
}

inline std::string hexs(const void *p, size_t n)
{
  static const char *d = "0123456789abcdef";
  std::string o;
  const unsigned char *c = static_cast<const unsigned char *>(p);
  for (size_t i = 0; i < n; ++i)
  {
    o.push_back(d[c[i] >> 4]);
    o.push_back(d[c[i] & 15]);
  }
  return o;
}

// printable rendering of arbitrary bytes for witnesses
inline std::string show(const std::string &s, size_t max = 200)
{
  std::string o;
  char b[8];
  for (size_t i = 0; i < s.size() && i < max; ++i)
  {
    unsigned char c = static_cast<unsigned char>(s[i]);
    if (c >= 0x20 && c < 0x7f && c != '\\')
      o.push_back(static_cast<char>(c));
    else
    {
      snprintf(b, sizeof b, "\\x%02x", c);
      o += b;
    }
  }
  if (s.size() > max)
    o += "...(" + std::to_string(s.size()) + " bytes)";
  return o;
}

// ---------------------------------------------------------------------------------------------
// Options
// ---------------------------------------------------------------------------------------------
struct Options
{
  uint64_t seed    = 1;
  uint64_t cases   = 100;
  uint64_t start   = 0;
  uint64_t shard   = 0;
  uint64_t nshards = 1;
  int64_t only     = -1;
  bool thorough    = false;
  std::string out  = ".";
  std::set<uint64_t> skip;
  std::map<std::string, std::string> params;

  void parse(int argc, char **argv)
  {
    for (int i = 1; i < argc; ++i)
    {
      std::string a = argv[i];
      auto val      = [&]() -> std::string { return i + 1 < argc ? argv[++i] : ""; };
      if (a == "--seed")
        seed = strtoull(val().c_str(), nullptr, 10);
      else if (a == "--cases")
        cases = strtoull(val().c_str(), nullptr, 10);
      else if (a == "--start")
        start = strtoull(val().c_str(), nullptr, 10);
      else if (a == "--only")
        only = strtoll(val().c_str(), nullptr, 10);
      else if (a == "--tier")
        thorough = (val() == "thorough");
      else if (a == "--out")
        out = val();
      else if (a == "--shard")
      {
        std::string v = val();
        shard         = strtoull(v.c_str(), nullptr, 10);
        nshards       = strtoull(v.c_str() + v.find('/') + 1, nullptr, 10);
      }
      else if (a == "--skip")
      {
        std::stringstream ss(val());
        std::string t;
        while (std::getline(ss, t, ','))
          if (!t.empty())
            skip.insert(strtoull(t.c_str(), nullptr, 10));
      }
      else if (a == "--param")
      {
        std::string v = val();
        auto eq       = v.find('=');
        params[v.substr(0, eq)] = eq == std::string::npos ? "1" : v.substr(eq + 1);
      }
    }
  }
  int64_t param(const std::string &k, int64_t d) const
  {
    auto it = params.find(k);
    return it == params.end() ? d : strtoll(it->second.c_str(), nullptr, 10);
  }
  std::string sparam(const std::string &k, const std::string &d = "") const
  {
    auto it = params.find(k);
    return it == params.end() ? d : it->second;
  }
};

// ---------------------------------------------------------------------------------------------
// Report: violations (appended to disk immediately), counters, samples, distinct-case hashes.
// Thread-safe; monitors running on harness threads may call it.
// ---------------------------------------------------------------------------------------------
class Report
{
public:
  std::string property;
  Options opt;

  void init(const std::string &prop, int argc, char **argv)
  {
    property = prop;
    opt.parse(argc, argv);
    mkdir(opt.out.c_str(), 0777);
    vpath_ = opt.out + "/violations.jsonl";
    int fd = open((opt.out + "/progress").c_str(), O_RDWR | O_CREAT, 0666);
    if (fd >= 0)
    {
      if (ftruncate(fd, 16) == 0)
        progress_ = static_cast<volatile uint64_t *>(mmap(nullptr, 16, PROT_READ | PROT_WRITE, MAP_SHARED, fd, 0));
      close(fd);
      if (progress_ == MAP_FAILED)
        progress_ = nullptr;
    }
    t0_        = std::chrono::steady_clock::now();
    last_ckpt_ = t0_;
  }

  // current case (recorded in shared memory so the driver knows which case crashed)
  void begin_case(uint64_t i)
  {
    cur_case_ = i;
    if (progress_)
    {
      progress_[0] = i;
      progress_[1] = 1;
    }
  }
  uint64_t current_case() const { return cur_case_; }

  // A violation.  assertion = stable id of the monitor assertion, cls = canonical input class
  // computed by the harness, detail = witness (free text / JSON fragment as a string).
  void violation(const std::string &assertion, const std::string &cls, const std::string &detail)
  {
    std::lock_guard<std::mutex> g(mu_);
    std::string key = property + "/" + assertion + "/" + cls;
    auto &cnt       = vcount_[key];
    ++cnt;
    ++violations_;
    if (cnt > 3)
      return;  // keep at most 3 witnesses per key on disk
    FILE *f = fopen(vpath_.c_str(), "a");
    if (f)
    {
      fprintf(f, "{\"key\":%s,\"assertion\":%s,\"class\":%s,\"case\":%" PRIu64 ",\"seed\":%" PRIu64 ",\"detail\":%s}\n",
              jstr(key).c_str(), jstr(assertion).c_str(), jstr(cls).c_str(), cur_case_, opt.seed,
              jstr(detail).c_str());
      fclose(f);
    }
  }

  uint64_t violations_total()
  {
    std::lock_guard<std::mutex> g(mu_);
    return violations_;
  }

  void count(const std::string &name, uint64_t n = 1)
  {
    std::lock_guard<std::mutex> g(mu_);
    counters_[name] += n;
  }
  void maxi(const std::string &name, uint64_t v)
  {
    std::lock_guard<std::mutex> g(mu_);
    auto &c = maxes_[name];
    if (v > c)
      c = v;
  }
  uint64_t counter(const std::string &name)
  {
    std::lock_guard<std::mutex> g(mu_);
    return counters_[name];
  }

  // a case that was non-trivial by the harness' rule, identified by a canonical-form hash
  void nontrivial(uint64_t canonical_hash)
  {
    std::lock_guard<std::mutex> g(mu_);
    hashes_.insert(canonical_hash);
  }
  // distinct interleaving / state signatures actually observed
  void signature(uint64_t h)
  {
    std::lock_guard<std::mutex> g(mu_);
    sigs_.insert(h);
  }

  void sample(const std::string &text, size_t max_samples = 6)
  {
    std::lock_guard<std::mutex> g(mu_);
    if (samples_.size() < max_samples)
      samples_.push_back(text);
  }
  bool want_sample(size_t max_samples = 6)
  {
    std::lock_guard<std::mutex> g(mu_);
    return samples_.size() < max_samples;
  }

  void end_case()
  {
    ++evaluations_;
    auto now = std::chrono::steady_clock::now();
    if (now - last_ckpt_ > std::chrono::milliseconds(700))
    {
      last_ckpt_ = now;
      write_result(false);
    }
  }
  void add_evaluations(uint64_t n) { evaluations_ += n; }

  // The case loop: cases i in [start, cases) with i % nshards == shard; --only i runs one case.
  template <class F>
  void run_cases(F &&f)
  {
    if (opt.only >= 0)
    {
      begin_case(static_cast<uint64_t>(opt.only));
      f(static_cast<uint64_t>(opt.only));
      end_case();
      return;
    }
    for (uint64_t i = opt.start; i < opt.cases; ++i)
    {
      if (i % opt.nshards != opt.shard || opt.skip.count(i))
        continue;
      begin_case(i);
      f(i);
      end_case();
    }
    next_case_ = opt.cases;
  }

  uint64_t case_seed(uint64_t i) const { return mix(mix(opt.seed, fnv1a(property)), i); }

  int finish()
  {
    next_case_ = opt.cases;
    write_result(true);
    return 0;
  }

  void write_result(bool final)
  {
    std::lock_guard<std::mutex> g(mu_);
    std::string tmp = opt.out + "/result.json.tmp";
    FILE *f         = fopen(tmp.c_str(), "w");
    if (!f)
      return;
    double wall = std::chrono::duration<double>(std::chrono::steady_clock::now() - t0_).count();
    fprintf(f, "{\"property\":%s,\"final\":%s,\"seed\":%" PRIu64 ",\"evaluations\":%" PRIu64
               ",\"next_case\":%" PRIu64 ",\"violations\":%" PRIu64 ",\"wall_s\":%.3f,\n",
            jstr(property).c_str(), final ? "true" : "false", opt.seed, evaluations_,
            final ? opt.cases : cur_case_, violations_, wall);
    fprintf(f, "\"counters\":{");
    bool first = true;
    for (auto &kv : counters_)
    {
      fprintf(f, "%s%s:%" PRIu64, first ? "" : ",", jstr(kv.first).c_str(), kv.second);
      first = false;
    }
    fprintf(f, "},\n\"maxes\":{");
    first = true;
    for (auto &kv : maxes_)
    {
      fprintf(f, "%s%s:%" PRIu64, first ? "" : ",", jstr(kv.first).c_str(), kv.second);
      first = false;
    }
    fprintf(f, "},\n\"violation_keys\":{");
    first = true;
    for (auto &kv : vcount_)
    {
      fprintf(f, "%s%s:%" PRIu64, first ? "" : ",", jstr(kv.first).c_str(), kv.second);
      first = false;
    }
    fprintf(f, "},\n\"distinct_nontrivial\":%zu,\"signatures\":%zu,\n\"samples\":[", hashes_.size(), sigs_.size());
    first = true;
    for (auto &s : samples_)
    {
      fprintf(f, "%s%s", first ? "" : ",", jstr(s).c_str());
      first = false;
    }
    fprintf(f, "]}\n");
    fclose(f);
    rename(tmp.c_str(), (opt.out + "/result.json").c_str());
    // distinct-case hashes, so the driver can take the union over shards
    if (final)
    {
      FILE *h = fopen((opt.out + "/hashes.bin").c_str(), "wb");
      if (h)
      {
        std::vector<uint64_t> v(hashes_.begin(), hashes_.end());
        if (!v.empty())
          fwrite(v.data(), 8, v.size(), h);
        fclose(h);
      }
      FILE *s = fopen((opt.out + "/sigs.bin").c_str(), "wb");
      if (s)
      {
        std::vector<uint64_t> v(sigs_.begin(), sigs_.end());
        if (!v.empty())
          fwrite(v.data(), 8, v.size(), s);
        fclose(s);
      }
    }
  }

private:
  std::mutex mu_;
  std::string vpath_;
  volatile uint64_t *progress_ = nullptr;
  uint64_t cur_case_           = 0;
  uint64_t next_case_          = 0;
  uint64_t evaluations_        = 0;
  uint64_t violations_         = 0;
  std::map<std::string, uint64_t> counters_, maxes_, vcount_;
  std::unordered_set<uint64_t> hashes_, sigs_;
  std::vector<std::string> samples_;
  std::chrono::steady_clock::time_point t0_, last_ckpt_;
};

inline Report &report()
{
  static Report r;
  return r;
}

#define VF_CHECK(cond, assertion, cls, detail)            \
  do                                                      \
  {                                                       \
    if (!(cond))                                          \
      ::vf::report().violation((assertion), (cls), (detail)); \
  } while (0)

}  // namespace vf
