// Shared by the trace-propagation harnesses (C09 W3C, C16 B3/Jaeger): a text-map carrier whose
// Get returns exact-size non-terminated heap views and whose Set deep-copies, id generators,
// caller-context construction and the judgement of what Extract returned relative to the
// caller's context.  Header-only; nothing in here calls a propagator.
#pragma once

#include "opentelemetry/context/context.h"
#include "opentelemetry/context/propagation/text_map_propagator.h"
#include "opentelemetry/trace/context.h"
#include "opentelemetry/trace/default_span.h"
#include "opentelemetry/trace/span_context.h"
#include "opentelemetry/trace/span_metadata.h"

#include "vf_core.h"

namespace vfp
{
namespace context_api = opentelemetry::context;
namespace trace_api   = opentelemetry::trace;
namespace nostd       = opentelemetry::nostd;

// ---------------------------------------------------------------------------------------------
// Carrier.  Every stored value lives in its own vf::Buf (malloc of exactly n bytes, no
// terminator, no slack); Get hands out a view of exactly that block.  A missing key gives a
// zero-length view of a live 1-byte block (what real carriers do with ""), never nullptr.
// Set copies key and value immediately, so a propagator passing a view of a stack buffer that is
// one byte too long is an ASan stack-buffer-overflow inside Set's memcpy.
// ---------------------------------------------------------------------------------------------
class Carrier : public context_api::propagation::TextMapCarrier
{
public:
  struct Entry
  {
    std::string key;
    vf::Buf val;
  };
  std::vector<Entry> entries;
  size_t sets = 0;
  mutable size_t gets = 0;
  mutable std::vector<std::string> asked;

  Carrier() : missing_("") {}

  nostd::string_view Get(nostd::string_view key) const noexcept override
  {
    ++gets;
    std::string k(key.data(), key.size());
    if (asked.size() < 16)
      asked.push_back(k);
    for (auto &e : entries)
      if (e.key == k)
        return nostd::string_view(e.val.data(), e.val.size());
    return nostd::string_view(missing_.data(), 0);
  }

  void Set(nostd::string_view key, nostd::string_view value) noexcept override
  {
    ++sets;
    std::string k(key.data(), key.size());
    vf::Buf b(value.data(), value.size());  // deep copy of exactly value.size() bytes
    for (auto &e : entries)
      if (e.key == k)
      {
        e.val = std::move(b);
        return;
      }
    entries.push_back(Entry{k, std::move(b)});
  }

  // harness side
  void put(const std::string &k, const std::string &v)
  {
    for (auto &e : entries)
      if (e.key == k)
      {
        e.val.assign(v.data(), v.size());
        return;
      }
    entries.push_back(Entry{k, vf::Buf(v)});
  }
  bool has(const std::string &k) const
  {
    for (auto &e : entries)
      if (e.key == k)
        return true;
    return false;
  }
  std::string value(const std::string &k) const
  {
    for (auto &e : entries)
      if (e.key == k)
        return std::string(e.val.data(), e.val.size());
    return std::string();
  }
  std::vector<std::string> keys() const
  {
    std::vector<std::string> r;
    for (auto &e : entries)
      r.push_back(e.key);
    std::sort(r.begin(), r.end());
    return r;
  }
  // after the propagator returned: change every byte of, or free, everything Get handed out
  void kill(bool scribble)
  {
    for (auto &e : entries)
      scribble ? e.val.scribble() : e.val.release();
    if (!scribble)
      entries.clear();
  }
  std::string show() const
  {
    std::string s = "{";
    for (auto &e : entries)
      s += (s.size() > 1 ? ", " : "") + e.key + ": '" + vf::show(std::string(e.val.data(), e.val.size()), 160) + "'";
    return s + "}";
  }

private:
  vf::Buf missing_;
};

// ---------------------------------------------------------------------------------------------
// hex helpers of the model (lowercase out, case-insensitive in)
// ---------------------------------------------------------------------------------------------
inline int hexval(char c)
{
  if (c >= '0' && c <= '9')
    return c - '0';
  if (c >= 'a' && c <= 'f')
    return c - 'a' + 10;
  if (c >= 'A' && c <= 'F')
    return c - 'A' + 10;
  return -1;
}
inline bool all_hex(const std::string &s)
{
  for (char c : s)
    if (hexval(c) < 0)
      return false;
  return true;
}
inline bool all_lower_hex(const std::string &s)
{
  for (char c : s)
    if (!((c >= '0' && c <= '9') || (c >= 'a' && c <= 'f')))
      return false;
  return true;
}
inline bool all_zero_digits(const std::string &s)
{
  for (char c : s)
    if (c != '0')
      return false;
  return true;
}
inline std::string lower(std::string s)
{
  for (char &c : s)
    if (c >= 'A' && c <= 'Z')
      c = static_cast<char>(c - 'A' + 'a');
  return s;
}
inline std::string upper(std::string s)
{
  for (char &c : s)
    if (c >= 'a' && c <= 'z')
      c = static_cast<char>(c - 'a' + 'A');
  return s;
}
// even-length hex -> bytes (precondition: all_hex)
inline std::string unhex(const std::string &h)
{
  std::string r;
  for (size_t i = 0; i + 1 < h.size(); i += 2)
    r.push_back(static_cast<char>((hexval(h[i]) << 4) | hexval(h[i + 1])));
  return r;
}
inline std::string hex_byte(uint8_t b)
{
  return vf::hexs(&b, 1);
}
inline bool c_space(char c)
{
  return c == ' ' || (c >= '\t' && c <= '\r');
}

// ---------------------------------------------------------------------------------------------
// ids
// ---------------------------------------------------------------------------------------------
// n random-or-structured id bytes, never all zero
inline std::string gen_id(vf::Rng &r, size_t n)
{
  std::string b(n, '\0');
  switch (r.below(12))
  {
    case 0:  // all ff
      b.assign(n, '\xff');
      break;
    case 1:  // one bit
      b[r.below(n)] = static_cast<char>(1u << r.below(8));
      break;
    case 2:  // lowest value
      b[n - 1] = 1;
      break;
    case 3:  // only the top byte
      b[0] = static_cast<char>(r.range(1, 255));
      break;
    case 4:  // upper half zero (a 64-bit id in a 128-bit field)
      for (size_t i = n / 2; i < n; ++i)
        b[i] = static_cast<char>(r.next());
      b[n - 1] |= 1;
      break;
    case 5:  // lower half zero
      for (size_t i = 0; i < n / 2; ++i)
        b[i] = static_cast<char>(r.next());
      b[0] |= 0x10;
      break;
    case 6:  // every nibble a letter digit
      for (size_t i = 0; i < n; ++i)
        b[i] = static_cast<char>(((10 + r.below(6)) << 4) | (10 + r.below(6)));
      break;
    case 7:  // asymmetric nibbles (a nibble swap changes every byte)
      for (size_t i = 0; i < n; ++i)
      {
        unsigned hi = static_cast<unsigned>(r.below(16)), lo = static_cast<unsigned>(r.below(15));
        if (lo >= hi)
          ++lo;
        b[i] = static_cast<char>((hi << 4) | lo);
      }
      break;
    default:
      b = r.anybytes(n);
  }
  bool zero = true;
  for (char c : b)
    zero &= c == 0;
  if (zero)
    b[n - 1] = 1;
  return b;
}

inline trace_api::TraceId trace_id_of(const std::string &bytes16)
{
  uint8_t b[16];
  memcpy(b, bytes16.data(), 16);
  return trace_api::TraceId(b);
}
inline trace_api::SpanId span_id_of(const std::string &bytes8)
{
  uint8_t b[8];
  memcpy(b, bytes8.data(), 8);
  return trace_api::SpanId(b);
}
inline std::string tid_hex(const trace_api::SpanContext &sc)
{
  return vf::hexs(sc.trace_id().Id().data(), 16);
}
inline std::string sid_hex(const trace_api::SpanContext &sc)
{
  return vf::hexs(sc.span_id().Id().data(), 8);
}
inline std::string show_sc(const trace_api::SpanContext &sc)
{
  return "{tid=" + tid_hex(sc) + " sid=" + sid_hex(sc) + " flags=" + hex_byte(sc.trace_flags().flags()) +
         (sc.IsRemote() ? " remote" : " local") + "}";
}

inline std::string flags_class(uint8_t f)
{
  if (f <= 1)
    return "flags<=0x01";
  if ((f >> 4) >= 10 || (f & 15) >= 10)
    return "flags-nibble>=a";
  return "flags-other-bits";
}

// ---------------------------------------------------------------------------------------------
// the caller's context handed to Extract, and what came back
// ---------------------------------------------------------------------------------------------
static const char *const kMarkerKey = "vf_marker";

struct Caller
{
  context_api::Context ctx;      // the object passed to Extract by reference
  context_api::Context before;   // copy taken before the call (same list head)
  nostd::shared_ptr<trace_api::Span> span;  // the span it carries, if any
  bool has_span   = false;
  bool has_marker = false;
  int64_t marker  = 0;
  std::string kind;
};

// kinds: empty, marker, local-span, span+marker, invalid-span, twin-local-span (round trips only: the context
// handed to Extract already carries a LOCAL span with the ids and flags the header encodes - a loop-back or an
// echoing peer; the header must still be installed as a remote context with its own trace state)
inline Caller make_caller(vf::Rng &r, int force = -1, const trace_api::SpanContext *twin = nullptr)
{
  Caller c;
  unsigned k = force >= 0 ? static_cast<unsigned>(force) : static_cast<unsigned>(r.below(10));
  context_api::Context ctx;
  if (twin != nullptr && force < 0 && vf::mix(r.next(), 0x7717) % 4 == 0)
  {
    c.kind     = "twin-local-span";
    c.has_span = true;
    if (r.coin())
    {
      c.has_marker = true;
      c.marker     = static_cast<int64_t>(r.next() >> 1);
      ctx          = ctx.SetValue(kMarkerKey, c.marker);
    }
    c.span = nostd::shared_ptr<trace_api::Span>(new trace_api::DefaultSpan(
        trace_api::SpanContext(twin->trace_id(), twin->span_id(), twin->trace_flags(), false)));
    ctx      = ctx.SetValue(trace_api::kSpanKey, c.span);
    c.ctx    = ctx;
    c.before = ctx;
    vf::report().count("callers_twin_local_span");
    return c;
  }
  if (k == 0)
  {
    c.kind = "empty";
  }
  else if (k <= 2)
  {
    c.kind       = "marker";
    c.has_marker = true;
  }
  else if (k <= 5)
  {
    c.kind     = "local-span";
    c.has_span = true;
  }
  else if (k <= 8)
  {
    c.kind       = "span+marker";
    c.has_span   = true;
    c.has_marker = true;
  }
  else
  {
    c.kind     = "invalid-span";
    c.has_span = true;
  }
  if (c.has_marker && r.coin())
  {
    c.marker = static_cast<int64_t>(r.next() >> 1);
    ctx      = ctx.SetValue(kMarkerKey, c.marker);
  }
  if (c.has_span)
  {
    if (c.kind == "invalid-span")
      c.span = nostd::shared_ptr<trace_api::Span>(new trace_api::DefaultSpan(trace_api::SpanContext::GetInvalid()));
    else
      c.span = nostd::shared_ptr<trace_api::Span>(new trace_api::DefaultSpan(trace_api::SpanContext(
          trace_id_of(gen_id(r, 16)), span_id_of(gen_id(r, 8)), trace_api::TraceFlags(static_cast<uint8_t>(r.below(256))),
          false)));
    ctx = ctx.SetValue(trace_api::kSpanKey, c.span);
  }
  if (c.has_marker && !ctx.HasKey(kMarkerKey))
  {
    c.marker = static_cast<int64_t>(r.next() >> 1);
    ctx      = ctx.SetValue(kMarkerKey, c.marker);
  }
  c.ctx    = ctx;
  c.before = ctx;
  return c;
}

struct Outcome
{
  bool installed = false;  // the returned context is not the caller's
  bool valid     = false;  // ... and carries a span context with non-zero ids
  trace_api::SpanContext sc{false, false};
};

// Judges everything that holds for every Extract whatever the input:
//  * the caller's context object is unchanged (same list head, same span object, marker intact);
//  * the result is either the caller's context (refusal) or a context carrying a span context with
//    non-zero ids (never an invalid one) that still has the caller's other values.
// `cls` is the canonical input class of the header that was extracted.
inline Outcome judge_returned(const Caller &c, const context_api::Context &out, const std::string &cls,
                              const std::string &witness)
{
  auto &R = vf::report();
  Outcome o;
  if (!(c.ctx == c.before))
    R.violation("caller-context-unchanged", c.kind, "Extract changed the context it was given; " + witness);
  if (c.has_span)
  {
    auto sp = trace_api::GetSpan(c.before);
    if (sp.get() != c.span.get())
      R.violation("caller-context-unchanged", c.kind + ":span", "caller's span replaced; " + witness);
  }
  if (c.has_marker)
  {
    auto v = c.before.GetValue(kMarkerKey);
    if (!nostd::holds_alternative<int64_t>(v) || nostd::get<int64_t>(v) != c.marker)
      R.violation("caller-context-unchanged", c.kind + ":marker", "caller's other value changed; " + witness);
  }
  o.installed = !(out == c.before);
  if (!o.installed)
    return o;
  auto sp = trace_api::GetSpan(out);
  o.sc    = sp->GetContext();
  o.valid = o.sc.IsValid() && o.sc.trace_id().IsValid() && o.sc.span_id().IsValid() &&
            tid_hex(o.sc) != std::string(32, '0') && sid_hex(o.sc) != std::string(16, '0');
  if (!o.valid)
    R.violation("returns-callers-context-or-nonzero-ids", cls,
                "returned context is not the caller's and carries " + show_sc(o.sc) + "; " + witness);
  if (c.has_marker)
  {
    auto v = out.GetValue(kMarkerKey);
    if (!nostd::holds_alternative<int64_t>(v) || nostd::get<int64_t>(v) != c.marker)
      R.violation("accepted-keeps-other-values", c.kind, "marker lost in the returned context; " + witness);
  }
  return o;
}

// Extract is a function of the carrier and the context it is given.  It is run twice, each time over a stack
// that was first filled with a different byte pattern; an outcome that differs between the two runs was computed
// from memory the propagator never initialised (ids decoded into a buffer that an early return left untouched,
// say).  Sanitizers do not see that: the bytes are addressable.  Returns the first run's context.
__attribute__((noinline)) inline void scribble_stack(unsigned char pat)
{
  volatile unsigned char buf[12288];
  for (size_t i = 0; i < sizeof buf; ++i)
    buf[i] = pat;
  __asm__ volatile("" ::: "memory");
}
template <class Prop, class Carrier>
inline context_api::Context extract_stable(Prop &prop, Carrier &c, const Caller &caller, const std::string &cls,
                                           const std::string &shown)
{
  auto &R = vf::report();
  scribble_stack(0xA5);
  context_api::Context out1 = prop.Extract(c, const_cast<context_api::Context &>(caller.ctx));
  scribble_stack(0x3C);
  context_api::Context out2 = prop.Extract(c, const_cast<context_api::Context &>(caller.ctx));
  bool i1 = !(out1 == caller.before), i2 = !(out2 == caller.before);
  R.count("extracts_repeated_over_scribbled_stack");
  if (i1 != i2)
    R.violation("extract-deterministic", cls,
                std::string("the same carrier and context were ") + (i1 ? "accepted" : "refused") + " the first time and " +
                    (i2 ? "accepted" : "refused") + " the second; " + shown);
  else if (i1)
  {
    auto a = trace_api::GetSpan(out1)->GetContext();
    auto b = trace_api::GetSpan(out2)->GetContext();
    if (!(a.trace_id() == b.trace_id()) || !(a.span_id() == b.span_id()) || a.trace_flags().flags() != b.trace_flags().flags() ||
        a.IsRemote() != b.IsRemote())
      R.violation("extract-deterministic", cls,
                  "two extractions of the same carrier gave " + show_sc(a) + " and " + show_sc(b) + "; " + shown);
  }
  return out1;
}

}  // namespace vfp
