// M — metrics reference model and test doubles shared by the metrics checks (C06, C17; usable by
// C07/C08).  Header-only.  Nothing in here calls the SDK to compute an expected value: the SDK is
// only *driven* (PullReader, AttrArg) and *observed* (flatten) through its public boundary.
//
//   AttrMap / canon()      attribute sets of the model and the canonical (type-and-value, order-free)
//                          form under which model series and SDK points are compared
//   AttrArg                a KeyValueIterable over an AttrMap in a chosen key order; string values
//                          live in exact-size unterminated heap buffers, keys in exact-size+NUL
//                          blocks; kill() scribbles or frees all of them right after the call
//   ValueClass / Acc       value domain: integers, exact doubles (multiples of 2^-10, sums below
//                          2^40 -> exact and order independent), tolerance doubles (1e-9 relative to
//                          the sum of magnitudes); the classes are never mixed in one instrument
//   SeriesLog / StreamLog  per stream and per (filtered, sorted) attribute map the list of
//                          (logical time, value); expected_delta = everything after a reader's
//                          cursor, expected_cumulative = everything since start
//   PullReader             sdk::metrics::MetricReader with a per-instrument-type temporality map
//   flatten()              deep copy of a ResourceMetrics into plain structs at callback time
//   SilentLogHandler       counts SDK diagnostics, prints nothing
//   Watchdog               bounded wall time per real-thread case (hang candidates, exit status 70)
#pragma once

#include <chrono>
#include <cmath>
#include <map>
#include <memory>
#include <set>
#include <string>
#include <thread>
#include <vector>

#include "opentelemetry/common/attribute_value.h"
#include "opentelemetry/common/key_value_iterable.h"
#include "opentelemetry/common/timestamp.h"
#include "opentelemetry/nostd/string_view.h"
#include "opentelemetry/nostd/variant.h"
#include "opentelemetry/sdk/common/global_log_handler.h"
#include "opentelemetry/sdk/instrumentationscope/instrumentation_scope.h"
#include "opentelemetry/sdk/metrics/data/metric_data.h"
#include "opentelemetry/sdk/metrics/data/point_data.h"
#include "opentelemetry/sdk/metrics/export/metric_producer.h"
#include "opentelemetry/sdk/metrics/instruments.h"
#include "opentelemetry/sdk/metrics/metric_reader.h"

#include "vf_core.h"

namespace vfm
{
namespace nostd   = opentelemetry::nostd;
namespace common  = opentelemetry::common;
namespace msdk    = opentelemetry::sdk::metrics;
namespace sdkcomm = opentelemetry::sdk::common;

// ---------------------------------------------------------------------------------------------
// clock
// ---------------------------------------------------------------------------------------------
inline int64_t now_ns()
{
  return std::chrono::duration_cast<std::chrono::nanoseconds>(std::chrono::system_clock::now().time_since_epoch())
      .count();
}
inline int64_t ts_ns(const common::SystemTimestamp &t)
{
  return static_cast<int64_t>(t.time_since_epoch().count());
}
// spin until the system clock reads strictly later than `after` (clock-tie independence); returns
// the new reading.  Bounded: gives up after ~1e8 reads (a stuck clock is reported by the caller).
inline int64_t wait_clock_after(int64_t after)
{
  int64_t n = now_ns();
  for (uint64_t spins = 0; n <= after && spins < 100000000ull; ++spins)
    n = now_ns();
  return n;
}

// ---------------------------------------------------------------------------------------------
// watchdog for the real-thread modes.  A case that runs longer than the limit is not an oracle
// verdict: it is written as <property>/hang/<what> and the process leaves with the driver's hang
// status (70); the driver re-runs the case alone and only a second expiry becomes a violation.
// ---------------------------------------------------------------------------------------------
class Watchdog
{
public:
  explicit Watchdog(int limit_s) : limit_ns_(static_cast<int64_t>(limit_s) * 1000000000ll)
  {
    std::thread([this] {
      for (;;)
      {
        std::this_thread::sleep_for(std::chrono::milliseconds(250));
        int64_t s = start_.load();
        if (s && mono_ns() - s > limit_ns_)
        {
          const char *w = what_.load();
          vf::report().violation("hang", w ? w : "case", "case " + std::to_string(vf::report().current_case()) + " did not finish within " +
                                                               std::to_string(limit_ns_ / 1000000000ll) + " s");
          _exit(70);
        }
      }
    }).detach();
  }
  void begin(const char *what)
  {
    what_.store(what);
    start_.store(mono_ns());
  }
  void end() { start_.store(0); }

private:
  static int64_t mono_ns()
  {
    return std::chrono::duration_cast<std::chrono::nanoseconds>(std::chrono::steady_clock::now().time_since_epoch()).count();
  }
  int64_t limit_ns_;
  vf::raw_atomic<int64_t> start_{0};
  vf::raw_atomic<const char *> what_{nullptr};
};

// ---------------------------------------------------------------------------------------------
// SDK diagnostics: counted, never printed
// ---------------------------------------------------------------------------------------------
class SilentLogHandler : public sdkcomm::internal_log::LogHandler
{
public:
  void Handle(sdkcomm::internal_log::LogLevel level,
              const char *,
              int,
              const char *,
              const sdkcomm::AttributeMap &) noexcept override
  {
    unsigned l = static_cast<unsigned>(level);
    counts[l < 8 ? l : 7].fetch_add(1, std::memory_order_relaxed);
  }
  vf::raw_atomic<uint64_t> counts[8] = {};
  uint64_t total() const
  {
    uint64_t t = 0;
    for (auto &c : counts)
      t += c.load(std::memory_order_relaxed);
    return t;
  }
};

inline SilentLogHandler *install_silent_log_handler()
{
  auto *h = new SilentLogHandler();
  sdkcomm::internal_log::GlobalLogHandler::SetLogHandler(nostd::shared_ptr<sdkcomm::internal_log::LogHandler>(h));
  sdkcomm::internal_log::GlobalLogHandler::SetLogLevel(sdkcomm::internal_log::LogLevel::Warning);
  return h;
}

// ---------------------------------------------------------------------------------------------
// attribute sets
// ---------------------------------------------------------------------------------------------
struct AV
{
  enum Kind
  {
    kStr,
    kInt,
    kDbl,
    kBool
  } k = kInt;
  std::string s;
  int64_t i = 0;
  double d  = 0;
  bool b    = false;
  static AV str(const std::string &v)
  {
    AV a;
    a.k = kStr;
    a.s = v;
    return a;
  }
  static AV i64(int64_t v)
  {
    AV a;
    a.k = kInt;
    a.i = v;
    return a;
  }
  static AV dbl(double v)
  {
    AV a;
    a.k = kDbl;
    a.d = v;
    return a;
  }
  static AV boolean(bool v)
  {
    AV a;
    a.k = kBool;
    a.b = v;
    return a;
  }
};
typedef std::map<std::string, AV> AttrMap;  // sorted, last-wins by construction

inline void canon_key(std::string &o, const std::string &k)
{
  o += std::to_string(k.size());
  o += ':';
  o += k;
  o += '=';
}
inline std::string dbits(double d)
{
  uint64_t u;
  memcpy(&u, &d, 8);
  char b[24];
  snprintf(b, sizeof b, "%016" PRIx64, u);
  return b;
}

// canonical form: type-and-value of every key/value, keys sorted; unambiguous for arbitrary bytes
inline std::string canon(const AttrMap &m)
{
  std::string o;
  for (auto &kv : m)
  {
    canon_key(o, kv.first);
    switch (kv.second.k)
    {
      case AV::kStr:
        o += "s" + std::to_string(kv.second.s.size()) + ":" + kv.second.s;
        break;
      case AV::kInt:
        o += "i64:" + std::to_string(kv.second.i);
        break;
      case AV::kDbl:
        o += "d:" + dbits(kv.second.d);
        break;
      case AV::kBool:
        o += kv.second.b ? "b:1" : "b:0";
        break;
    }
    o += ';';
  }
  return o;
}

struct OwnedCanon
{
  std::string &o;
  void operator()(bool v) { o += v ? "b:1" : "b:0"; }
  void operator()(int32_t v) { o += "i32:" + std::to_string(v); }
  void operator()(uint32_t v) { o += "u32:" + std::to_string(v); }
  void operator()(int64_t v) { o += "i64:" + std::to_string(v); }
  void operator()(uint64_t v) { o += "u64:" + std::to_string(v); }
  void operator()(double v) { o += "d:" + dbits(v); }
  void operator()(const std::string &v) { o += "s" + std::to_string(v.size()) + ":" + v; }
  template <class T>
  void operator()(const std::vector<T> &v)
  {
    o += "vec" + std::to_string(v.size()) + "[";
    for (const auto &e : v)
    {
      (*this)(static_cast<T>(e));
      o += ',';
    }
    o += "]";
  }
  void operator()(const std::vector<bool> &v)
  {
    o += "vecb" + std::to_string(v.size()) + "[";
    for (bool e : v)
      o += e ? '1' : '0';
    o += "]";
  }
};

inline std::string canon(const msdk::PointAttributes &m)
{
  std::string o;
  for (auto &kv : m.GetAttributes())
  {
    canon_key(o, kv.first);
    OwnedCanon oc{o};
    nostd::visit(oc, kv.second);
    o += ';';
  }
  return o;
}

inline std::string show_canon(const std::string &c)
{
  return "{" + vf::show(c, 120) + "}";
}

// attribute map after an allow-list filter (model side of FilteringAttributesProcessor)
inline AttrMap filtered(const AttrMap &m, bool filter, const std::set<std::string> &allowed)
{
  if (!filter)
    return m;
  AttrMap o;
  for (auto &kv : m)
    if (allowed.count(kv.first))
      o.insert(kv);
  return o;
}

// KeyValueIterable over an AttrMap in a caller-chosen key order.  Keys are handed over as views into
// exact-size blocks that carry one terminating NUL (the allow-list lookup and the name validator of
// the pinned SDK read `data()` as a C string: that is C08/C19's finding, not the subject here);
// string values are exact-size and unterminated.  After the SDK call returns, kill() scribbles or
// frees every block: a retained view becomes a value mismatch or a use-after-free.
class AttrArg : public common::KeyValueIterable
{
public:
  AttrArg(const AttrMap &m, vf::Rng &r)
  {
    std::vector<const std::pair<const std::string, AV> *> order;
    for (auto &kv : m)
      order.push_back(&kv);
    for (size_t i = order.size(); i > 1; --i)
      std::swap(order[i - 1], order[r.below(i)]);
    for (auto *kv : order)
    {
      Item it;
      it.klen = kv->first.size();
      it.key  = static_cast<char *>(malloc(it.klen + 1));
      memcpy(it.key, kv->first.data(), it.klen);
      it.key[it.klen] = '\0';
      it.v            = kv->second;
      if (it.v.k == AV::kStr)
        it.sval.assign(it.v.s.data(), it.v.s.size());
      items_.push_back(std::move(it));
    }
  }
  ~AttrArg() override { kill(false); }

  bool ForEachKeyValue(
      nostd::function_ref<bool(nostd::string_view, common::AttributeValue)> callback) const noexcept override
  {
    for (auto &it : items_)
    {
      common::AttributeValue v;
      switch (it.v.k)
      {
        case AV::kStr:
          v = nostd::string_view(it.sval.data(), it.sval.size());
          break;
        case AV::kInt:
          v = it.v.i;
          break;
        case AV::kDbl:
          v = it.v.d;
          break;
        case AV::kBool:
          v = it.v.b;
          break;
      }
      if (!callback(nostd::string_view(it.key, it.klen), v))
        return false;
    }
    return true;
  }
  size_t size() const noexcept override { return items_.size(); }

  // the same content as a container of pairs (for the templated API overloads); views point into
  // this object's blocks
  std::vector<std::pair<nostd::string_view, common::AttributeValue>> pairs() const
  {
    std::vector<std::pair<nostd::string_view, common::AttributeValue>> out;
    ForEachKeyValue([&](nostd::string_view k, common::AttributeValue v) {
      out.emplace_back(k, v);
      return true;
    });
    return out;
  }

  void kill(bool scribble)
  {
    for (auto &it : items_)
    {
      if (it.key)
      {
        if (scribble)
          for (size_t i = 0; i < it.klen; ++i)
            it.key[i] = static_cast<char>(it.key[i] ^ 0x5a);
        else
        {
          free(it.key);
          it.key = nullptr;
        }
      }
      if (scribble)
        it.sval.scribble();
      else
        it.sval.release();
    }
    if (!scribble)
      items_.clear();
  }

private:
  struct Item
  {
    char *key   = nullptr;
    size_t klen = 0;
    AV v;
    vf::Buf sval;
    Item() = default;
    Item(Item &&o) noexcept : key(o.key), klen(o.klen), v(std::move(o.v)), sval(std::move(o.sval)) { o.key = nullptr; }
    Item &operator=(Item &&) = delete;
    ~Item()
    {
      if (key)
        free(key);
    }
  };
  std::vector<Item> items_;
};

// ---------------------------------------------------------------------------------------------
// value domain
// ---------------------------------------------------------------------------------------------
enum ValueClass
{
  kIntClass = 0,   // int64 instrument, exact
  kExactDouble,    // double instrument, every value a multiple of 2^-10, all sums below 2^40: exact
  kTolDouble       // double instrument, arbitrary finite doubles, compared with tolerance
};
static const double kFx = 1024.0;  // fixed-point scale of the exact double class

inline const char *class_name(ValueClass c)
{
  return c == kIntClass ? "int" : (c == kExactDouble ? "double-exact" : "double-tolerance");
}

// one recorded value; fx is the integer value (kIntClass) or value*1024 (kExactDouble)
struct Val
{
  int64_t fx = 0;
  double d   = 0;
  double as_double(ValueClass c) const { return c == kTolDouble ? d : (c == kExactDouble ? static_cast<double>(fx) / kFx : static_cast<double>(fx)); }
};

// accumulated expectation
struct Acc
{
  int64_t fx      = 0;  // exact classes
  long double d   = 0;  // tolerance class
  long double mag = 0;  // sum of magnitudes (tolerance scale)
  size_t n        = 0;  // number of measurements that entered
  void add(ValueClass c, const Val &v)
  {
    ++n;
    if (c == kTolDouble)
    {
      d += v.d;
      mag += std::fabs(v.d);
    }
    else
      fx += v.fx;
  }
  void add(const Acc &o)
  {
    fx += o.fx;
    d += o.d;
    mag += o.mag;
    n += o.n;
  }
  bool is_zero(ValueClass c) const { return c == kTolDouble ? (d == 0 && mag == 0) : fx == 0; }
};

// a number observed in a point
struct Got
{
  bool present = false;
  bool is_int  = false;
  int64_t i    = 0;
  double d     = 0;
  double as_double() const { return is_int ? static_cast<double>(i) : d; }
};

inline std::string show(const Got &g)
{
  if (!g.present)
    return "absent";
  char b[64];
  if (g.is_int)
    snprintf(b, sizeof b, "%" PRId64, g.i);
  else
    snprintf(b, sizeof b, "%.17g", g.d);
  return b;
}
inline std::string show(ValueClass c, const Acc &a)
{
  char b[96];
  if (c == kIntClass)
    snprintf(b, sizeof b, "%" PRId64, a.fx);
  else if (c == kExactDouble)
    snprintf(b, sizeof b, "%.17g", static_cast<double>(a.fx) / kFx);
  else
    snprintf(b, sizeof b, "%.17Lg(+-%.3Lg)", a.d, a.mag * 1e-9L);
  return b;
}

// does the observed number equal the expectation (type included)?  `extra_mag` widens the tolerance
// scale for values the SDK derived from larger intermediates (tolerance class only).
inline bool matches(ValueClass c, const Acc &want, const Got &got, long double extra_mag = 0)
{
  if (!got.present)
    return false;
  if (c == kIntClass)
    return got.is_int && got.i == want.fx;
  if (got.is_int)
    return false;
  if (c == kExactDouble)
    return got.d == static_cast<double>(want.fx) / kFx;
  if (!std::isfinite(got.d))
    return false;
  long double tol = (want.mag + extra_mag) * 1e-9L;
  return std::fabs(static_cast<long double>(got.d) - want.d) <= tol;
}

// got - want expressed in the class' own arithmetic (drift bookkeeping after a mismatch)
inline Acc minus_got(ValueClass c, const Acc &want, const Got &got)
{
  Acc r;
  if (c == kIntClass)
    r.fx = (got.is_int ? got.i : static_cast<int64_t>(got.d)) - want.fx;
  else if (c == kExactDouble)
    r.fx = static_cast<int64_t>(std::llround(got.as_double() * kFx)) - want.fx;
  else
    r.d = static_cast<long double>(got.as_double()) - want.d;
  return r;
}

// ---------------------------------------------------------------------------------------------
// M: measurement lists and reader cursors
// ---------------------------------------------------------------------------------------------
struct Meas
{
  uint64_t t;  // logical time of the Add
  Val v;
};
struct SeriesLog
{
  std::vector<Meas> list;
  AttrMap attrs;  // the filtered map (for witnesses)
  Acc since(ValueClass c, uint64_t cursor_exclusive) const
  {
    Acc a;
    for (auto it = list.rbegin(); it != list.rend() && it->t > cursor_exclusive; ++it)
      a.add(c, it->v);
    return a;
  }
  Acc all(ValueClass c) const { return since(c, 0); }
};
struct StreamLog
{
  std::map<std::string, SeriesLog> series;  // canon(filtered attrs) -> measurements
  void record(uint64_t t, const AttrMap &filtered_attrs, const Val &v)
  {
    auto &s = series[canon(filtered_attrs)];
    if (s.list.empty())
      s.attrs = filtered_attrs;
    s.list.push_back({t, v});
  }
};

// ---------------------------------------------------------------------------------------------
// observation: deep copy of what a reader was handed
// ---------------------------------------------------------------------------------------------
struct GotPoint
{
  std::string attrs;  // canonical
  int kind = 0;       // 0 sum, 1 last value, 2 histogram, 3 drop
  Got v;
  bool monotonic = false;
  bool lv_valid  = false;
  int64_t sample_ns = 0;
};
struct GotMetric
{
  std::string scope;  // name|version|schema
  std::string name, unit, description;
  msdk::InstrumentType type          = msdk::InstrumentType::kCounter;
  msdk::InstrumentValueType vtype    = msdk::InstrumentValueType::kLong;
  msdk::AggregationTemporality temp  = msdk::AggregationTemporality::kUnspecified;
  int64_t start_ns = 0, end_ns = 0;
  std::vector<GotPoint> points;
};

inline std::string scope_id(const std::string &name, const std::string &version, const std::string &schema)
{
  return name + "|" + version + "|" + schema;
}

inline Got got_of(const msdk::ValueType &v)
{
  Got g;
  g.present = true;
  if (nostd::holds_alternative<int64_t>(v))
  {
    g.is_int = true;
    g.i      = nostd::get<int64_t>(v);
  }
  else
    g.d = nostd::get<double>(v);
  return g;
}

inline std::vector<GotMetric> flatten(const msdk::ResourceMetrics &rm)
{
  std::vector<GotMetric> out;
  for (auto &sm : rm.scope_metric_data_)
  {
    std::string sid = sm.scope_ ? scope_id(sm.scope_->GetName(), sm.scope_->GetVersion(), sm.scope_->GetSchemaURL())
                                : std::string("<null scope>");
    for (auto &md : sm.metric_data_)
    {
      GotMetric g;
      g.scope       = sid;
      g.name        = md.instrument_descriptor.name_;
      g.unit        = md.instrument_descriptor.unit_;
      g.description = md.instrument_descriptor.description_;
      g.type        = md.instrument_descriptor.type_;
      g.vtype       = md.instrument_descriptor.value_type_;
      g.temp        = md.aggregation_temporality;
      g.start_ns    = ts_ns(md.start_ts);
      g.end_ns      = ts_ns(md.end_ts);
      for (auto &pa : md.point_data_attr_)
      {
        GotPoint p;
        p.attrs = canon(pa.attributes);
        if (nostd::holds_alternative<msdk::SumPointData>(pa.point_data))
        {
          auto &s     = nostd::get<msdk::SumPointData>(pa.point_data);
          p.kind      = 0;
          p.v         = got_of(s.value_);
          p.monotonic = s.is_monotonic_;
        }
        else if (nostd::holds_alternative<msdk::LastValuePointData>(pa.point_data))
        {
          auto &l     = nostd::get<msdk::LastValuePointData>(pa.point_data);
          p.kind      = 1;
          p.v         = got_of(l.value_);
          p.lv_valid  = l.is_lastvalue_valid_;
          p.sample_ns = ts_ns(l.sample_ts_);
        }
        else if (nostd::holds_alternative<msdk::HistogramPointData>(pa.point_data))
          p.kind = 2;
        else
          p.kind = 3;
        g.points.push_back(std::move(p));
      }
      out.push_back(std::move(g));
    }
  }
  return out;
}

// ---------------------------------------------------------------------------------------------
// pull reader
// ---------------------------------------------------------------------------------------------
class PullReader : public msdk::MetricReader
{
public:
  explicit PullReader(msdk::AggregationTemporality dflt) : dflt_(dflt) {}
  void set(msdk::InstrumentType t, msdk::AggregationTemporality a) { map_[t] = a; }

  msdk::AggregationTemporality GetAggregationTemporality(msdk::InstrumentType t) const noexcept override
  {
    auto it = map_.find(t);
    return it == map_.end() ? dflt_ : it->second;
  }
  bool is_delta(msdk::InstrumentType t) const { return GetAggregationTemporality(t) == msdk::AggregationTemporality::kDelta; }

  // one collection; the callback deep-copies everything it is given
  std::vector<GotMetric> collect(bool *ok = nullptr)
  {
    std::vector<GotMetric> out;
    bool r = Collect([&out](msdk::ResourceMetrics &rm) {
      out = flatten(rm);
      return true;
    });
    if (ok)
      *ok = r;
    return out;
  }

private:
  bool OnForceFlush(std::chrono::microseconds) noexcept override { return true; }
  bool OnShutDown(std::chrono::microseconds) noexcept override { return true; }
  msdk::AggregationTemporality dflt_;
  std::map<msdk::InstrumentType, msdk::AggregationTemporality> map_;
};

}  // namespace vfm
