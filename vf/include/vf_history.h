// Event log for the real-thread engines (E2): per-thread append buffers stamped from one
// logical clock.  The clock is a *relaxed* atomic counter on purpose: a relaxed RMW gives a
// total order that is consistent with real time but creates no happens-before edge, so the
// monitor cannot hide a data race of the SDK from ThreadSanitizer.  Call events are stamped
// before invoking the SDK and return events after it returned, at the client boundary.
#pragma once

#include <atomic>
#include <chrono>
#include <cstdint>
#include <cstdio>
#include <cstdlib>
#include <mutex>
#include <string>
#include <thread>
#include <vector>

#include <unistd.h>

#include "vf_core.h"

namespace vf
{

#define VF_BARRIER() asm volatile("" ::: "memory")

struct Event
{
  uint64_t t;
  uint32_t type;
  uint32_t tid;
  uint64_t a;
  uint64_t b;
};

struct ThreadLog
{
  std::vector<Event> ev;
  uint32_t tid;
};

class EventLog
{
public:
  // one logical clock for the whole process
  static raw_atomic<uint64_t> &clock()
  {
    static raw_atomic<uint64_t> c{1};
    return c;
  }
  static uint64_t now()
  {
    VF_BARRIER();
    uint64_t t = clock().fetch_add(1, std::memory_order_relaxed);
    VF_BARRIER();
    return t;
  }

  static EventLog &get()
  {
    static EventLog l;
    return l;
  }

  ThreadLog *mine()
  {
    thread_local ThreadLog *tl    = nullptr;
    thread_local uint64_t tl_epoch = ~0ull;
    if (tl == nullptr || tl_epoch != epoch_)
    {
      std::lock_guard<std::mutex> g(mu_);
      tl       = new ThreadLog();
      tl->tid  = static_cast<uint32_t>(logs_.size());
      tl_epoch = epoch_;
      logs_.push_back(tl);
    }
    return tl;
  }

  uint64_t add(uint32_t type, uint64_t a = 0, uint64_t b = 0)
  {
    ThreadLog *l = mine();
    uint64_t t   = now();
    l->ev.push_back(Event{t, type, l->tid, a, b});
    return t;
  }
  // an event that shares the stamp of a previous one (batch items)
  void add_at(uint64_t t, uint32_t type, uint64_t a = 0, uint64_t b = 0)
  {
    ThreadLog *l = mine();
    l->ev.push_back(Event{t, type, l->tid, a, b});
  }
  uint32_t my_tid() { return mine()->tid; }

  // Only when every thread that logged has been joined.
  std::vector<Event> merged()
  {
    std::lock_guard<std::mutex> g(mu_);
    std::vector<Event> all;
    for (auto *l : logs_)
      all.insert(all.end(), l->ev.begin(), l->ev.end());
    std::stable_sort(all.begin(), all.end(), [](const Event &x, const Event &y) { return x.t < y.t; });
    return all;
  }
  size_t threads()
  {
    std::lock_guard<std::mutex> g(mu_);
    return logs_.size();
  }
  // Start a new history.  Only when every logging thread of the previous one has been joined.
  void reset()
  {
    std::lock_guard<std::mutex> g(mu_);
    for (auto *l : logs_)
      delete l;
    logs_.clear();
    ++epoch_;
  }

private:
  std::mutex mu_;
  std::vector<ThreadLog *> logs_;
  uint64_t epoch_ = 0;
};

// Wall-clock watchdog.  Expiry is not an oracle verdict by itself: the harness records a hang
// *candidate* and exits with status 70; the driver re-runs the case and only a second expiry
// becomes a violation.
class Watchdog
{
public:
  static Watchdog &get()
  {
    static Watchdog w;
    return w;
  }
  void start()
  {
    if (started_)
      return;
    started_ = true;
    std::thread([this] {
      // The window counts seconds WITHOUT LOGICAL PROGRESS, not seconds since the operation began: as long as
      // the history's logical clock keeps advancing (some thread still produces boundary events) the run is
      // merely slow - e.g. on an oversubscribed machine - and the window restarts.  A deadlock, a lost wake-up
      // or a livelock inside the SDK produces no boundary events at all.
      uint64_t last_clock = 0, last_change = now_ms();
      for (;;)
      {
        usleep(100 * 1000);
        uint64_t dl = deadline_ms_.load(std::memory_order_relaxed);
        if (dl == 0)
        {
          last_change = now_ms();
          continue;
        }
        uint64_t armed_at = armed_ms_.load(std::memory_order_relaxed);
        uint64_t c        = EventLog::clock().load(std::memory_order_relaxed);
        uint64_t now      = now_ms();
        if (c != last_clock || last_change < armed_at)
        {
          last_clock  = c;
          last_change = now;
        }
        uint64_t window_ms = 1000ull * window_s_.load(std::memory_order_relaxed);
        // second condition: an absolute backstop of 20 windows
        if (now - last_change > window_ms || now - armed_at > 20 * window_ms)
        {
          std::string op;
          {
            std::lock_guard<std::mutex> g(mu_);
            op = op_;
          }
          report().violation("hang", op,
                             "no logical progress for " + std::to_string((now - last_change) / 1000) + " s (window " +
                                 std::to_string(window_ms / 1000) + " s, " + std::to_string((now - armed_at) / 1000) +
                                 " s since the operation began); blocked operation: " + op);
          report().write_result(false);
          fflush(nullptr);
          _exit(70);
        }
      }
    }).detach();
  }
  void arm(const std::string &op, unsigned seconds)
  {
    {
      std::lock_guard<std::mutex> g(mu_);
      op_ = op;
    }
    window_s_.store(seconds, std::memory_order_relaxed);
    armed_ms_.store(now_ms(), std::memory_order_relaxed);
    deadline_ms_.store(now_ms() + 1000ull * seconds, std::memory_order_relaxed);
  }
  void disarm() { deadline_ms_.store(0, std::memory_order_relaxed); }

private:
  static uint64_t now_ms()
  {
    return static_cast<uint64_t>(std::chrono::duration_cast<std::chrono::milliseconds>(
                                     std::chrono::steady_clock::now().time_since_epoch())
                                     .count());
  }
  bool started_ = false;
  std::mutex mu_;
  std::string op_;
  raw_atomic<unsigned> window_s_{0};
  raw_atomic<uint64_t> deadline_ms_{0};
  raw_atomic<uint64_t> armed_ms_{0};
};

struct WatchdogScope
{
  WatchdogScope(const std::string &op, unsigned seconds) { Watchdog::get().arm(op, seconds); }
  ~WatchdogScope() { Watchdog::get().disarm(); }
};

}  // namespace vf
