// C04 helper: model span, observed span (deep copy of what a processor's exporter received),
// the recording test doubles (exporter for simple/batch, custom processor + logging recordable)
// and the field-by-field oracle.
#pragma once

#include <chrono>
#include <memory>
#include <mutex>

#include "opentelemetry/sdk/common/exporter_utils.h"
#include "opentelemetry/sdk/instrumentationscope/instrumentation_scope.h"
#include "opentelemetry/sdk/resource/resource.h"
#include "opentelemetry/sdk/trace/exporter.h"
#include "opentelemetry/sdk/trace/processor.h"
#include "opentelemetry/sdk/trace/recordable.h"
#include "opentelemetry/sdk/trace/span_data.h"
#include "opentelemetry/trace/span_context.h"
#include "opentelemetry/trace/span_metadata.h"
#include "opentelemetry/trace/trace_state.h"

#include "vf_c04_values.h"

namespace c04
{
namespace trace_api = opentelemetry::trace;
namespace sdktrace  = opentelemetry::sdk::trace;
namespace sdkres    = opentelemetry::sdk::resource;
namespace sdkscope  = opentelemetry::sdk::instrumentationscope;

inline int64_t sys_now()
{
  return std::chrono::duration_cast<std::chrono::nanoseconds>(std::chrono::system_clock::now().time_since_epoch())
      .count();
}
inline int64_t steady_now()
{
  return std::chrono::duration_cast<std::chrono::nanoseconds>(std::chrono::steady_clock::now().time_since_epoch())
      .count();
}

// ---------------------------------------------------------------------------------------------
// model
// ---------------------------------------------------------------------------------------------
struct MAttr
{
  MV v;
  std::string canon;
  unsigned writes       = 0;
  unsigned type_changes = 0;
  std::vector<std::string> earlier;  // canonical values that were overwritten (most recent last)
  std::string first;                 // the very first value written to the key
};
typedef std::map<std::string, MAttr> MAttrs;

inline bool model_set(MAttrs &m, const std::string &k, const MV &v)
{
  bool type_change = false;
  auto it          = m.find(k);
  std::string c    = v.canon();
  if (it == m.end())
  {
    MAttr a;
    a.v      = v;
    a.canon  = c;
    a.first  = c;
    a.writes = 1;
    m.emplace(k, std::move(a));
  }
  else
  {
    MAttr &a = it->second;
    if (a.v.tag() != v.tag())
    {
      ++a.type_changes;
      type_change = true;
    }
    if (a.earlier.size() >= 4)
      a.earlier.erase(a.earlier.begin());
    a.earlier.push_back(a.canon);
    a.v     = v;
    a.canon = c;
    ++a.writes;
  }
  return type_change;
}

inline MAttrs model_of(const Items &items)
{
  MAttrs m;
  for (auto &it : items)
    model_set(m, it.first, it.second);
  return m;
}

struct MEvent
{
  std::string name;
  bool ts_explicit = false;
  int64_t ts = 0, lo = 0, hi = 0;
  MAttrs attrs;
};

struct MCtx
{
  std::string trace_id, span_id;  // raw bytes
  uint8_t flags = 0;
  bool remote   = false;
  std::string tracestate;
  bool operator==(const MCtx &o) const
  {
    return trace_id == o.trace_id && span_id == o.span_id && flags == o.flags && remote == o.remote &&
           tracestate == o.tracestate;
  }
  std::string show() const
  {
    return vf::hexs(trace_id.data(), trace_id.size()) + "-" + vf::hexs(span_id.data(), span_id.size()) + "-" +
           std::to_string(flags) + (remote ? "-remote-" : "-local-") + vf::show(tracestate, 40);
  }
};

inline MCtx ctx_of(const trace_api::SpanContext &c)
{
  MCtx m;
  m.trace_id.assign(reinterpret_cast<const char *>(c.trace_id().Id().data()), 16);
  m.span_id.assign(reinterpret_cast<const char *>(c.span_id().Id().data()), 8);
  m.flags  = c.trace_flags().flags();
  m.remote = c.IsRemote();
  auto ts  = c.trace_state();
  if (ts)
    m.tracestate = ts->ToHeader();
  return m;
}

inline trace_api::SpanContext make_ctx(const MCtx &m)
{
  trace_api::TraceId tid(nostd::span<const uint8_t, 16>(reinterpret_cast<const uint8_t *>(m.trace_id.data()), 16));
  trace_api::SpanId sid(nostd::span<const uint8_t, 8>(reinterpret_cast<const uint8_t *>(m.span_id.data()), 8));
  return trace_api::SpanContext(tid, sid, trace_api::TraceFlags(m.flags), m.remote,
                                m.tracestate.empty() ? trace_api::TraceState::GetDefault()
                                                     : trace_api::TraceState::FromHeader(m.tracestate));
}

struct MLink
{
  MCtx ctx;
  MAttrs attrs;
};

struct MSpan
{
  std::string name;
  bool renamed = false;
  int kind     = 0;
  // start (system clock) and duration (steady clock)
  bool judge_start    = true;   // false: only one of the two start clocks was given (API precondition broken)
  bool start_explicit = false;
  int64_t start_sys = 0, start_lo = 0, start_hi = 0;
  int64_t start_steady = 0, sst_lo = 0, sst_hi = 0;
  bool end_explicit = false;
  int64_t end_steady = 0, est_lo = 0, est_hi = 0;
  MAttrs attrs;
  std::vector<MEvent> events;
  std::vector<MLink> links;
  int status_code = 0;
  std::string status_desc;
  // expected environment
  const void *resource = nullptr;
  int64_t resource_marker = 0;
  const void *scope = nullptr;
  std::string scope_name, scope_version, scope_schema;
};

// ---------------------------------------------------------------------------------------------
// observation: a deep copy through the public getters (or built by the logging recordable)
// ---------------------------------------------------------------------------------------------
struct OEvent
{
  std::string name;
  int64_t ts = 0;
  OAttrs attrs;
  bool operator==(const OEvent &o) const { return name == o.name && ts == o.ts && attrs == o.attrs; }
};
struct OLink
{
  MCtx ctx;
  OAttrs attrs;
  bool operator==(const OLink &o) const { return ctx == o.ctx && attrs == o.attrs; }
};

struct Obs
{
  std::string name;
  int kind      = -1;
  int64_t start = 0, duration = 0;
  OAttrs attrs;
  std::vector<OEvent> events;
  std::vector<OLink> links;
  int status = 0;
  std::string desc;
  const void *resource    = nullptr;
  bool has_marker         = false;
  int64_t resource_marker = 0;
  const void *scope = nullptr;
  std::string scope_name, scope_version, scope_schema;
  MCtx ctx;
  std::string parent_span_id;
  int flags          = -1;
  const void *object = nullptr;  // address of the recordable the processor was given
};

// name of the first field in which two observations differ ("" = identical)
inline std::string first_diff(const Obs &a, const Obs &b)
{
  if (a.name != b.name)
    return "name";
  if (a.kind != b.kind)
    return "kind";
  if (a.start != b.start)
    return "start-time";
  if (a.duration != b.duration)
    return "duration";
  if (a.attrs != b.attrs)
    return "attributes";
  if (!(a.events == b.events))
    return "events";
  if (!(a.links == b.links))
    return "links";
  if (a.status != b.status || a.desc != b.desc)
    return "status";
  if (a.resource != b.resource || a.has_marker != b.has_marker || a.resource_marker != b.resource_marker)
    return "resource";
  if (a.scope != b.scope || a.scope_name != b.scope_name || a.scope_version != b.scope_version ||
      a.scope_schema != b.scope_schema)
    return "scope";
  if (!(a.ctx == b.ctx) || a.parent_span_id != b.parent_span_id || a.flags != b.flags)
    return "identity";
  return "";
}

inline void fill_env(Obs &o, const sdkres::Resource *res, const sdkscope::InstrumentationScope *scope)
{
  o.resource = res;
  if (res)
  {
    auto &ra = res->GetAttributes();
    auto it  = ra.find("vf.case");
    if (it != ra.end() && nostd::holds_alternative<int64_t>(it->second))
    {
      o.has_marker      = true;
      o.resource_marker = nostd::get<int64_t>(it->second);
    }
  }
  o.scope = scope;
  if (scope)
  {
    // size()/data() are read here, in instrumented code (std::string's copy assignment lives in
    // libstdc++.so): a scope object that is already gone is then reported as heap-use-after-free with
    // allocation and free stacks, not as a wild read somewhere inside memmove
    const std::string &sn = scope->GetName(), &sv = scope->GetVersion(), &su = scope->GetSchemaURL();
    o.scope_name.assign(sn.data(), sn.size());
    o.scope_version.assign(sv.data(), sv.size());
    o.scope_schema.assign(su.data(), su.size());
  }
}

inline Obs snapshot(const sdktrace::SpanData &sd)
{
  Obs o;
  o.object = &sd;
  auto nm  = sd.GetName();
  o.name.assign(nm.data(), nm.size());
  o.kind     = static_cast<int>(sd.GetSpanKind());
  o.start    = sd.GetStartTime().time_since_epoch().count();
  o.duration = sd.GetDuration().count();
  o.attrs    = canon_owned_map(sd.GetAttributes());
  for (auto &e : sd.GetEvents())
  {
    OEvent oe;
    oe.name  = e.GetName();
    oe.ts    = e.GetTimestamp().time_since_epoch().count();
    oe.attrs = canon_owned_map(e.GetAttributes());
    o.events.push_back(std::move(oe));
  }
  for (auto &l : sd.GetLinks())
  {
    OLink ol;
    ol.ctx   = ctx_of(l.GetSpanContext());
    ol.attrs = canon_owned_map(l.GetAttributes());
    o.links.push_back(std::move(ol));
  }
  o.status = static_cast<int>(sd.GetStatus());
  auto d   = sd.GetDescription();
  o.desc.assign(d.data(), d.size());
  fill_env(o, &sd.GetResource(), &sd.GetInstrumentationScope());
  o.ctx = ctx_of(sd.GetSpanContext());
  o.parent_span_id.assign(reinterpret_cast<const char *>(sd.GetParentSpanId().Id().data()), 8);
  o.flags = sd.GetFlags().flags();
  return o;
}

// ---------------------------------------------------------------------------------------------
// per-processor shared state (harness side keeps a shared_ptr)
// ---------------------------------------------------------------------------------------------
enum ProcKind
{
  kSimple = 0,
  kBatch  = 1,
  kCustom = 2
};
static const char *const kProcName[3] = {"simple", "batch", "custom"};

struct Retained
{
  size_t delivery;
  std::unique_ptr<sdktrace::Recordable> rec;
};

struct ProcState
{
  int kind    = kSimple;
  bool retain = false;
  std::mutex mu;
  std::vector<Obs> deliveries;
  std::vector<Retained> retained;
  uint64_t shutdowns = 0, onstart = 0, null_recordables = 0, exports = 0, made = 0;
  // custom recordables: number of setter calls that arrived after the recordable was handed to OnEnd
  uint64_t late_calls = 0;
  std::string late_call_names;
};

// the recordable of the custom processor: logs every setter call and keeps its own deep copies
class LogRecordable final : public sdktrace::Recordable
{
public:
  // weak: the recordable may end up retained inside the ProcState itself
  explicit LogRecordable(const std::shared_ptr<ProcState> &st) : st_(st) { obs.object = this; }

  Obs obs;
  std::vector<const char *> calls;
  bool ended                                      = false;
  const sdkres::Resource *res                     = nullptr;
  const sdkscope::InstrumentationScope *scope_ptr = nullptr;
  unsigned n_name = 0, n_kind = 0, n_start = 0, n_duration = 0, n_resource = 0, n_scope = 0, n_identity = 0;

  void note(const char *what)
  {
    calls.push_back(what);
    if (ended)
    {
      auto st = st_.lock();
      if (!st)
        return;
      std::lock_guard<std::mutex> g(st->mu);
      ++st->late_calls;
      if (st->late_call_names.size() < 200)
        st->late_call_names += std::string(what) + " ";
    }
  }

  void SetIdentity(const trace_api::SpanContext &span_context, trace_api::SpanId parent_span_id) noexcept override
  {
    note("SetIdentity");
    ++n_identity;
    obs.ctx = ctx_of(span_context);
    obs.parent_span_id.assign(reinterpret_cast<const char *>(parent_span_id.Id().data()), 8);
  }
  void SetAttribute(nostd::string_view key, const common::AttributeValue &value) noexcept override
  {
    note("SetAttribute");
    obs.attrs[std::string(key.data(), key.size())] = nostd::visit(ViewCanon(), value);
  }
  void AddEvent(nostd::string_view name,
                common::SystemTimestamp timestamp,
                const common::KeyValueIterable &attributes) noexcept override
  {
    note("AddEvent");
    OEvent e;
    e.name.assign(name.data(), name.size());
    e.ts    = timestamp.time_since_epoch().count();
    e.attrs = canon_iterable(attributes);
    obs.events.push_back(std::move(e));
  }
  void AddLink(const trace_api::SpanContext &span_context, const common::KeyValueIterable &attributes) noexcept override
  {
    note("AddLink");
    OLink l;
    l.ctx   = ctx_of(span_context);
    l.attrs = canon_iterable(attributes);
    obs.links.push_back(std::move(l));
  }
  void SetStatus(trace_api::StatusCode code, nostd::string_view description) noexcept override
  {
    note("SetStatus");
    obs.status = static_cast<int>(code);
    obs.desc.assign(description.data(), description.size());
  }
  void SetName(nostd::string_view name) noexcept override
  {
    note("SetName");
    ++n_name;
    obs.name.assign(name.data(), name.size());
  }
  void SetTraceFlags(trace_api::TraceFlags flags) noexcept override
  {
    note("SetTraceFlags");
    obs.flags = flags.flags();
  }
  void SetSpanKind(trace_api::SpanKind span_kind) noexcept override
  {
    note("SetSpanKind");
    ++n_kind;
    obs.kind = static_cast<int>(span_kind);
  }
  void SetResource(const sdkres::Resource &resource) noexcept override
  {
    note("SetResource");
    ++n_resource;
    res = &resource;
  }
  void SetStartTime(common::SystemTimestamp start_time) noexcept override
  {
    note("SetStartTime");
    ++n_start;
    obs.start = start_time.time_since_epoch().count();
  }
  void SetDuration(std::chrono::nanoseconds duration) noexcept override
  {
    note("SetDuration");
    ++n_duration;
    obs.duration = duration.count();
  }
  void SetInstrumentationScope(const sdkscope::InstrumentationScope &instrumentation_scope) noexcept override
  {
    note("SetInstrumentationScope");
    ++n_scope;
    scope_ptr = &instrumentation_scope;
  }

  Obs finish()
  {
    fill_env(obs, res, scope_ptr);
    ended = true;
    return obs;
  }

private:
  std::weak_ptr<ProcState> st_;
};

class LogProcessor final : public sdktrace::SpanProcessor
{
public:
  explicit LogProcessor(std::shared_ptr<ProcState> st) : st_(std::move(st)) {}
  std::unique_ptr<sdktrace::Recordable> MakeRecordable() noexcept override
  {
    {
      std::lock_guard<std::mutex> g(st_->mu);
      ++st_->made;
    }
    return std::unique_ptr<sdktrace::Recordable>(new LogRecordable(st_));
  }
  void OnStart(sdktrace::Recordable &, const trace_api::SpanContext &) noexcept override
  {
    std::lock_guard<std::mutex> g(st_->mu);
    ++st_->onstart;
  }
  void OnEnd(std::unique_ptr<sdktrace::Recordable> &&span) noexcept override
  {
    if (!span)
    {
      std::lock_guard<std::mutex> g(st_->mu);
      ++st_->null_recordables;
      return;
    }
    LogRecordable *lr = static_cast<LogRecordable *>(span.get());
    Obs o             = lr->finish();
    std::lock_guard<std::mutex> g(st_->mu);
    ++st_->exports;
    st_->deliveries.push_back(std::move(o));
    st_->retained.push_back(Retained{st_->deliveries.size() - 1, std::move(span)});
  }
  bool ForceFlush(std::chrono::microseconds) noexcept override { return true; }
  bool Shutdown(std::chrono::microseconds) noexcept override
  {
    std::lock_guard<std::mutex> g(st_->mu);
    ++st_->shutdowns;
    return true;
  }

private:
  std::shared_ptr<ProcState> st_;
};

// exporter behind the SDK's simple / batch processors: deep copy at Export time
class RecExporter final : public sdktrace::SpanExporter
{
public:
  explicit RecExporter(std::shared_ptr<ProcState> st) : st_(std::move(st)) {}
  std::unique_ptr<sdktrace::Recordable> MakeRecordable() noexcept override
  {
    {
      std::lock_guard<std::mutex> g(st_->mu);
      ++st_->made;
    }
    return std::unique_ptr<sdktrace::Recordable>(new sdktrace::SpanData);
  }
  opentelemetry::sdk::common::ExportResult Export(
      const nostd::span<std::unique_ptr<sdktrace::Recordable>> &spans) noexcept override
  {
    std::lock_guard<std::mutex> g(st_->mu);
    ++st_->exports;
    for (auto &r : spans)
    {
      if (!r)
      {
        ++st_->null_recordables;
        continue;
      }
      auto *sd = static_cast<sdktrace::SpanData *>(r.get());
      st_->deliveries.push_back(snapshot(*sd));
      if (st_->retain)
        st_->retained.push_back(Retained{st_->deliveries.size() - 1, std::move(r)});
    }
    return opentelemetry::sdk::common::ExportResult::kSuccess;
  }
  bool ForceFlush(std::chrono::microseconds) noexcept override { return true; }
  bool Shutdown(std::chrono::microseconds) noexcept override
  {
    std::lock_guard<std::mutex> g(st_->mu);
    ++st_->shutdowns;
    return true;
  }

private:
  std::shared_ptr<ProcState> st_;
};

// ---------------------------------------------------------------------------------------------
// oracle: one exported copy against the model
// ---------------------------------------------------------------------------------------------
struct Verdicts
{
  std::string where;  // "proc 1/3 batch; program: ..."
  unsigned reported = 0;
  void fail(const std::string &assertion, const std::string &cls, const std::string &detail)
  {
    ++reported;
    vf::report().violation(assertion, cls, detail + " @ " + where);
  }
};

// prefix = "attr" | "event-attr" | "link-attr"
inline bool cmp_attrs(const MAttrs &want, const OAttrs &got, const std::string &prefix, Verdicts &V)
{
  bool ok = true;
  bool r_missing = false, r_value = false, r_lww = false, r_extra = false;
  for (auto &kv : want)
  {
    auto it = got.find(kv.first);
    if (it == got.end())
    {
      ok = false;
      if (!r_missing)
        V.fail(prefix + "-missing", kAltName[kv.second.v.alt],
               "key " + vf::show(kv.first, 40) + " want " + vf::show(kv.second.canon, 80) + " but the key is absent");
      r_missing = true;
      continue;
    }
    if (it->second == kv.second.canon)
      continue;
    ok = false;
    bool earlier = kv.second.writes > 1 && kv.second.first == it->second;
    for (auto &e : kv.second.earlier)
      earlier |= e == it->second;
    std::string d = "key " + vf::show(kv.first, 40) + " got " + vf::show(it->second, 80) + " want " +
                    vf::show(kv.second.canon, 80) + " (" + std::to_string(kv.second.writes) + " writes)";
    if (earlier)
    {
      if (!r_lww)
        V.fail(prefix + "-last-write-wins", kv.second.type_changes ? "type-change" : "same-type", d);
      r_lww = true;
    }
    else
    {
      if (!r_value)
        V.fail(prefix + "-value", kAltName[kv.second.v.alt], d);
      r_value = true;
    }
  }
  for (auto &kv : got)
    if (!want.count(kv.first))
    {
      ok = false;
      if (!r_extra)
        V.fail(prefix + "-extra", "unexpected-key",
               "key " + vf::show(kv.first, 40) + " = " + vf::show(kv.second, 80) + " was never set");
      r_extra = true;
    }
  return ok;
}

static const char *const kKindName[5]   = {"internal", "server", "client", "producer", "consumer"};
static const char *const kStatusName[3] = {"unset", "ok", "error"};

// returns true when every judged field matched
inline bool check_copy(const MSpan &m, const Obs &o, Verdicts &V, uint64_t *dontcare_desc)
{
  unsigned before = V.reported;
  if (o.name != m.name)
    V.fail("name", m.renamed ? "updated" : "initial", "got " + vf::show(o.name, 80) + " want " + vf::show(m.name, 80));
  if (o.kind != m.kind)
    V.fail("kind", m.kind >= 0 && m.kind < 5 ? kKindName[m.kind] : "?",
           "got " + std::to_string(o.kind) + " want " + std::to_string(m.kind));
  std::string smode = m.start_explicit ? "explicit" : "default";
  std::string emode = m.end_explicit ? "explicit" : "default";
  if (m.judge_start)
  {
    if (m.start_explicit)
    {
      if (o.start != m.start_sys)
        V.fail("start-time", "explicit", "got " + std::to_string(o.start) + " want " + std::to_string(m.start_sys));
    }
    else if (o.start < m.start_lo || o.start > m.start_hi)
      V.fail("start-time", "default",
             "got " + std::to_string(o.start) + " want within [" + std::to_string(m.start_lo) + "," +
                 std::to_string(m.start_hi) + "] (system clock read before/after StartSpan)");
    // duration = end(steady) - start(steady); defaults are bracketed by the harness' clock reads
    int64_t s_lo = m.start_explicit ? m.start_steady : m.sst_lo, s_hi = m.start_explicit ? m.start_steady : m.sst_hi;
    int64_t e_lo = m.end_explicit ? m.end_steady : m.est_lo, e_hi = m.end_explicit ? m.end_steady : m.est_hi;
    int64_t d_lo = e_lo - s_hi, d_hi = e_hi - s_lo;
    if (o.duration < d_lo || o.duration > d_hi)
      V.fail("duration", smode + "-start:" + emode + "-end",
             "got " + std::to_string(o.duration) + " want within [" + std::to_string(d_lo) + "," + std::to_string(d_hi) +
                 "]");
  }
  cmp_attrs(m.attrs, o.attrs, "attr", V);
  // events: in call order
  if (o.events.size() != m.events.size())
    V.fail("event-count", o.events.size() < m.events.size() ? "fewer" : "more",
           "got " + std::to_string(o.events.size()) + " want " + std::to_string(m.events.size()));
  else
  {
    bool names_ok = true;
    for (size_t i = 0; i < m.events.size(); ++i)
      names_ok &= o.events[i].name == m.events[i].name;
    if (!names_ok)
    {
      // same multiset in another order, or different names
      std::vector<std::string> a, b;
      for (size_t i = 0; i < m.events.size(); ++i)
      {
        a.push_back(o.events[i].name);
        b.push_back(m.events[i].name);
      }
      std::string got_seq;
      for (auto &s : a)
        got_seq += vf::show(s, 12) + ",";
      std::string want_seq;
      for (auto &s : b)
        want_seq += vf::show(s, 12) + ",";
      std::sort(a.begin(), a.end());
      std::sort(b.begin(), b.end());
      if (a == b)
        V.fail("event-order", "call-order", "got " + got_seq + " want " + want_seq);
      else
        V.fail("event-name", "copy", "got " + got_seq + " want " + want_seq);
    }
    else
    {
      bool r_ts = false, r_attr = false;
      for (size_t i = 0; i < m.events.size(); ++i)
      {
        const MEvent &me = m.events[i];
        const OEvent &oe = o.events[i];
        bool ts_ok       = me.ts_explicit ? oe.ts == me.ts : (oe.ts >= me.lo && oe.ts <= me.hi);
        if (!ts_ok && !r_ts)
        {
          r_ts = true;
          V.fail("event-timestamp", me.ts_explicit ? "explicit" : "default",
                 "event " + std::to_string(i) + " got " + std::to_string(oe.ts) + " want " +
                     (me.ts_explicit ? std::to_string(me.ts)
                                     : "[" + std::to_string(me.lo) + "," + std::to_string(me.hi) + "]"));
        }
        if (!r_attr)
        {
          unsigned b4 = V.reported;
          cmp_attrs(me.attrs, oe.attrs, "event-attr", V);
          r_attr = V.reported != b4;
        }
      }
    }
  }
  // links: in call order
  if (o.links.size() != m.links.size())
    V.fail("link-count", o.links.size() < m.links.size() ? "fewer" : "more",
           "got " + std::to_string(o.links.size()) + " want " + std::to_string(m.links.size()));
  else
  {
    bool r_ctx = false, r_attr = false;
    for (size_t i = 0; i < m.links.size(); ++i)
    {
      if (!(o.links[i].ctx == m.links[i].ctx) && !r_ctx)
      {
        r_ctx       = true;
        bool perm   = false;
        for (auto &l : o.links)
          perm |= l.ctx == m.links[i].ctx;
        V.fail(perm ? "link-order" : "link-context", perm ? "call-order" : "copy",
               "link " + std::to_string(i) + " got " + o.links[i].ctx.show() + " want " + m.links[i].ctx.show());
      }
      if (!r_ctx && !r_attr)
      {
        unsigned b4 = V.reported;
        cmp_attrs(m.links[i].attrs, o.links[i].attrs, "link-attr", V);
        r_attr = V.reported != b4;
      }
    }
  }
  // status: last SetStatus wins (api/include/opentelemetry/trace/span.h: "Only the value of the last call
  // will be recorded").  The description is judged only for kError: the OpenTelemetry specification lets an
  // implementation drop it for Ok/Unset, so that class is don't-care.
  if (o.status != m.status_code)
    V.fail("status-code", m.status_code >= 0 && m.status_code < 3 ? kStatusName[m.status_code] : "?",
           "got " + std::to_string(o.status) + " want " + std::to_string(m.status_code));
  else if (m.status_code == static_cast<int>(trace_api::StatusCode::kError))
  {
    if (o.desc != m.status_desc)
      V.fail("status-description", "error", "got " + vf::show(o.desc, 60) + " want " + vf::show(m.status_desc, 60));
  }
  else if (!m.status_desc.empty() && dontcare_desc)
    ++*dontcare_desc;
  if (o.resource != m.resource || !o.has_marker || o.resource_marker != m.resource_marker)
    V.fail("resource", "provider-resource",
           "resource object/marker differ: got marker " + std::to_string(o.resource_marker) + " want " +
               std::to_string(m.resource_marker) + (o.resource != m.resource ? " (different object)" : ""));
  if (o.scope != m.scope || o.scope_name != m.scope_name || o.scope_version != m.scope_version ||
      o.scope_schema != m.scope_schema)
    V.fail("scope", "tracer-scope",
           "got " + vf::show(o.scope_name, 30) + "/" + vf::show(o.scope_version, 20) + "/" + vf::show(o.scope_schema, 30) +
               " want " + vf::show(m.scope_name, 30) + "/" + vf::show(m.scope_version, 20) + "/" +
               vf::show(m.scope_schema, 30) + (o.scope != m.scope ? " (different object)" : ""));
  return V.reported == before;
}

}  // namespace c04
