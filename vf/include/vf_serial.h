// Serialised seeded scheduler (engine E3).  The lock-free headers are compiled unmodified with the
// tokens `atomic` and `this_thread` renamed to the wrappers below, so that every atomic operation
// is a scheduling point at which a baton is handed to the thread chosen by a seeded PRNG.  Exactly
// one thread runs at any time; a schedule is a pure function of the seed and replays exactly.
// compare_exchange_weak may fail spuriously.  This samples schedules; it enumerates nothing.
#pragma once

#include "vf_std_all.h"

#include "vf_core.h"

namespace vfs
{

struct Sched
{
  std::mutex mu;
  std::condition_variable cv;
  int current = -1;
  int nthreads = 0;
  std::vector<char> finished;
  std::vector<int> prio;           // PCT priorities (higher runs first)
  std::vector<uint64_t> change_at;  // PCT priority change points (step numbers)
  vf::Rng rng{1};
  uint64_t steps        = 0;
  uint64_t max_steps    = 200000;
  bool round_robin      = false;
  bool stuck            = false;
  int policy            = 0;  // 0 uniform random, 1 PCT, 2 scripted (bounded-preemption enumeration)
  // policy 2: run the current thread until it finishes or yields; switch only at the scripted (step, thread)
  // preemption points, at voluntary yields (round-robin) and after 40 consecutive steps (a spinner)
  std::vector<std::pair<uint64_t, int>> script;
  std::vector<signed char> trace_running;   // thread that executed step s
  std::vector<unsigned char> trace_live;    // bit mask of unfinished threads at step s
  bool script_infeasible = false;
  int low_water         = 999;
  int last_kind         = -1;
  uint32_t spurious_ppm = 0;
  uint64_t hash         = 1469598103934665603ull;
  uint64_t spurious_taken = 0, cas_fail_genuine = 0, switches = 0;
  std::function<void()> step_monitor;  // evaluated by the running thread between steps
  std::function<void()> on_stuck;
  std::vector<uint64_t> consecutive;   // steps run without being descheduled (fairness demotion)

  void reset(int n, uint64_t seed, int pol, int pct_depth, uint32_t spur_ppm)
  {
    nthreads = n;
    finished.assign(static_cast<size_t>(n), 0);
    prio.resize(static_cast<size_t>(n));
    consecutive.assign(static_cast<size_t>(n), 0);
    rng         = vf::Rng(seed);
    steps       = 0;
    round_robin = false;
    stuck       = false;
    policy      = pol;
    spurious_ppm = spur_ppm;
    hash        = 1469598103934665603ull;
    spurious_taken = cas_fail_genuine = switches = 0;
    for (int i = 0; i < n; ++i)
      prio[static_cast<size_t>(i)] = static_cast<int>(rng.below(1000)) + 1000;
    change_at.clear();
    for (int i = 0; i < pct_depth; ++i)
      change_at.push_back(rng.below(400));
    current   = -1;
    low_water = 999;
    last_kind = -1;
    trace_running.clear();
    trace_live.clear();
    script.clear();
    script_infeasible = false;
  }

  int pick_locked(int me)
  {
    std::vector<int> live;
    for (int i = 0; i < nthreads; ++i)
      if (!finished[static_cast<size_t>(i)])
        live.push_back(i);
    if (live.empty())
      return -1;
    if (round_robin)
    {
      for (int k = 1; k <= nthreads; ++k)
      {
        int c = (me + k) % nthreads;
        if (!finished[static_cast<size_t>(c)])
          return c;
      }
    }
    if (policy == 0)
      return live[rng.below(live.size())];
    if (policy == 2)
    {
      auto next_rr = [&](int from) {
        for (int k = 1; k <= nthreads; ++k)
        {
          int c = (from + k) % nthreads;
          if (!finished[static_cast<size_t>(c)])
            return c;
        }
        return from;
      };
      if (me < 0 || finished[static_cast<size_t>(me)])
        return me < 0 ? live[0] : next_rr(me);
      for (auto &pr : script)
        if (pr.first == steps)
        {
          if (pr.second == me || finished[static_cast<size_t>(pr.second)])
          {
            script_infeasible = true;  // that thread cannot be chosen here
            break;
          }
          return pr.second;
        }
      if (last_kind == 4 || last_kind == 5 || last_kind == 7)
        return next_rr(me);  // voluntary yield / sleep / idle consumer: free switch
      if (consecutive[static_cast<size_t>(me)] >= 40)
      {
        consecutive[static_cast<size_t>(me)] = 0;
        return next_rr(me);  // a spinner: free switch
      }
      return me;
    }
    // PCT: highest priority runs; at a change point the running thread drops to the bottom; a thread that
    // ran 64 consecutive steps is demoted too (it is most likely spinning)
    for (auto c : change_at)
      if (c == steps && me >= 0)
        prio[static_cast<size_t>(me)] = --low_water;  // below every other thread, as in PCT
    if (me >= 0 && consecutive[static_cast<size_t>(me)] >= 64)
    {
      prio[static_cast<size_t>(me)] = --low_water;
      consecutive[static_cast<size_t>(me)] = 0;
    }
    int best = live[0];
    for (int c : live)
      if (prio[static_cast<size_t>(c)] > prio[static_cast<size_t>(best)])
        best = c;
    return best;
  }

  // called by the controller after all threads were created and are waiting in begin()
  void go()
  {
    std::unique_lock<std::mutex> l(mu);
    current = pick_locked(-1);
    cv.notify_all();
  }
  void begin(int id)
  {
    std::unique_lock<std::mutex> l(mu);
    cv.wait(l, [&] { return current == id; });
  }
  void end(int id)
  {
    std::unique_lock<std::mutex> l(mu);
    finished[static_cast<size_t>(id)] = 1;
    current                           = pick_locked(id);
    cv.notify_all();
  }
  // a scheduling point of thread `id`
  void point(int id, int kind)
  {
    if (step_monitor)
      step_monitor();
    std::unique_lock<std::mutex> l(mu);
    ++steps;
    ++consecutive[static_cast<size_t>(id)];
    last_kind = kind;
    if (policy == 2)
    {
      unsigned char mask = 0;
      for (int i = 0; i < nthreads && i < 8; ++i)
        if (!finished[static_cast<size_t>(i)])
          mask = static_cast<unsigned char>(mask | (1u << i));
      if (trace_running.size() <= steps)
      {
        trace_running.resize(steps + 1, -1);
        trace_live.resize(steps + 1, 0);
      }
      trace_running[steps] = static_cast<signed char>(id);
      trace_live[steps]    = mask;
    }
    if (steps > max_steps && !round_robin)
    {
      round_robin = true;  // continue under a fair schedule before declaring no progress
    }
    if (steps > 2 * max_steps)
    {
      // no progress even under a fair schedule: the harness reports it and ends the process (threads are
      // inside noexcept SDK loops and cannot be unwound); the driver resumes with the next case
      stuck = true;
      if (on_stuck)
        on_stuck();
      return;
    }
    int nxt = pick_locked(id);
    hash    = (hash ^ static_cast<uint64_t>(nxt * 8 + kind)) * 1099511628211ull;
    if (nxt != id && nxt >= 0)
    {
      ++switches;
      consecutive[static_cast<size_t>(id)] = 0;
      current                              = nxt;
      cv.notify_all();
      cv.wait(l, [&] { return current == id; });
    }
  }
  bool spurious()
  {
    if (spurious_ppm == 0)
      return false;
    std::unique_lock<std::mutex> l(mu);
    if (rng.below(1000000) < spurious_ppm)
    {
      ++spurious_taken;
      return true;
    }
    return false;
  }
};

inline Sched &sched()
{
  static Sched s;
  return s;
}
inline int &my_id()
{
  thread_local int id = -1;
  return id;
}
inline bool &in_monitor()
{
  thread_local bool b = false;
  return b;
}
inline void point(int kind)
{
  if (my_id() >= 0 && !in_monitor())
    sched().point(my_id(), kind);
}

// monitors read SDK state without creating scheduling points
struct MonitorScope
{
  bool prev;
  MonitorScope() : prev(in_monitor()) { in_monitor() = true; }
  ~MonitorScope() { in_monitor() = prev; }
};

template <class T>
struct atomic
{
  std::atomic<T> v;
  atomic() noexcept = default;
  constexpr atomic(T d) noexcept : v(d) {}
  atomic(const atomic &)            = delete;
  atomic &operator=(const atomic &) = delete;
  T operator=(T d) noexcept
  {
    store(d);
    return d;
  }
  operator T() const noexcept { return load(); }
  void store(T d, std::memory_order m = std::memory_order_seq_cst) noexcept
  {
    point(1);
    v.store(d, m);
  }
  T load(std::memory_order m = std::memory_order_seq_cst) const noexcept
  {
    point(0);
    return v.load(m);
  }
  T exchange(T d, std::memory_order m = std::memory_order_seq_cst) noexcept
  {
    point(2);
    return v.exchange(d, m);
  }
  bool compare_exchange_weak(T &e, T d, std::memory_order s, std::memory_order f) noexcept
  {
    point(3);
    if (my_id() >= 0 && !in_monitor() && sched().spurious())
    {
      e = v.load(f);
      return false;
    }
    bool ok = v.compare_exchange_strong(e, d, s, f);
    if (!ok && my_id() >= 0)
      ++sched().cas_fail_genuine;
    return ok;
  }
  bool compare_exchange_weak(T &e, T d, std::memory_order m = std::memory_order_seq_cst) noexcept
  {
    return compare_exchange_weak(e, d, m, std::memory_order_relaxed);
  }
  bool compare_exchange_strong(T &e, T d, std::memory_order s, std::memory_order f) noexcept
  {
    point(3);
    bool ok = v.compare_exchange_strong(e, d, s, f);
    if (!ok && my_id() >= 0)
      ++sched().cas_fail_genuine;
    return ok;
  }
  bool compare_exchange_strong(T &e, T d, std::memory_order m = std::memory_order_seq_cst) noexcept
  {
    return compare_exchange_strong(e, d, m, std::memory_order_relaxed);
  }
  template <class A>
  T fetch_add(A a, std::memory_order m = std::memory_order_seq_cst) noexcept
  {
    point(2);
    return v.fetch_add(a, m);
  }
  template <class A>
  T fetch_sub(A a, std::memory_order m = std::memory_order_seq_cst) noexcept
  {
    point(2);
    return v.fetch_sub(a, m);
  }
  T operator++() noexcept
  {
    point(2);
    return ++v;
  }
  T operator++(int) noexcept
  {
    point(2);
    return v++;
  }
  T operator--() noexcept
  {
    point(2);
    return --v;
  }
  T operator--(int) noexcept
  {
    point(2);
    return v--;
  }
  template <class A>
  T operator+=(A a) noexcept
  {
    point(2);
    return v += a;
  }
  template <class A>
  T operator-=(A a) noexcept
  {
    point(2);
    return v -= a;
  }
};

}  // namespace vfs

namespace std
{
template <class T>
using vfs_atomic = ::vfs::atomic<T>;
namespace vfs_this_thread
{
inline void yield() noexcept
{
  ::vfs::point(4);
}
template <class R, class P>
inline void sleep_for(const std::chrono::duration<R, P> &)
{
  ::vfs::point(5);
}
inline std::thread::id get_id() noexcept
{
  return std::this_thread::get_id();
}
}  // namespace vfs_this_thread
}  // namespace std
