// C04 helper: the attribute value domain (DESIGN.md §4 "A").
// A model value (MV) is owned by the harness.  It can be (a) rendered into a canonical string
// (logical type tag + payload) and (b) materialised as a non-owning common::AttributeValue whose
// storage lives in exact-size heap blocks (vf::Buf) that the caller kills right after the SDK
// call returns.  Canonical strings of what the SDK hands to exporters (OwnedAttributeValue) and of
// what a recordable receives (AttributeValue) are produced by visitors overloaded on the C++
// type, never on the variant index.
#pragma once

#include <cstdint>
#include <cstring>
#include <limits>
#include <map>
#include <string>
#include <utility>
#include <vector>

#include "opentelemetry/common/attribute_value.h"
#include "opentelemetry/common/key_value_iterable.h"
#include "opentelemetry/nostd/span.h"
#include "opentelemetry/nostd/string_view.h"
#include "opentelemetry/nostd/variant.h"
#include "opentelemetry/sdk/common/attribute_utils.h"

#include "vf_core.h"

namespace c04
{
namespace common = opentelemetry::common;
namespace nostd  = opentelemetry::nostd;

// AttributeValue alternatives as the application sees them (ABI v1 and v2: 16)
enum Alt
{
  A_BOOL = 0,
  A_I32,
  A_I64,
  A_U32,
  A_F64,
  A_CSTR,
  A_SV,
  A_SPAN_BOOL,
  A_SPAN_I32,
  A_SPAN_I64,
  A_SPAN_U32,
  A_SPAN_F64,
  A_SPAN_SV,
  A_U64,
  A_SPAN_U64,
  A_SPAN_U8,
  A_COUNT
};

static const char *const kAltName[A_COUNT] = {"bool",      "int32",     "int64",       "uint32",
                                              "double",    "cstring",   "string_view", "span_bool",
                                              "span_int32", "span_int64", "span_uint32", "span_double",
                                              "span_string_view", "uint64", "span_uint64", "span_uint8"};

// logical type tag: const char* and string_view are the same logical type (a string)
static const char kAltTag[A_COUNT] = {'b', 'i', 'l', 'u', 'd', 's', 's', 'B', 'I', 'L', 'W', 'D', 'S', 'U', 'Q', 'Y'};

// name of a logical type tag as it appears in canonical strings
inline const char *tag_name(char tag)
{
  for (int a = 0; a < A_COUNT; ++a)
    if (kAltTag[a] == tag)
      return tag == 's' ? "string" : kAltName[a];
  return "unknown";
}

inline bool alt_is_array(int a)
{
  return a == A_SPAN_BOOL || a == A_SPAN_I32 || a == A_SPAN_I64 || a == A_SPAN_U32 || a == A_SPAN_F64 ||
         a == A_SPAN_SV || a == A_SPAN_U64 || a == A_SPAN_U8;
}

// ---------------------------------------------------------------------------------------------
// canonical strings
// ---------------------------------------------------------------------------------------------
inline std::string canon_scalar(char tag, uint64_t bits)
{
  char b[32];
  snprintf(b, sizeof b, "%c:%016llx", tag, static_cast<unsigned long long>(bits));
  return b;
}
inline std::string canon_array_head(char tag, size_t n)
{
  char b[40];
  snprintf(b, sizeof b, "%c[%zu]:", tag, n);
  return b;
}
inline void canon_put64(std::string &s, uint64_t bits)
{
  char raw[8];
  memcpy(raw, &bits, 8);
  s.append(raw, 8);
}
inline uint64_t dbits(double d)
{
  uint64_t u;
  memcpy(&u, &d, 8);
  return u;
}
inline double bitsd(uint64_t u)
{
  double d;
  memcpy(&d, &u, 8);
  return d;
}
inline std::string canon_strings_head(size_t n)
{
  return canon_array_head('S', n);
}
inline void canon_put_string(std::string &s, const char *p, size_t n)
{
  canon_put64(s, n);
  s.append(p, n);
}

// model value
struct MV
{
  int alt       = A_BOOL;
  uint64_t bits = 0;               // scalars: value sign-/zero-extended, double as bit pattern
  std::string str;                 // cstring (no NUL inside), string_view (any bytes)
  std::vector<uint64_t> nums;      // numeric arrays, each element encoded like `bits`
  std::vector<std::string> strs;   // string arrays

  char tag() const { return kAltTag[alt]; }

  std::string canon() const
  {
    switch (alt)
    {
      case A_BOOL:
      case A_I32:
      case A_I64:
      case A_U32:
      case A_F64:
      case A_U64:
        return canon_scalar(tag(), bits);
      case A_CSTR:
      case A_SV:
        return "s:" + str;
      case A_SPAN_SV: {
        std::string s = canon_strings_head(strs.size());
        for (auto &e : strs)
          canon_put_string(s, e.data(), e.size());
        return s;
      }
      default: {
        std::string s = canon_array_head(tag(), nums.size());
        s.reserve(s.size() + nums.size() * 8);
        for (uint64_t x : nums)
          canon_put64(s, x);
        return s;
      }
    }
  }

  std::string brief() const
  {
    std::string c = canon();
    return std::string(kAltName[alt]) + "=" + vf::show(c, 48);
  }
};

// what exporters see
struct OwnedCanon
{
  std::string operator()(bool v) const { return canon_scalar('b', v ? 1 : 0); }
  std::string operator()(int32_t v) const { return canon_scalar('i', static_cast<uint64_t>(static_cast<int64_t>(v))); }
  std::string operator()(uint32_t v) const { return canon_scalar('u', v); }
  std::string operator()(int64_t v) const { return canon_scalar('l', static_cast<uint64_t>(v)); }
  std::string operator()(uint64_t v) const { return canon_scalar('U', v); }
  std::string operator()(double v) const { return canon_scalar('d', dbits(v)); }
  std::string operator()(const std::string &v) const { return "s:" + v; }
  std::string operator()(const std::vector<bool> &v) const
  {
    std::string s = canon_array_head('B', v.size());
    for (bool x : v)
      canon_put64(s, x ? 1 : 0);
    return s;
  }
  std::string operator()(const std::vector<int32_t> &v) const
  {
    std::string s = canon_array_head('I', v.size());
    for (auto x : v)
      canon_put64(s, static_cast<uint64_t>(static_cast<int64_t>(x)));
    return s;
  }
  std::string operator()(const std::vector<uint32_t> &v) const
  {
    std::string s = canon_array_head('W', v.size());
    for (auto x : v)
      canon_put64(s, x);
    return s;
  }
  std::string operator()(const std::vector<int64_t> &v) const
  {
    std::string s = canon_array_head('L', v.size());
    for (auto x : v)
      canon_put64(s, static_cast<uint64_t>(x));
    return s;
  }
  std::string operator()(const std::vector<uint64_t> &v) const
  {
    std::string s = canon_array_head('Q', v.size());
    for (auto x : v)
      canon_put64(s, x);
    return s;
  }
  std::string operator()(const std::vector<double> &v) const
  {
    std::string s = canon_array_head('D', v.size());
    for (auto x : v)
      canon_put64(s, dbits(x));
    return s;
  }
  std::string operator()(const std::vector<uint8_t> &v) const
  {
    std::string s = canon_array_head('Y', v.size());
    for (auto x : v)
      canon_put64(s, x);
    return s;
  }
  std::string operator()(const std::vector<std::string> &v) const
  {
    std::string s = canon_strings_head(v.size());
    for (auto &e : v)
      canon_put_string(s, e.data(), e.size());
    return s;
  }
};

// what a recordable receives (non-owning; must be copied during the call)
struct ViewCanon
{
  std::string operator()(bool v) const { return canon_scalar('b', v ? 1 : 0); }
  std::string operator()(int32_t v) const { return canon_scalar('i', static_cast<uint64_t>(static_cast<int64_t>(v))); }
  std::string operator()(uint32_t v) const { return canon_scalar('u', v); }
  std::string operator()(int64_t v) const { return canon_scalar('l', static_cast<uint64_t>(v)); }
  std::string operator()(uint64_t v) const { return canon_scalar('U', v); }
  std::string operator()(double v) const { return canon_scalar('d', dbits(v)); }
  std::string operator()(const char *v) const { return std::string("s:") + (v ? v : "(null)"); }
  std::string operator()(nostd::string_view v) const { return "s:" + std::string(v.data(), v.size()); }
  std::string operator()(nostd::span<const bool> v) const
  {
    std::string s = canon_array_head('B', v.size());
    for (bool x : v)
      canon_put64(s, x ? 1 : 0);
    return s;
  }
  std::string operator()(nostd::span<const int32_t> v) const
  {
    std::string s = canon_array_head('I', v.size());
    for (auto x : v)
      canon_put64(s, static_cast<uint64_t>(static_cast<int64_t>(x)));
    return s;
  }
  std::string operator()(nostd::span<const uint32_t> v) const
  {
    std::string s = canon_array_head('W', v.size());
    for (auto x : v)
      canon_put64(s, x);
    return s;
  }
  std::string operator()(nostd::span<const int64_t> v) const
  {
    std::string s = canon_array_head('L', v.size());
    for (auto x : v)
      canon_put64(s, static_cast<uint64_t>(x));
    return s;
  }
  std::string operator()(nostd::span<const uint64_t> v) const
  {
    std::string s = canon_array_head('Q', v.size());
    for (auto x : v)
      canon_put64(s, x);
    return s;
  }
  std::string operator()(nostd::span<const double> v) const
  {
    std::string s = canon_array_head('D', v.size());
    for (auto x : v)
      canon_put64(s, dbits(x));
    return s;
  }
  std::string operator()(nostd::span<const uint8_t> v) const
  {
    std::string s = canon_array_head('Y', v.size());
    for (auto x : v)
      canon_put64(s, x);
    return s;
  }
  std::string operator()(nostd::span<const nostd::string_view> v) const
  {
    std::string s = canon_strings_head(v.size());
    for (auto &e : v)
      canon_put_string(s, e.data(), e.size());
    return s;
  }
};

typedef std::map<std::string, std::string> OAttrs;  // key -> canonical value

template <class Map>
inline OAttrs canon_owned_map(const Map &m)
{
  OAttrs o;
  for (auto &kv : m)
    o[kv.first] = nostd::visit(OwnedCanon(), kv.second);
  return o;
}

inline OAttrs canon_iterable(const common::KeyValueIterable &it)
{
  OAttrs o;
  it.ForEachKeyValue([&](nostd::string_view k, common::AttributeValue v) noexcept {
    o[std::string(k.data(), k.size())] = nostd::visit(ViewCanon(), v);
    return true;
  });
  return o;
}

// ---------------------------------------------------------------------------------------------
// caller storage: exact-size heap blocks, killed after the call
// ---------------------------------------------------------------------------------------------
struct Backing
{
  std::vector<vf::Buf> bufs;
  vf::Buf &add(const void *d, size_t n)
  {
    bufs.emplace_back(static_cast<const char *>(d), n);
    return bufs.back();
  }
  nostd::string_view view(const std::string &s)
  {
    vf::Buf &b = add(s.data(), s.size());
    return nostd::string_view(b.data(), b.size());
  }
  void kill(bool scribble)
  {
    for (auto &b : bufs)
    {
      if (scribble)
        b.scribble();
      else
        b.release();
    }
  }
};

template <class T>
inline T from_bits(uint64_t b)
{
  return static_cast<T>(b);
}
template <>
inline bool from_bits<bool>(uint64_t b)
{
  return b != 0;
}
template <>
inline int32_t from_bits<int32_t>(uint64_t b)
{
  return static_cast<int32_t>(static_cast<int64_t>(b));
}
template <>
inline int64_t from_bits<int64_t>(uint64_t b)
{
  return static_cast<int64_t>(b);
}
template <>
inline double from_bits<double>(uint64_t b)
{
  return bitsd(b);
}

template <class T>
inline nostd::span<const T> span_block(const MV &v, Backing &bk)
{
  std::string raw(v.nums.size() * sizeof(T), '\0');
  for (size_t i = 0; i < v.nums.size(); ++i)
  {
    T t = from_bits<T>(v.nums[i]);
    memcpy(&raw[i * sizeof(T)], &t, sizeof(T));
  }
  vf::Buf &b = bk.add(raw.data(), raw.size());
  return nostd::span<const T>(reinterpret_cast<const T *>(b.data()), v.nums.size());
}

inline common::AttributeValue materialise(const MV &v, Backing &bk)
{
  switch (v.alt)
  {
    case A_BOOL:
      return common::AttributeValue(from_bits<bool>(v.bits));
    case A_I32:
      return common::AttributeValue(from_bits<int32_t>(v.bits));
    case A_I64:
      return common::AttributeValue(from_bits<int64_t>(v.bits));
    case A_U32:
      return common::AttributeValue(from_bits<uint32_t>(v.bits));
    case A_U64:
      return common::AttributeValue(from_bits<uint64_t>(v.bits));
    case A_F64:
      return common::AttributeValue(from_bits<double>(v.bits));
    case A_CSTR: {
      std::string z = v.str;
      z.push_back('\0');  // exactly strlen+1 bytes: the terminator is the last byte of the block
      vf::Buf &b = bk.add(z.data(), z.size());
      return common::AttributeValue(static_cast<const char *>(b.data()));
    }
    case A_SV:
      return common::AttributeValue(bk.view(v.str));
    case A_SPAN_BOOL:
      return common::AttributeValue(span_block<bool>(v, bk));
    case A_SPAN_I32:
      return common::AttributeValue(span_block<int32_t>(v, bk));
    case A_SPAN_I64:
      return common::AttributeValue(span_block<int64_t>(v, bk));
    case A_SPAN_U32:
      return common::AttributeValue(span_block<uint32_t>(v, bk));
    case A_SPAN_U64:
      return common::AttributeValue(span_block<uint64_t>(v, bk));
    case A_SPAN_F64:
      return common::AttributeValue(span_block<double>(v, bk));
    case A_SPAN_U8:
      return common::AttributeValue(span_block<uint8_t>(v, bk));
    case A_SPAN_SV:
    default: {
      std::string raw(v.strs.size() * sizeof(nostd::string_view), '\0');
      for (size_t i = 0; i < v.strs.size(); ++i)
      {
        nostd::string_view sv = bk.view(v.strs[i]);
        memcpy(&raw[i * sizeof(nostd::string_view)], &sv, sizeof sv);
      }
      vf::Buf &b = bk.add(raw.data(), raw.size());
      return common::AttributeValue(nostd::span<const nostd::string_view>(
          reinterpret_cast<const nostd::string_view *>(b.data()), v.strs.size()));
    }
  }
}

// an attribute container: heap block of exactly n pairs
typedef std::pair<nostd::string_view, common::AttributeValue> KV;
typedef std::vector<std::pair<std::string, MV>> Items;  // in call order, duplicates possible

inline nostd::span<const KV> kv_block(const Items &items, Backing &bk)
{
  std::vector<KV> tmp;
  tmp.reserve(items.size());
  for (auto &it : items)
  {
    nostd::string_view k = bk.view(it.first);
    tmp.emplace_back(k, materialise(it.second, bk));
  }
  std::string raw(items.size() * sizeof(KV), '\0');
  vf::Buf &b = bk.add(raw.data(), raw.size());
  for (size_t i = 0; i < tmp.size(); ++i)
    new (b.p + i * sizeof(KV)) KV(tmp[i]);
  return nostd::span<const KV>(reinterpret_cast<const KV *>(b.data()), items.size());
}

// a KeyValueIterable written by the application (not the API's view class)
class HeapKV final : public common::KeyValueIterable
{
public:
  explicit HeapKV(nostd::span<const KV> s) : s_(s) {}
  bool ForEachKeyValue(nostd::function_ref<bool(nostd::string_view, common::AttributeValue)> cb) const noexcept override
  {
    for (size_t i = 0; i < s_.size(); ++i)
      if (!cb(s_[i].first, s_[i].second))
        return false;
    return true;
  }
  size_t size() const noexcept override { return s_.size(); }

private:
  nostd::span<const KV> s_;
};

// ---------------------------------------------------------------------------------------------
// generators
// ---------------------------------------------------------------------------------------------
inline uint64_t gen_int_bits(vf::Rng &r, int alt)
{
  int64_t lo, hi;
  uint64_t umax;
  switch (alt)
  {
    case A_I32:
    case A_SPAN_I32:
      lo   = std::numeric_limits<int32_t>::min();
      hi   = std::numeric_limits<int32_t>::max();
      umax = 0;
      break;
    case A_I64:
    case A_SPAN_I64:
      lo   = std::numeric_limits<int64_t>::min();
      hi   = std::numeric_limits<int64_t>::max();
      umax = 0;
      break;
    case A_U32:
    case A_SPAN_U32:
      lo = hi = 0;
      umax    = std::numeric_limits<uint32_t>::max();
      break;
    case A_SPAN_U8:
      lo = hi = 0;
      umax    = 255;
      break;
    default:
      lo = hi = 0;
      umax    = std::numeric_limits<uint64_t>::max();
  }
  unsigned c = static_cast<unsigned>(r.below(10));
  if (umax)
  {
    switch (c)
    {
      case 0:
        return 0;
      case 1:
        return umax;
      case 2:
        return 1;
      case 3:
        return umax - 1;
      case 4:
        return umax / 2 + 1;
      default:
        return umax == std::numeric_limits<uint64_t>::max() ? r.next() : r.next() % (umax + 1);
    }
  }
  int64_t v;
  switch (c)
  {
    case 0:
      v = 0;
      break;
    case 1:
      v = lo;
      break;
    case 2:
      v = hi;
      break;
    case 3:
      v = -1;
      break;
    case 4:
      v = 1;
      break;
    default:
      v = static_cast<int64_t>(r.next());
      if (hi == std::numeric_limits<int32_t>::max())
        v = static_cast<int32_t>(v);
  }
  return static_cast<uint64_t>(v);
}

inline uint64_t gen_double_bits(vf::Rng &r)
{
  double d;
  switch (r.below(12))
  {
    case 0:
      d = 0.0;
      break;
    case 1:
      d = -0.0;
      break;
    case 2:
      d = std::numeric_limits<double>::denorm_min();
      break;
    case 3:
      d = std::numeric_limits<double>::infinity();
      break;
    case 4:
      d = -std::numeric_limits<double>::infinity();
      break;
    case 5:
      d = std::numeric_limits<double>::max();
      break;
    case 6:
      d = std::numeric_limits<double>::lowest();
      break;
    case 7:
      d = std::numeric_limits<double>::min();
      break;
    case 8:
    case 9:
      d = (r.unit() - 0.5) * 1e6;
      break;
    default: {
      d = bitsd(r.next());
      if (d != d)
        d = 1.5;  // NaN is excluded: equality is the oracle
    }
  }
  return dbits(d);
}

struct StrClassCounts
{
  uint64_t empty = 0, nul = 0, high = 0, longs = 0;
};

inline std::string gen_string(vf::Rng &r, bool allow_nul, StrClassCounts *cc = nullptr)
{
  static const std::string printable = "abcdefghijklmnopqrstuvwxyzABCXYZ0123456789 _-./:=,;%\"\\{}[]";
  std::string s;
  unsigned c = static_cast<unsigned>(r.below(100));
  if (c < 12)
  {
    if (cc)
      ++cc->empty;
    return s;
  }
  if (c < 20)
    s = std::string(1, printable[r.below(printable.size())]);
  else if (c < 34 && allow_nul)
  {
    s = r.bytes(static_cast<size_t>(r.range(0, 5)), printable) + std::string(1, '\0') +
        r.bytes(static_cast<size_t>(r.range(0, 5)), printable);
    if (cc)
      ++cc->nul;
  }
  else if (c < 44)
  {
    s = r.anybytes(static_cast<size_t>(r.range(1, 12)));
    if (cc)
      ++cc->high;
  }
  else if (c < 48)
  {
    s = r.bytes(static_cast<size_t>(r.range(200, 400)), printable);
    if (cc)
      ++cc->longs;
  }
  else
    s = r.bytes(static_cast<size_t>(r.range(2, 24)), printable);
  if (!allow_nul)
  {
    auto z = s.find('\0');
    if (z != std::string::npos)
      s.resize(z);
  }
  return s;
}

inline size_t gen_array_len(vf::Rng &r, bool allow_large)
{
  unsigned c = static_cast<unsigned>(r.below(100));
  if (c < 14)
    return 0;
  if (c < 30)
    return 1;
  if (c < 33 && allow_large)
    return 4096;
  if (c < 85)
    return static_cast<size_t>(r.range(2, 8));
  return static_cast<size_t>(r.range(9, 64));
}

inline MV gen_value(vf::Rng &r, int alt, bool allow_large, StrClassCounts *cc = nullptr)
{
  MV v;
  v.alt = alt < 0 ? static_cast<int>(r.below(A_COUNT)) : alt;
  switch (v.alt)
  {
    case A_BOOL:
      v.bits = r.coin() ? 1 : 0;
      break;
    case A_I32:
    case A_I64:
    case A_U32:
    case A_U64:
      v.bits = gen_int_bits(r, v.alt);
      break;
    case A_F64:
      v.bits = gen_double_bits(r);
      break;
    case A_CSTR:
      v.str = gen_string(r, false, cc);
      break;
    case A_SV:
      v.str = gen_string(r, true, cc);
      break;
    case A_SPAN_SV: {
      size_t n = gen_array_len(r, allow_large);
      v.strs.reserve(n);
      for (size_t i = 0; i < n; ++i)
        v.strs.push_back(n > 64 ? r.bytes(static_cast<size_t>(r.below(6)), std::string("ab\0z", 4))
                                : gen_string(r, true, cc));
      break;
    }
    default: {
      size_t n = gen_array_len(r, allow_large);
      v.nums.reserve(n);
      for (size_t i = 0; i < n; ++i)
      {
        if (v.alt == A_SPAN_BOOL)
          v.nums.push_back(r.coin() ? 1 : 0);
        else if (v.alt == A_SPAN_F64)
          v.nums.push_back(gen_double_bits(r));
        else
          v.nums.push_back(gen_int_bits(r, v.alt));
      }
    }
  }
  return v;
}

}  // namespace c04
