#!/bin/bash
# Soak: every registered quick check at several seeds; prints one line per (check, seed).
# usage: vf/soak.sh "2 3 7 42" [tier]
cd "$(dirname "$0")/.."
seeds=${1:-"2 3 7 42"}
tier=${2:-quick}
./check --setup >/dev/null 2>&1
for s in $seeds; do
  for p in $(grep -v '^#' vf/claimed.txt); do
    start=$(date +%s)
    out=$(VERIF_SEED=$s ./check $p --tier $tier 2>&1)
    rc=$?
    echo "seed=$s $p rc=$rc $(($(date +%s)-start))s $(echo "$out" | grep -E 'VIOLATION|HARNESS-FAILURE|INCONCLUSIVE' | cut -c1-300 | tr '\n' ' ')"
  done
done
