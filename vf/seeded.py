#!/usr/bin/env python3
"""Confirm and evaluate seeded changes delivered by independent sub-agents.

usage: seeded.py <worktree> <seed-dir> [<seed-dir> ...]
  <worktree>  a scratch git worktree of /repo at HEAD with a configured CMake build in <worktree>/_build
  <seed-dir>  /tmp/seed-CNN/out/k containing patch.diff, demo.cc / build.sh, meta.json

For every candidate: (1) the patch applies to clean HEAD and the repository builds, (2) the repository's own
suite still passes (vf/baseline.py against the worktree's build), (3) the demonstration passes on the unchanged
tree and fails with the change, (4) the property's check (quick tier, VERIF_REPO=<worktree>) is run against the
changed tree.  Confirmed candidates are kept as /verif/seeded/<id>/ with what was run; nothing is ever applied
to /repo."""
import json
import os
import re
import shutil
import subprocess
import sys
import time

VERIF = os.path.dirname(os.path.dirname(os.path.abspath(__file__)))


def sh(cmd, timeout=3600, env=None):
    e = dict(os.environ)
    e.update(env or {})
    try:
        r = subprocess.run(cmd, shell=True, stdout=subprocess.PIPE, stderr=subprocess.STDOUT, text=True, errors="replace",
                           timeout=timeout, env=e)
        return r.returncode, r.stdout
    except subprocess.TimeoutExpired as ex:
        return 124, (ex.stdout or "") if isinstance(ex.stdout, str) else "timeout"


def run_demo(wt, sd, tag):
    """Build and run the demonstration against the worktree's current state.  Returns (rc, tail)."""
    bs = os.path.join(sd, "build.sh")
    if os.path.exists(bs):
        rc, out = sh("cd %s && bash %s %s" % (wt, bs, wt), timeout=1800)
    else:
        demo = os.path.join(sd, "demo.cc")
        libs = "$(find _build/sdk -name 'libopentelemetry_*.a' | tr '\\n' ' ')"
        exe = "/tmp/seeded_demo_%s_%s" % (os.path.basename(wt.rstrip("/")), tag)
        rc, out = sh("cd %s && g++ -std=gnu++17 -O1 -g -DOPENTELEMETRY_ABI_VERSION_NO=1 -I api/include -I sdk/include -I sdk "
                     "%s -o %s %s %s -lpthread && %s" % (wt, demo, exe, libs, libs, exe),
                     timeout=1800)
    return rc, out[-1500:]


def main():
    wt = sys.argv[1]
    results = []
    for sd in sys.argv[2:]:
        sd = sd.rstrip("/")
        t0 = time.time()
        meta = {}
        try:
            meta = json.load(open(os.path.join(sd, "meta.json")))
        except (OSError, ValueError):
            pass
        m = re.search(r"seed([2-9]?)-(C\d+)/out/(\w+)$", sd)
        prop = meta.get("property") or (m.group(2) if m else "C00")
        sid = "%s-%s%s" % (m.group(2) if m else prop, ("w%s-" % m.group(1)) if (m and m.group(1)) else "",
                           m.group(3) if m else os.path.basename(sd))
        rec = {"id": sid, "property": prop, "dir": sd}
        sh("git -C %s checkout -q -- . && git -C %s clean -fdq -e _build" % (wt, wt))
        # (3a) demonstration on the unchanged tree
        rc, out = sh("ninja -C %s/_build" % wt)
        if rc != 0:
            rec["status"] = "unchanged tree does not build?!"
            results.append(rec)
            continue
        rc_u, out_u = run_demo(wt, sd, "u")
        rec["demo_unchanged_rc"] = rc_u
        # (1) apply + build
        rc, out = sh("git -C %s apply %s/patch.diff" % (wt, sd))
        if rc != 0:
            rec["status"] = "patch does not apply: " + out[-300:]
            results.append(rec)
            continue
        rc, out = sh("ninja -C %s/_build" % wt)
        if rc != 0:
            rec["status"] = "does not build with the change: " + out[-500:]
            results.append(rec)
            sh("git -C %s checkout -q -- ." % wt)
            continue
        # (2) the repository's own suite
        rc_b, out_b = sh("python3 %s/vf/baseline.py" % VERIF, env={"VERIF_BASELINE_BUILD": wt + "/_build"})
        rec["suite"] = out_b.strip().splitlines()[0] if out_b.strip() else "?"
        rec["suite_rc"] = rc_b
        if rc_b != 0:
            # timing-sensitive tests can fail on a loaded machine: one retry
            rc_b, out_b = sh("python3 %s/vf/baseline.py" % VERIF, env={"VERIF_BASELINE_BUILD": wt + "/_build"})
            rec["suite_retry"] = out_b.strip().splitlines()[:6]
            rec["suite_rc"] = rc_b
        # (3b) demonstration with the change
        rc_c, out_c = run_demo(wt, sd, "c")
        rec["demo_changed_rc"] = rc_c
        rec["demo_changed_tail"] = out_c[-400:]
        # (4) our check
        rc_k, out_k = sh("cd %s && ./check %s --tier quick" % (VERIF, prop), env={"VERIF_REPO": wt}, timeout=5400)
        keys = re.findall(r"VIOLATION property=\S+ replay=\S+ key=(\S+)", out_k)
        rec["check_rc"] = rc_k
        rec["check_keys"] = keys[:12]
        rec["check_other"] = [l[:200] for l in out_k.splitlines() if "HARNESS-FAILURE" in l or "INCONCLUSIVE" in l][:3]
        confirmed = rc_b == 0 and rc_u == 0 and rc_c != 0
        rec["confirmed"] = confirmed
        rec["caught"] = rc_k == 1
        rec["wall_s"] = round(time.time() - t0)
        sh("git -C %s checkout -q -- . && git -C %s clean -fdq -e _build" % (wt, wt))
        if confirmed:
            dst = os.path.join(VERIF, "seeded", sid)
            shutil.rmtree(dst, ignore_errors=True)
            os.makedirs(dst)
            for fn in os.listdir(sd):
                p = os.path.join(sd, fn)
                if os.path.isfile(p) and os.path.getsize(p) < 400000 and not fn.startswith("demo_bin"):
                    shutil.copy(p, dst)
            meta["verification"] = {
                "confirmed_by_lead": True,
                "what_was_run": [
                    "git apply patch.diff in a scratch worktree of /repo HEAD; ninja (full build)",
                    "python3 vf/baseline.py against that build: " + rec["suite"],
                    "demonstration on the unchanged tree: exit %s; with the change: exit %s" % (rc_u, rc_c),
                    "VERIF_REPO=<worktree> ./check %s --tier quick: exit %s" % (prop, rc_k),
                ],
                "check_exit": rc_k,
                "check_keys": keys[:12],
                "caught": rc_k == 1,
            }
            with open(os.path.join(dst, "meta.json"), "w") as f:
                json.dump(meta, f, indent=1)
        results.append(rec)
        print(json.dumps(rec), flush=True)
    return 0


if __name__ == "__main__":
    sys.exit(main())
