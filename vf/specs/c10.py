from specs.common import run, memcheck, ASSUME_COMMON

# The harness is built three times from the same source:
#  e1-model    asan, every sanitizer report fatal: the main sequential oracle
#  e1-nullkey  asan with ONLY UBSan's nonnull-attribute check in recover mode (separate executable, own
#              small case budget): the inputs that make context.h hand a null pointer to memcmp/memcpy
#              with length 0 (SetValues/Context of an empty collection, the empty key as a
#              default-constructed string_view).  Kept apart so that these reports can neither abort nor
#              mask the main run; the oracle keeps judging the answers after a report.
#  e2-threads  tsan + perturbation shim: 2..8 threads running independent programs concurrently
SPEC = {
    "runs": [
        run("e1-model", "c10_context", "asan", 3000, 200000, need_lib=False, params={"mode": "seq"}),
        memcheck("c10_context", 300, 15000, need_lib=False, params={"mode": "seq"}),
        run("e1-nullkey", "c10_context_nullkey", "asan", 400, 20000, sq=2, st=8, need_lib=False,
            sources=["harness/c10_context.cc"], params={"mode": "nullkey"},
            cxxflags=["-fsanitize-recover=nonnull-attribute"],
            env={"UBSAN_OPTIONS": "print_stacktrace=1:halt_on_error=0:exitcode=67"}),
        # header-only target: the shim runtime is compiled into the harness instead of linking the SDK library
        run("e2-threads", "c10_context", "tsan", 200, 20000, need_lib=False, params={"mode": "mt"},
            sources=["harness/c10_context.cc", "vf/shim/vf_runtime.cc"]),
    ],
    "floors": {
        "quick": {"detach_out_of_order": 500, "programs_deeper_than_32": 200, "programs_double_attach": 200,
                  "detach_foreign": 100, "attaches_growing_the_stack": 1000, "setvalue_shadowing": 1000,
                  "empty_collections": 100, "scope_destroys_not_on_top": 200, "mt_cases_ge4_threads": 30},
        "thorough": {"detach_out_of_order": 50000, "programs_deeper_than_32": 20000, "programs_double_attach": 20000,
                     "detach_foreign": 10000, "attaches_growing_the_stack": 100000, "setvalue_shadowing": 100000,
                     "empty_collections": 5000, "scope_destroys_not_on_top": 20000, "mt_cases_ge4_threads": 3000},
    },
    "engine": "E1 model-oracle",
    "engines_used": ["E1 model-oracle", "E2 history"],
    "technique": ("reference-model oracle in lock-step with the real Context/RuntimeContext/Scope API under ASan+UBSan; "
                  "the same programs on 2..8 concurrent threads under TSan with seeded yields/sleeps between operations"),
    "level_text": ("exploration: thousands of seeded programs over a growing family of contexts and the calling thread's "
                   "runtime stack, each operation mirrored in a small model (flat key->value-id map per context, "
                   "vector of context identities for the stack with the documented Detach semantics) and compared "
                   "after every step; every context ever created is re-queried every 16 steps and at the end. Right "
                   "level because the property quantifies over operation sequences of a sequential header-only API "
                   "(plus thread isolation, which is observed on real threads)."),
    "level_note": ("trusts the model in harness/c10_context.cc, gcc ASan/UBSan/TSan; covers only generated programs "
                   "(<= ~300 operations, <= 9 binding keys and <= 18 query keys per program, stack depth <= 200, "
                   "<= 8 threads); thread isolation is observed on the OS schedules that occurred, perturbed by "
                   "seeded yields/sleeps, not on all interleavings"),
    "rule": ("case i = one seeded program of 0..~300 operations over {SetValue (member, RuntimeContext::SetValue with "
             "explicit and with the current context), SetValues/Context(collection of 1..5 distinct keys; 0..5 in the "
             "nullkey run), Context(key,value), GetValue/HasKey re-query of a random old context, Attach(random "
             "context incl. the empty one and ones already attached), Detach(random live or stale token), drop "
             "token, Scope(span) create, Scope destroy in arbitrary order}; 30% of the programs first climb to a "
             "depth of 33..200 (or just past 30/62/126) and 80% run on a brand-new thread so the thread_local stack "
             "grows from capacity 0 through every Resize. Keys come from a per-program pool incl. the empty key, "
             "prefixes of one another, embedded and trailing NUL, the span key and near misses of it, random bytes, "
             "60..200-byte keys, always passed as exact-size unterminated heap views that are scribbled or freed "
             "right after the call. After every stack operation GetCurrent() (identity and answers) and "
             "Tracer::GetCurrentSpan() are compared with the model's top. e2-threads: case = 2..8 threads started "
             "together, each running such a program (<=160 ops) against its own model over shared immutable base "
             "contexts. A case is non-trivial if it created a context or attached one; distinct = distinct hash of "
             "the operation/argument sequence."),
    "assumptions": ASSUME_COMMON + [
        "context identity (what Detach matches on) is identity of the node list: copies of a Context are the same context, every SetValue/SetValues result is a new one, all empty contexts are one and the same; whether SetValues/Context of an EMPTY collection yields a new context or the same one as its source is not judged (such contexts are never attached themselves, counted as attach_skipped_identity_dontcare)",
        "HasKey of a key explicitly bound to monostate is not judged (counted as haskey_monostate_binding_dontcare); GetValue of it is (monostate shadows the older binding)",
        "two equal keys inside ONE SetValues collection are never generated (which one wins is outside the statement)",
        "the return value of Detach for a token of the empty context on an empty stack is taken as true (the empty context is the top of the empty stack), as documented in DESIGN.md",
        "UBSan nonnull-attribute reports are recoverable in the e1-nullkey run only; they are still reported as violation keys C10/ubsan:.../<frame>",
    ],
}
