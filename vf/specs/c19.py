from specs.common import run, memcheck, ASSUME_COMMON

H = "c19_names_views_scopes"

# run "scopes": every public way to hand a scope configurator to a provider (one per case and signal, seed-derived)
PROC_PATHS = ["processor-constructor", "vector-constructor", "context-constructor", "contextfactory-constructor",
              "processor-factory", "vector-factory", "context-factory", "contextfactory-factory"]
METER_PATHS = ["views-constructor", "views-factory", "context-constructor", "contextfactory-constructor",
               "context-factory", "contextfactory-factory"]


def path_floors(cases_pl, disabled_pl, enabled_pl, cases_m, disabled_m, enabled_m):
    f = {}
    for sig, paths, c, d, e in (("traces", PROC_PATHS, cases_pl, disabled_pl, enabled_pl),
                                ("logs", PROC_PATHS, cases_pl, disabled_pl, enabled_pl),
                                ("metrics", METER_PATHS, cases_m, disabled_m, enabled_m)):
        for p in paths:
            f["scope_cases_%s:%s" % (sig, p)] = c
            f["scopes_disabled_%s:%s" % (sig, p)] = d
            f["scopes_enabled_%s:%s" % (sig, p)] = e
    return f


SPEC = {
    "runs": [
        # cases 0..2815 of "names" are the completely enumerated sub-space, the rest is seeded
        run("names", H, "asan", 2816 + 20000, 2816 + 1000000, params={"engine": "names"}),
        run("views", H, "asan", 8000, 400000, params={"engine": "views"}),
        run("scopes", H, "asan", 8000, 400000, params={"engine": "scopes"}),
        memcheck(H, 3400, 100000, name="memcheck-names", params={"engine": "names"}),
        memcheck(H, 300, 15000, name="memcheck-views", params={"engine": "views"}),
        memcheck(H, 300, 15000, name="memcheck-scopes", params={"engine": "scopes"}),
        # real-thread clause of "same identity -> same object": concurrent first requests (TSan + shim)
        run("identity-threads", "c19_identity_threads", "tsan", 400, 20000, sq=4, st=16,
            timeout={"quick": 1500, "thorough": 7200}),
        # ABI v2: GetTracer/GetMeter take scope attributes, so they become part of the identity and of the rules
        run("scopes-abi2", H, "asan-abi2", 0, 100000, params={"engine": "scopes"}, tiers=("thorough",)),
    ],
    # sized from seeds {1,2,3,7,42,1000,65537,2^31-1} on the unchanged+fixes tree: every floor is met >= 3.9x
    "floors": {
        "quick": {
            "concurrent_get_cases_traces": 60, "concurrent_get_cases_metrics": 60, "concurrent_get_cases_logs": 60,
            "concurrent_get_cases_ge4_threads": 100, "concurrent_get_requests": 3000,
            # names / units
            "names_enumerated": 2700, "names_random": 6000, "name_valid_cases": 2000, "name_invalid_cases": 2000,
            "name_boundary_length_cases": 400, "name_embedded_nul_cases": 200, "unit_invalid_cases": 400,
            "unit_boundary_length_cases": 300, "streams_of_valid_instruments": 1600,
            # views
            "view_pairs_matching": 1600, "view_pairs_matching_by_pattern": 600, "view_pairs_failing_only_type": 1600,
            "view_pairs_failing_only_name": 800, "view_pairs_failing_only_unit": 240,
            "view_pairs_failing_only_meter-name": 260, "view_pairs_failing_only_meter-version": 180,
            "view_pairs_failing_only_meter-schema": 180, "instruments_with_two_matching_views": 160,
            "view_streams_with_filter": 700, "view_streams_with_histogram_config": 120,
            "view_streams_non_default_aggregation": 800, "view_streams_renamed": 800,
            "default_view_counter": 800, "default_view_updowncounter": 800, "default_view_histogram": 800,
            "default_view_observable-counter": 800, "default_view_observable-updowncounter": 800,
            "default_view_observable-gauge": 800, "collections_delta": 2000, "collections_cumulative": 2000,
            # scopes
            "rule_lists_where_order_decides": 500, "scopes_disabled_traces": 3000, "scopes_disabled_metrics": 3000,
            "scopes_disabled_logs": 3000, "scopes_enabled_traces": 4000, "scopes_enabled_metrics": 4000,
            "scopes_enabled_logs": 4000, "identity_repeat_requests_traces": 3000,
            "identity_repeat_requests_metrics": 3000, "identity_repeat_requests_logs": 1200,
            # per construction path of the provider (8 traces + 8 logs + 6 metrics paths).  Smallest value of any path
            # at seeds {1,2,3,7,42}: cases 920 (traces/logs) 1273 (metrics), disabled 1712 / 2311, enabled 2431 / 3268,
            # two-processor cases 2942 -> every floor is met >= 3.2x
            "scope_cases_traces_two_processors": 900, "scope_cases_logs_two_processors": 900,
            **path_floors(270, 450, 700, 380, 700, 1000),
        },
        "thorough": {
            "names_enumerated": 2700, "names_random": 300000, "name_boundary_length_cases": 30000,
            "view_pairs_matching": 25000, "view_pairs_failing_only_type": 25000,
            "view_pairs_failing_only_meter-version": 3000, "instruments_with_two_matching_views": 2500,
            "rule_lists_where_order_decides": 8000, "identity_repeat_requests_logs": 20000,
            **path_floors(13000, 22000, 35000, 19000, 35000, 50000),
        },
    },
    "coverage_extra": {
        "exhaustive_subspaces": {
            "single-byte names": "all 256 one-byte instrument names (cases 0..255 of run 'names')",
            "single-byte mutants": "all 2560 position x byte mutants of the 10-byte valid name 'aB3_.-/xZ9' "
                                   "(cases 256..2815 of run 'names')",
            "size": 2816,
            "note": "counter names_enumerated is the number of these cases actually evaluated in this run; the top-level "
                    "exhaustive flag stays false",
        },
    },
    "engine": "E1 model-oracle",
    "technique": ("reference-model oracle over the real MeterProvider/TracerProvider/LoggerProvider under ASan+UBSan: a "
                  "character-class recogniser for instrument names/units, a model of view selector matching and stream "
                  "shaping, a first-match-wins model of scope-configurator rule lists, pointer identity of Get*; "
                  "observed at harness pull readers and exporters"),
    "level_text": ("exploration (the 2816 single-byte names/mutants are enumerated completely every run): the real SDK is "
                   "driven with generated names, view sets and rule lists and every stream / span / log record that reaches "
                   "a harness reader or exporter is compared with a small independent model. Right level because the "
                   "property quantifies over inputs and configurations of sequential APIs whose expected result a model "
                   "decides per case; all strings are exact-size non-terminated heap views killed after the call, so a "
                   "C-string read or a missing copy is an ASan report or a value mismatch."),
    "level_note": ("trusts the recogniser/selector/rule models in harness/c19_names_views_scopes.cc, std::regex of libstdc++ "
                   "for the pattern semantics of name selectors (the model evaluates the same pattern on a terminated copy), "
                   "gcc ASan/UBSan. Not reached: scope attributes of tracers and meters in the quick tier (ABI v2 only; run scopes-abi2 of "
                   "the thorough tier covers them), synchronous Gauge (ABI v2), name selectors differing from instrument names only in case, invalid regex "
                   "patterns, two streams of one meter with the same name, histogram aggregation on observables."),
    "rule": ("run names: case i<256 = the one-byte name chr(i); 256<=i<2816 = the 10-byte name 'aB3_.-/xZ9' with byte "
             "(i-256)/256 replaced by (i-256)%256; i>=2816 = seeded name (valid 1..255, lengths 254/255/256/257/300, empty, "
             "bad first char, one corrupted byte, embedded NUL, bytes >= 0x80, random bytes 0..300) and/or unit (ASCII 0..62, "
             "63, 64, 65..300, byte >= 0x80, embedded NUL = don't-care, random bytes); instrument kind rotates over the six "
             "kinds x int/double; two Add/Record/Observe + Collect rounds at a delta or cumulative pull reader; created <=> "
             "a stream appears, and then it carries exactly the name/unit/description bytes handed over. run views: case = "
             "1..3 meters, 1..6 instruments, 0..5 views (type, name exact/'*'/regex, unit, meter name/version/schema "
             "selectors; name, description, unit, aggregation + histogram config, attribute allow-list settings), 1..2 "
             "readers, two record+collect rounds; every collected stream is paired with the model's (meter, stream name) "
             "and compared field by field and point by point. run scopes: case = rule list of 0..6 conditions (name-equals, "
             "version/schema/prefix/length/attribute/always/never predicates; default on/off) against 1..8 scope requests "
             "each for a TracerProvider, MeterProvider and LoggerProvider, each assembled through one seed-derived way out of "
             "all public ways to pass a configurator (constructor overloads taking one processor / a vector of 1..2 "
             "processors / a context built by its constructor or by the *ContextFactory; the *ProviderFactory::Create "
             "counterparts; for meters (views, resource, configurator) or a MeterContext): 8 + 6 + 8 paths, the path is "
             "part of the input class; exported spans/streams/log records (at every processor) and pointer "
             "identity are compared with the first-match-wins model. Non-trivial = every case (each creates instruments or "
             "scopes and collects); distinct = hash of name+unit+kind / of the printed configuration."),
    "rule_extra": " Round 2: one configurator builder in three is used again after Build() (a catch-all rule opposite to the default, second Build) - the first configurator must not notice; five view name patterns whose only construct is '.' and an instrument differing from one at the dot.",
    "assumptions": ASSUME_COMMON + [
        "a NUL inside a unit, and a selector that asks for a meter version/schema while the meter has none, are don't-care: both readings are accepted (counted as unit_dontcare_nul / view_cases_with_dontcare_match)",
        "values are only compared where the statement fixes them: sums and explicit-bucket histograms of synchronous instruments, default aggregations of observables; last-value points must be one of the recorded values (C17 owns 'latest'); drop aggregation may yield no stream or a stream without data",
        "attribute keys in the views run are NUL-terminated strings (the allow-list lookup by key.data() belongs to C08)",
        "each process first probes in a forked child whether ValidateName/ValidateUnit survive an exact non-terminated view; if the child dies its ASan report is keyed by the driver and the parent hands names over as 'view + verdict-flipping tail + NUL' so that all other assertions are still evaluated (counters names_exact_views / names_tail_views say which form ran)",
    ],
}
