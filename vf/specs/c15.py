from specs.common import run, memcheck, ASSUME_COMMON

# Floors are at most one third of the minimum seen over VERIF_SEED in {1,2,3,7,42,1000,65537,2^31-1} on the
# unchanged tree.  composite_subsets_enumerated is not statistical: cases 0..102 walk the 206 ordered subsets
# exactly once (two per case), so 206 is the exact count of a complete enumeration.
_Q = {"concurrent_cases_ge4_threads": 15, 
    "set_present_key": 5000, "delete_present_key": 2500,
    "roundtrip_judged": 8000, "roundtrip_with_metadata": 4000, "roundtrip_with_escapes": 6000,
    "roundtrip_ge8_members": 300, "roundtrip_179_or_180_members": 15, "reference_encoding_extracted": 6000,
    "roundtrip_excluded_meta-comma": 300, "roundtrip_excluded_meta-trailing-ows": 100,
    "headers_judged_exactly": 12000, "headers_truncated_inside_escape": 6000, "headers_random_bytes": 500,
    "headers_members_179": 100, "headers_members_180": 100, "headers_members_181": 100,
    "headers_member_4095": 100, "headers_member_4096": 100, "headers_member_4097": 100, "headers_member_4098": 100,
    "headers_size_8191": 100, "headers_size_8192": 100, "headers_size_8193": 100,
    "nothing_valid_context_untouched": 4000,
    "composite_subsets_enumerated": 206, "composite_cases": 3000, "composite_extract_threading_matters": 1500,
}
_T = {k: (v if k == "composite_subsets_enumerated" else v * 60) for k, v in _Q.items()}

SPEC = {
    "runs": [run("e1-model", "c15_baggage", "asan", 5000, 400000, need_lib=False),
             # the shared propagator objects used by 2..8 threads at once (TSan + perturbation shim)
             run("e2-threads", "prop_threads", "tsan", 60, 3000, sq=2, st=8, need_lib=False, params={"prop": "C15"},
                 sources=["harness/prop_threads.cc", "vf/shim/vf_runtime.cc"]),
             memcheck("c15_baggage", 400, 20000, need_lib=False)],
    "floors": {"quick": _Q, "thorough": _T},
    "engine": "E1 model-oracle",
    "technique": ("reference-model oracle in lock-step with the real Baggage / BaggagePropagator / CompositePropagator under "
                  "ASan+UBSan: list model for Set/Delete/GetValue, independent percent codec and three-valued reference "
                  "header parser for Inject/Extract, hand-folded part propagators for every ordered composite"),
    "level_text": ("exploration: thousands of seeded Set/Delete/GetValue/round-trip programs and generated or arbitrary-byte "
                   "headers run against the real header-only implementation; every step compared with a list model and an "
                   "independent reference codec/parser; the 206 ordered subsets (size <= 4) of the five built-in propagators "
                   "are enumerated completely and compared with applying the parts by hand. Exact-size caller and carrier "
                   "buffers are scribbled or freed after each call so over-reads and missing copies become ASan reports. "
                   "Right level because the property quantifies over inputs/histories of a pure sequential API and a small "
                   "model decides every step."),
    "level_note": ("trusts the list model, the reference codec/parser and the three-valued member classification in "
                   "harness/c15_baggage.cc and gcc ASan/UBSan; covers only generated programs and headers; the composite "
                   "sub-space (ordered subsets of size <= 4 of 5 propagators) is exhaustive, the carriers fed to it are sampled. "
                   "Mutation self-test (scratch worktree): encoder leaving '=' raw, decoder reading '+' literally, '%' bounds "
                   "check off by one in both directions, member limit 179/181, header limit 8191/8193, member size limit "
                   "+-1, metadata re-encoded / dropped, key not trimmed, Set keeping the old key, Delete by prefix, "
                   "Extract always replacing the baggage, composite extracting from the original context / skipping a part "
                   "on extract / on inject — all caught."),
    "rule": ("case i = (a) one seeded program of 1..60 (some grown to 8..30 or 178..182 members or to 4096/8192-byte headers) "
             "Set/Delete/GetValue/round-trip operations over a printable alphabet weighted towards ' =,%+;' and '-_.~', "
             "applied in lock-step to the real Baggage and a list model; every round trip checks the injected header with "
             "an independent parser, Extract(Inject(b)) == b in order with ;metadata verbatim, and extraction of the "
             "reference encoder's spellings; (b) 4 header cases: arbitrary bytes, every truncation of an escape-rich "
             "header, 179/180/181+ members, members of 4095/4096/4097/4098 bytes, headers of 8191/8192/8193 bytes, mixed "
             "lists of valid / broken-escape / non-printable / unescaped / OWS members, judged member by member by a "
             "three-valued reference parser, with and without a baggage already in the context; (c) 2 of the 206 ordered "
             "subsets of {W3C, B3, B3 multi, Jaeger, Baggage} in a CompositePropagator (half through "
             "GlobalTextMapPropagator), Inject and Extract compared with folding the parts by hand. All strings are "
             "exact-size unterminated heap views scribbled or freed after the call; carriers return exact-size views. A "
             "case is non-trivial if it executed a Set/Delete/round trip or parsed a header; distinct = distinct hash of "
             "the operation/argument sequence or of the header bytes."),
    "coverage_extra": {"exhaustive_subspaces": {"composite ordered subsets of size <= 4 of the 5 built-in propagators": 206}},
    "rule_extra": ' Run e2-threads: case j = 2..8 threads doing 20..200 round trips each through ONE shared BaggagePropagator and ONE shared CompositePropagator (W3C + baggage), 1..6 entries with characters that need escaping, under TSan with seeded yields/sleeps; each thread must read back its own entries and ids. Round 2: Set and Delete are also judged on every extracted baggage (which may bind a key twice); every 8th case injects a Set-built baggage whose header is exactly 8190-8192 bytes and must get it back.',
    "assumptions": ASSUME_COMMON + [
        "domain restriction of the statement applied literally: a value with ',' after its first ';' or with metadata ending in a blank is counted and not judged for the round trip; baggages whose header exceeds 180 members / 4096-byte member / 8192 bytes likewise",
        "Set/Delete with non-printable or empty keys/values are outside the statement: only 'no invalid member is stored' and 'receiver unchanged' are judged",
        "the position at which Set places the new member is not stated: the model follows the result and demands one occurrence, the new value and the unchanged order of the others",
        "three-valued extraction oracle; don't-care members: printable characters outside the codec alphabet left unescaped (incl. inner blanks), '+' read as blank or literally, control white space (CR LF VT FF) trimmed at member/key/value edges, a member of exactly 4097 bytes (4096 without '='), duplicate keys in one header, more than 180 valid members (any <=180 in-order subset accepted), merge-or-replace when the context already carries a baggage",
        "the part propagators (C09/C16) are taken as given; the composite is compared with the same parts applied by hand"],
}
