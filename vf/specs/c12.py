import build
from specs.common import run, memcheck, ASSUME_COMMON

# trace_id_ratio.cc is additionally compiled into the harness with UBSan's float-cast-overflow check
# (not part of -fsanitize=undefined in gcc); the harness object is linked before libotel.a, so the
# sampler that runs is this instrumented copy of the current tree's source.
SPEC = {
    "runs": [run("e1-statement", "c12_sampling", "asan", 2500, 150000, need_lib=True,
                 sources=["harness/c12_sampling.cc", build.REPO + "/sdk/src/trace/samplers/trace_id_ratio.cc"],
                 cxxflags=["-fsanitize=float-cast-overflow"]),
             memcheck("c12_sampling_plain", 200, 10000,
                      sources=["harness/c12_sampling.cc", build.REPO + "/sdk/src/trace/samplers/trace_id_ratio.cc"]),
             # one sampler object shared by 2..8 threads (TSan + shim), judged against thread-private twins
             run("shared-sampler-threads", "c12_threads", "tsan", 300, 20000, sq=4, st=16, fallback_flavour="tsan-plain")],
    "floors": {
        "quick": {"pairs_within_4ulp": 1000, "ids_near_threshold": 10000, "id_splits_a_ratio_pair": 10000,
                  "id_splits_a_pair_within_4ulp": 100, "checks_ratio_le0": 10000, "checks_ratio_ge1": 10000,
                  "parent_valid_sampled": 3000, "parent_valid_unsampled": 3000, "parent_valid_remote": 3000,
                  "parent_valid_local": 3000, "parent_invalid": 3000, "parent_flag_byte_sweeps": 30,
                  "tracer_root_sampled": 1000, "tracer_root_dropped": 1000, "tracer_child_spans": 300,
                  "tracer_root_ids_as_supplied": 3000, "tracer_delegate_root_record-only": 300,
                  "tracer_delegate_child_spans": 1000, "tracer_nonparentbased_children_of_unsampled": 500,
                  "shared_sampler_decisions": 100000, "shared_sampler_cases_ge4_threads": 50},
        "thorough": {"pairs_within_4ulp": 60000, "ids_near_threshold": 400000, "id_splits_a_ratio_pair": 400000,
                     "id_splits_a_pair_within_4ulp": 4000, "checks_ratio_le0": 400000, "checks_ratio_ge1": 400000,
                     "parent_valid_sampled": 100000, "parent_valid_unsampled": 100000, "parent_invalid": 100000,
                     "parent_flag_byte_sweeps": 1000, "tracer_root_sampled": 40000, "tracer_root_dropped": 40000},
    },
    "engine": "E1 model-oracle + E2 real threads",
    "technique": ("the statement itself evaluated over sets of ratios and generated trace ids against the real samplers "
                  "under ASan+UBSan (float-cast-overflow on), recording delegate sampler, real Tracer with a scripted "
                  "id generator; plus one sampler object shared by 2-8 real threads under ThreadSanitizer with the perturbation "
                  "shim, every decision compared with a thread-private twin"),
    "level_text": ("exploration: for thousands of ratio sets (special values and 1..4-ulp neighbours) every sampler is "
                   "asked about the same ids - random, extreme, and ids straddling each sampler's own threshold found "
                   "by bisection through the public ShouldSample - and the decisions are compared with the statement "
                   "(nothing at <=0, everything at >=1, non-decreasing in the ratio, equal for equal ratios, independent "
                   "of every other argument); ParentBased is driven over all parent classes with a call-counting "
                   "delegate. Right level because the property quantifies over inputs of pure functions and the "
                   "statement is directly executable as the oracle."),
    "level_note": ("no reference implementation of the threshold is trusted: only relations between real decisions are "
                   "judged; covers generated ratios/ids only; adversarial ids assume the threshold lies in the first 8 "
                   "id bytes read as a native-endian integer (used for input generation only, never for the verdict)"),
    "rule": ("case i = 4 ratios (drawn from: +-0, negatives, -inf, subnormals, k*2^-64, 2^-53+-ulp, 2^-e*u, 0.5+-ulp, "
             "m/(2^32-1)+-ulp, 1-k ulp, 1-2^-e, 1, 1+k ulp, >1, +inf, uniform; with probability 7/10 resp. 1/2 the next "
             "ratio is a 1..4-ulp neighbour of the previous one; NaN is drawn and excluded, counted) x 200 ids (500 "
             "thorough): 22 extreme heads, 21 ids within 256 of each bisected threshold, random ids; all 6 ratio pairs "
             "judged on every id; every 8th id and every near-threshold id is re-asked with exactly one of parent / "
             "name / kind / attributes / links varied; then 24 ParentBased trials (every 8th case: all 256 flag bytes) "
             "with scripted or real delegates and AlwaysOn/Off on the same arguments; then root spans (and children "
             "of remote parents) started through a real Tracer whose id generator supplies the chosen trace id. "
             "Names are exact-size unterminated heap views. Every case is non-trivial; distinct = hash of the ratio "
             "bit patterns and parent classes."),
    "rule_extra": ' Round 2: plus 300 (thorough 20000) shared-sampler cases: one ratio / parent-based(ratio) / constant sampler object asked by 2-8 real threads (200-2000 decisions each, own and fresh trace ids, valid and invalid parents) under TSan + shim; every decision must equal that of a thread-private twin.',
    "assumptions": ASSUME_COMMON + [
        "NaN ratios are excluded (the statement gives no meaning to them); they are generated, counted (nan_ratios_excluded) and skipped",
        "'sampled' means Decision::RECORD_AND_SAMPLE; RECORD_ONLY counts as not sampled",
        "for a valid parent the result must carry a non-null trace state whose header equals the parent's",
        "for a span without a valid parent the result must be the root sampler's: the decision the delegate returned in that one call, and the decision an independent twin of a real delegate (ratio / always-on / always-off) gives for the same trace id; pass-through of the delegate's trace state and attributes is not judged",
    ],
}
