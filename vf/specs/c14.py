from specs.common import run, memcheck, ASSUME_COMMON

SPEC = {
    "runs": [run("e1-model", "c14_tracestate", "asan", 5000, 500000, need_lib=False),
             memcheck("c14_tracestate", 500, 25000, need_lib=False)],
    "floors": {
        "quick": {"set_present_key": 1000, "ops_at_size_32": 300, "roundtrip_ge10_members": 300,
                  "headers_valid": 1000, "headers_invalid": 500, "headers_over_32": 200, "delete_present_key": 500},
        "thorough": {"set_present_key": 100000, "ops_at_size_32": 30000, "roundtrip_ge10_members": 30000,
                     "headers_valid": 100000, "headers_invalid": 50000, "headers_over_32": 20000},
    },
    "engine": "E1 model-oracle",
    "technique": "reference-model oracle in lock-step with the real TraceState under ASan+UBSan, generated operation sequences and headers",
    "level_text": ("exploration: thousands of seeded Set/Delete/Get/header programs run against the real header-only "
                   "implementation with a list model compared after every step; exact-size caller buffers killed after each "
                   "call so ownership slips become ASan reports. Right level because the property quantifies over "
                   "histories/inputs of a pure sequential API and a small model decides each step."),
    "level_note": ("trusts the reference list model and the three-valued W3C validity predicate in harness/c14_tracestate.cc, "
                   "gcc ASan/UBSan; covers only generated programs (pool of <=40 keys, boundary lengths, 32-member limit)"),
    "rule": ("case i = one seeded program of 1..80 Set/Delete/Get/ToHeader+FromHeader operations applied in lock-step to "
             "the real TraceState and to a reference list model (keys drawn from a pool of <=40 plus boundary lengths "
             "255/256/257, multi-tenant limits, invalid bytes, embedded NUL; one third of the programs first climb to "
             "32 members), followed by 4 generated headers (OWS, empty members, missing '=', 31/32/33+ members, random "
             "bytes). All arguments are exact-size unterminated heap views scribbled or freed after the call. A case is "
             "non-trivial if it executed at least one Set/Delete or parsed one header; distinct = distinct hash of the "
             "operation/argument sequence or of the header bytes."),
    "rule_extra": ' Round 2: every 4th case adds a near-maximal list (28-32 members, keys and values of 254-256 characters, header up to 16447 bytes) that must parse and round-trip.',
    "assumptions": ASSUME_COMMON + [
        "key/value validity is three-valued: strings on which W3C level 1, level 2 and the two compiled validators disagree (leading digit, value ending in a blank, tenant part > 241) follow the implementation's verdict and are counted as don't-care",
        "duplicate keys arriving in a header are outside the statement and not judged"],
}


