from specs.common import run, memcheck, ASSUME_COMMON

ALTS = ["bool", "int32", "int64", "uint32", "double", "cstring", "string_view", "span<bool>", "span<int32>",
        "span<int64>", "span<uint32>", "span<double>", "span<string_view>", "uint64", "span<uint64>", "span<uint8>"]


# owning containers handed to EmitLogRecord / the wrappers DIRECTLY (class label = container type)
DIRECT = ["map<string,string>", "unordered_map<string,string>", "vector<pair<string,string>>",
          "map<string,int>", "unordered_map<string,int64>", "vector<pair<string,double>>"]


def _floors(per_alt, explicit, noactive, disabled, ctxchg, mt, scale=1):
    f = {}
    for d in DIRECT:
        for k in ("simple", "batch", "multi"):
            f["attr_direct_%s_%s" % (d, k)] = 200 * scale
    f.update({"direct_calls_path_args": 1200 * scale, "direct_calls_path_wrapper": 500 * scale,
              "direct_calls_path_record+args": 2000 * scale, "direct_sole_attribute_argument": 1500 * scale,
              "direct_combined_with_other_attribute_arguments": 1500 * scale,
              "direct_passed_as_const_lvalue": 3000 * scale, "direct_passed_as_lvalue": 80 * scale,
              "direct_passed_as_rvalue": 500 * scale, "direct_containers_with_several_elements": 2500 * scale,
              "direct_owning_string_values_at_synchronous_exporter": 3000 * scale})
    # records that waited between CreateLogRecord and emit while LoggerProvider::AddProcessor ran (C13-w4-2)
    f.update({"processors_added_while_a_record_was_pending": 250 * scale,
              "emits_of_records_created_before_a_processor_was_added": 200 * scale,
              "emits_of_records_created_under_one_processor_emitted_under_several": 120 * scale,
              "emits_of_records_created_under_no_processor_emitted_under_some": 15 * scale})
    for field in ("body", "attr"):
        for a in ALTS:
            for k in ("simple", "batch", "multi"):
                f["%s_%s_%s" % (field, a, k)] = per_alt
    f.update({"explicit_over_active": explicit, "no_active_span": noactive, "disabled_emits": disabled,
              "context_changed_between_create_and_emit": ctxchg, "emits_mt": mt, "free_passes": mt,
              "null_records": disabled})
    return f


SPEC = {
    "runs": [
        run("e1-model", "c13_log_export", "asan", 3000, 150000, params={"mode": "seq", "kill": "scribble"}),
        run("e1-free", "c13_log_export", "asan", 600, 30000, params={"mode": "seq", "kill": "free"}),
        memcheck("c13_log_export", 300, 15000, params={"mode": "seq", "kill": "scribble"}),
        run("e2-threads", "c13_log_export", "tsan", 400, 12000, params={"mode": "mt"}),
    ],
    "floors": {
        "quick": _floors(50, 300, 300, 100, 100, 300),
        "thorough": _floors(2000, 12000, 12000, 4000, 4000, 10000, scale=40),
    },
    "engine": "E1 model-oracle",
    "engines_used": ("E1 model-oracle", "E2 history"),
    "technique": ("reference-model oracle over generated EmitLogRecord argument lists / setter sequences against a real "
                  "LoggerProvider (simple, batch, multiple processors) under ASan+UBSan with caller buffers scribbled or "
                  "freed after the call; real threads with nested scopes under TSan + perturbation shim"),
    "level_text": ("exploration: seeded programs (scope push/pop, CreateLogRecord, ~110 fixed compile-time instantiations of "
                   "EmitLogRecord(args...) and the Log/Trace..Fatal wrappers (attributes as KeyValueIterable, "
                   "KeyValueIterableView, span/vector/map of AttributeValue pairs, and owning containers passed directly: "
                   "std::map / std::unordered_map / std::vector<pair> with std::string keys and std::string, int, int64, "
                   "double mapped values; const lvalue, lvalue, rvalue), setters in random order, record+args) run "
                   "against the real SDK; harness exporters hand out ReadWriteLogRecord and deep-copy every getter at "
                   "Export; a left-to-right model predicts every field. Right level because the property quantifies over "
                   "argument orders, value alternatives, processors and threads, and each emitted record is decided by a "
                   "small model; ownership is decided by value after every caller buffer was scribbled (batch exporters "
                   "are held on a gate until then), use-after-free by a second pass that frees them under ASan. While an "
                   "emit with a directly passed owning container is verified, the exporter asks ASan whether the storage "
                   "behind an exported string view is still alive before reading it, so a view of a dead temporary is a "
                   "value-level violation (class <processor>:container-direct:<container type>) instead of an abort."),
    "level_note": ("trusts the record model, the capture visitor and the recording exporter in harness/c13_log_export.cc; "
                   "active spans are DefaultSpan objects with generated contexts (a context holding a bare SpanContext under "
                   "the span key is not generated); NaN excluded; thread interleavings are whatever the perturbed scheduler "
                   "produced"),
    "rule": ("case i (mode seq) = one seeded LoggerProvider (1 simple | 1 batch | 2..3 mixed processors, sometimes a nested "
             "MultiLogRecordProcessor or a processor added late; resource and 1..3 loggers built from short-lived buffers; "
             "ScopeConfigurator with all/some scopes disabled) and a program of 10..28 operations: push a frame (span / "
             "unrelated key / empty context / null span, depth <= 5), pop, CreateLogRecord, emit a null record, or emit by "
             "one of three paths: EmitLogRecord(args...) / wrapper from the fixed instantiation list, setters in random order "
             "+ EmitLogRecord(record), EmitLogRecord(record, args...). Directly passed owning containers hold 0..6 "
             "generated elements (keys from the case's key pool, duplicates kept in vectors) and are the only attribute "
             "argument or combined with other attribute arguments; after the call their elements are scribbled in place "
             "(kill=free: the container is destroyed). Bodies and attribute values are drawn from all 16 "
             "AttributeValue alternatives (empty/1-byte/embedded-NUL/high-byte/4096-byte strings, empty..4096-element arrays, "
             "integer extremes, +-0, denormals, infinities). After the emitting call returns every caller buffer is "
             "scribbled (kill=free: emitted a second time with the same arguments and freed), batch processors are flushed "
             "and each exporter must have received exactly one record equal to the model. Mode mt = 1..4 threads running such "
             "programs concurrently on shared processors, matched by an id attribute. In about a third of the sequential cases one "
             "or two further processors (simple / batch / nested) are handed to the existing provider with "
             "LoggerProvider::AddProcessor at a seeded point while a record made by CreateLogRecord on an enabled logger "
             "waits to be emitted (a provider with one processor grows to two), and 1 case in 24 builds the provider "
             "without processors and attaches all of them that way: every exporter configured when the record was created "
             "must receive it exactly once and equal to the model, exporters added between creation and emit are not "
             "judged for that record (counted) and are judged for every record created afterwards; these decisions come "
             "from a stream of their own, so the programs are the same as without them. A case is non-trivial if at least one "
             "emit was verified; distinct = hash of configuration + operation/shape/alternative/key sequence."),
    "rule_extra": " Round 2: one pending record in five (both loggers enabled) is emitted through another logger of the provider and must carry that logger's scope.",
    "assumptions": ASSUME_COMMON + [
        "const char* and string_view bodies/attributes are one value class (string): the statement is about the value, not the variant index",
        "fields that were never supplied (severity, body, timestamp, event id) are not judged; a defaulted observed timestamp must lie within 2 s of the CreateLogRecord call (slack so that a clock step never decides)",
        "severity numbers outside the enum must survive; their text is not judged",
        "an EventId constructed from a name with an embedded NUL is its C-string prefix (logs::EventId stores a NUL-terminated char array): full name or prefix accepted, counted as don't-care; SetEventId(id, view) must keep every byte (--param strict_eventid_nul=1 demands it for EventId too)",
        "explicit identity wins field by field: an explicit TraceId alone leaves span id and flags to the active span",
        "in the threaded run value buffers stay alive until the case was verified (ownership is decided by the sequential runs)",
        "a record created before LoggerProvider::AddProcessor and emitted after it: 'every configured processor' is read as every processor configured when the record was created (the SDK prepares one recordable per processor at CreateLogRecord); whether the processor added in between receives that record is don't-care, counted",
        "elements of a directly passed owning container: a simple processor's exporter must see exactly what the container held when the call was made; with a batch processor the record's non-owning views refer to the caller's container, which is the known value-owned finding (same key pattern as every other pointer-carrying value)"],
}
