from specs.common import run, memcheck, ASSUME_COMMON

SPEC = {
    "runs": [
        # scripted observable callbacks against the metrics reference model M
        run("e1-scripted-callbacks", "c17_observables", "asan", 4000, 300000, need_lib=True),
        memcheck("c17_observables", 200, 10000),
        # AddCallback / RemoveCallback / instrument destruction racing Collect, TSan + perturbation shim
        run("e2-callback-churn-vs-collect", "c17_observables", "tsan", 300, 20000, need_lib=True,
            params={"mode": "race"}),
        # 2..3 readers collected concurrently, each from its own thread, TSan + perturbation shim
        run("e2-concurrent-readers", "c17_observables", "tsan", 100, 8000, need_lib=True,
            params={"mode": "readers"}),
        # synchronous Gauge exists in ABI v2 only
        run("e1-sync-gauge-abi2", "c17_observables", "asan-abi2", 0, 100000, need_lib=True, params={"mode": "gauge"},
            tiers=("thorough",)),
    ],
    "floors": {
        "quick": {"hist_removal_between_collections": 300, "hist_readers_mixed_temporality": 300,
                  "hist_non_monotone_script": 200, "race_runs_removal_interleaved_with_invocations": 50,
                  "hist_starved_reader": 120, "starved_reader_delta_points_checked": 150,
                  "starved_reader_cumulative_points_checked": 150,
                  "hist_gauge_repeated_observe": 200, "gauge_points_checked_repeated_observe": 2000,
                  "hist_shared_callback_state": 100, "shared_callback_collections_after_partial_remove": 1000,
                  "conc_readers_runs_mixed_temporality": 20, "conc_readers_runs_common_ticks": 12,
                  "conc_readers_cumulative_points_checked": 1000, "conc_readers_delta_sums_checked": 1000},
        "thorough": {"hist_removal_between_collections": 15000, "hist_readers_mixed_temporality": 15000,
                     "hist_non_monotone_script": 15000, "race_runs_removal_interleaved_with_invocations": 3000,
                     "sync_gauge_points_checked_fresh": 100000,
                     "hist_starved_reader": 10000, "starved_reader_delta_points_checked": 10000,
                     "starved_reader_cumulative_points_checked": 10000,
                     "hist_gauge_repeated_observe": 15000, "gauge_points_checked_repeated_observe": 150000,
                     "hist_shared_callback_state": 7500, "shared_callback_collections_after_partial_remove": 75000,
                     "conc_readers_runs_mixed_temporality": 2000, "conc_readers_runs_common_ticks": 1200,
                     "conc_readers_cumulative_points_checked": 75000, "conc_readers_delta_sums_checked": 75000},
    },
    "engine": "E1 model-oracle",
    "engines_used": ("E1 model-oracle", "E2 history"),
    "technique": ("scripted observable callbacks (callback j at its n-th invocation reports script[j][n]) driven through "
                  "the real Meter/ObservableRegistry/AsyncMetricStorage under ASan+UBSan and compared with a reference "
                  "model per reader; callback add/remove/destroy racing Collect on real threads under TSan with the "
                  "perturbation shim; readers collecting concurrently from their own threads under TSan with the shim, "
                  "values compared after a quiescent collection per reader"),
    "level_text": ("exploration: seeded histories of AddCallback / RemoveCallback / instrument destruction / Collect by 1..3 "
                   "readers of mixed temporality over observable counters, up-down counters and gauges (int64 and "
                   "double); after every collection the invocation count of every callback (exactly once if registered, "
                   "never otherwise) and every point (cumulative = reported total, delta = total minus what that same "
                   "reader was last given, gauge = value observed in this collection - the most recent one when a "
                   "callback observes a set several times in one invocation) are compared with the model; every ~8th "
                   "history is directed: one reader collects 34..60 times in a row while the others do not, then they do. Right "
                   "level because the property quantifies over histories and configurations of a stateful pipeline and "
                   "the scripts make both counts and values decidable."),
    "level_note": ("in the concurrent-readers run values are judged only after the threads have stopped (last cumulative "
                   "point / sum of all delta points against the total reported in that reader's last collection), not per "
                   "in-flight collection; a shared (function, state) pair is judged by invocation counts, its values only "
                   "in collections whose count was right; trusts the model in vf/include/vf_metrics_model.h and harness/c17_observables.cc, gcc ASan/UBSan/TSan; "
                   "covers only generated histories (<=100 steps, <=3 instruments, <=3 callbacks each, <=6 attribute sets, "
                   "<=3 readers, a reader lags at most 60 collections behind another); sum points for a set that one "
                   "invocation observed more than once are not judged; the synchronous Gauge is only reached in the thorough tier (ABI v2 build); values are not "
                   "judged in the racing run. Mutation self-test (scratch worktree): 10/10 breaking edits exit 1 - Observe "
                   "only for the first reader, Observe once per storage, RemoveCallback comparing the function pointer "
                   "only, delta stashed only for the calling reader (delta against another reader's last value), "
                   "LastValue Merge keeping the older sample, callback invoked twice, CleanupCallback a no-op, "
                   "RemoveCallback without the mutex (TSan), observed total stored as delta, RemoveCallback not erasing"),
    "rule": ("sequential case i = one seeded configuration (1..3 readers, delta/cumulative per instrument type, 1..2 meters, "
             "1..3 observable instruments of kind counter|up-down counter|gauge x int64|double, 1..3 callbacks per "
             "instrument on disjoint attribute sets, registered with one of two C functions so that several callbacks "
             "share a function pointer and differ only in state; each callback carries a script of 160 reports in which "
             "each owned set is present with probability 0.85 and totals are monotone or not; one callback in three is a "
             "'replaying' callback that, for a reported set, with probability 1/3 first observes 1..2 different decoy values "
             "for the same set - own key order, overload and buffers - and then the scripted value) and a history of 5..100 "
             "steps over {AddCallback, RemoveCallback, RemoveCallback of something not registered, destroy instrument, "
             "Collect(reader)} followed by one collection per reader. One case in eight (decided by the case seed) is a "
             "starved-reader history instead: >=2 readers, instrument 0 a counter or up-down counter that is not destroyed, "
             "0..15 random steps, then one reader collects 34..60 times in a row (an AddCallback/RemoveCallback in about "
             "every 12th gap) while the other readers - marked starved in the configuration - do not collect, then each "
             "starved reader collects, then 0..15 random steps; hist_starved_reader counts those in which a starved "
             "reader's collection after the burst had a judged sum point. The system clock is made to advance between two "
             "observations the model orders. Non-trivial = more collections than readers; distinct = hash of the "
             "operation sequence. Racing case = 1..2 collecting readers, 1..2 threads adding/removing their own callbacks "
             "20..120 times and possibly destroying an instrument, stable callbacks counted against the number of "
             "collections. One sequential case in four (by the case seed) registers one shared (function, state) pair on the "
             "first 2..3 instruments (same meter, kind, value type, value class; 1..2 attribute sets of its own, one script): "
             "the registrations are added/removed one by one like any other callback; hist_shared_callback_state counts "
             "histories with a collection after one registration was removed while another stayed in force. "
             "Concurrent-readers case = 2..3 readers (first two of different temporality in 2 of 3 cases), 1..2 meters, 2..3 "
             "observable instruments (counter 5 : up-down 3 : gauge 2, int64|double) with 1..3 attribute sets - in 3 of 4 "
             "cases the first-created one reports 30..120 sets - each with one callback whose n-th invocation reports "
             "f(instrument, set, n) (counters strictly increasing); every reader is collected 15..60 times from its own "
             "thread (half of the cases: all readers start each round together), then once more quiescently. "
             "Gauge case (ABI v2) = 5..100 steps of Record(value, attrs)/Collect over 1..2 gauges and "
             "1..3 readers."),
    "assumptions": ASSUME_COMMON + [
        "points for attribute sets that the callback did not report in that very collection (sets that disappeared from a script, removed callbacks, destroyed instruments) are don't-care; a delta reader's catch-up point for such a set is added to what that reader 'was last given'",
        "totals of an observable Counter are kept non-negative (they may decrease); NaN/inf are not reported",
        "when one callback invocation observes the same attribute set more than once, an observable gauge must report the most recent of these values (the statement says so; key class suffix ':repeated-observe-in-one-invocation'); for observable counters / up-down counters 'the reported total' is then not unique (the OpenTelemetry API leaves duplicate observations unspecified; other SDKs keep the first) and the sum point is don't-care: counted, never judged, a delta reader's point is added to what that reader 'was last given'",
        "the violation class is <instrument kind>/<single|multi>-reader-<delta|cumulative>, followed by ':starved-reader' for the readers that the configuration of a starved-reader history keeps from collecting during the burst",
        "callbacks on one instrument report disjoint attribute sets; the same (function, state) pair is never registered twice at the same time on the same instrument (it may be registered on several instruments of one meter: key class suffix ':shared-callback-state'; RemoveCallback on one instrument must leave the other registrations in force)",
        "concurrent readers: 'the reported total' of a reader's collection is the value its own invocation of the callback reported (the callback runs on the collecting thread; a thread-local marker tells the harness which reader it serves); compared after the threads are joined and each reader has collected once more; classes <kind>/concurrent-readers",
        "exact classes (int64, doubles that are multiples of 2^-10) are compared exactly; arbitrary doubles with 1e-9 relative to the magnitudes that went through the SDK's arithmetic; gauge values are compared exactly (no arithmetic)",
        "system_clock is assumed not to step backwards during a case; the harness waits for it to advance between ordered observations (clock-tie independence)",
        "a synchronous gauge point for a set that was not recorded since that reader's previous collection may be absent (don't-care) but, if present, must carry the most recently recorded value"],
}
