from specs.common import run, ASSUME_COMMON

SPEC = {
    "runs": [run("e2-history", "e2_history", "tsan", 300, 10000, sq=6, st=16, params={"prop": "C03"}, tier_params={"quick": {"xcheck": 8}, "thorough": {"xcheck": 40}},
                 fallback_flavour="tsan-plain", timeout={"quick": 1500, "thorough": 10800})],
    "floors": {"quick": {'batches_before-first-flush': 500, 'batches_during-flush': 100, 'batches_after-flush': 500, 'batches_drain-after-flush': 8, 'batches_drain-no-flush': 8, 'simple_calls_while_another_caller_inside': 1000, 'periodic_exports': 100, 'histories_periodic_export_outlives_timeout': 4, 'histories_simple-span': 10, 'histories_simple-log': 10}, "thorough": {'batches_before-first-flush': 50000, 'batches_during-flush': 10000, 'batches_after-flush': 50000, 'batches_drain-after-flush': 500, 'batches_drain-no-flush': 500, 'simple_calls_while_another_caller_inside': 100000, 'periodic_exports': 10000}},
    "engine": "E2 history",
    "technique": "offline history checker over call/return and exporter events recorded from real-thread executions under ThreadSanitizer with a seeded perturbation shim (yields, sleeps, spurious weak-CAS failures)",
    "level_text": 'exploration: the recording exporter itself is the monitor - an in-flight counter checked at every Export entry (before the scripted delay, so overlap windows are wide) and the size of every batch tagged with the processor phase (before-first-flush, during-flush, after-flush, drain). Driven by the E2 real-thread history engine under TSan + perturbation shim over batch span/log processors, providers, simple span/log processors hammered from 2..8 threads, and the periodic reader raced with ForceFlush.',
    "level_note": "trusts the recording exporter's relaxed in-flight counter (no happens-before edge is added by the monitor) and TSan; covers only the schedules produced; phases without observed batches fail the coverage floor instead of passing vacuously",
    "rule": 'case i = one seeded history as for C01 with subject mix batch span / batch log / providers / SimpleSpanProcessor / SimpleLogRecordProcessor and, every 5th case, a periodic reader raced with 1..3 ForceFlush threads. Every Export entry is checked for in-flight > 1 and 1 <= |batch| <= max_export_batch_size, tagged with the phase computed from the recorded flush/shutdown calls. Non-trivial = at least one Export happened; distinct = hash(case seed, order of exporter/boundary events).',
    "rule_extra": ' Round 2: every 8th clean batch-processor history is re-checked by monitors/history.py.',
    "assumptions": ASSUME_COMMON + [
        "a relaxed atomic counter is used as the logical clock: its modification order is consistent with real time, and it adds no happens-before edge that could hide an SDK race from TSan",
        "a record that was never delivered is a legitimate drop only if A - C >= max_queue_size (A = delivered records whose call began before this call returned, C = records of batches whose Export was entered before this call began); sound because CircularBuffer::Add reads tail before head",
        "wall-clock is never a verdict: a watchdog expiry (90-120 s, > 200 x the longest internal timed wait of 400 ms) is re-run and only a repeated expiry is reported as hang/<operation>",
    ],
}
