from specs.common import run, ASSUME_COMMON

SPEC = {
    "runs": [
        run("e3-serial", "c11_lockfree", "asan", 20000, 1200000, sq=8, st=16, need_lib=False,
            tier_params={"thorough": {"enum_every": 100000}},
            timeout={"quick": 1500, "thorough": 10800}),
        run("e2-free", "c11_lockfree", "tsan", 200, 20000, sq=4, st=16, need_lib=True,
            timeout={"quick": 1500, "thorough": 10800}),
    ],
    "floors": {
        "quick": {"queue_schedules": 10000, "lock_schedules": 2000, "schedules_with_genuine_cas_failure": 500,
                  "schedules_with_injected_cas_failure": 1000, "legitimate_false_adds": 1000,
                  "schedules_reaching_full": 1000, "queue_free_histories": 100, "lock_free_histories": 30,
                  "lock_try_lock_failures": 100,
                  "enum_configs_exhausted": 8, "enum_runs": 3000,
                  "enum_lock_configs_exhausted": 6, "enum_lock_runs": 1500},
        "thorough": {"queue_schedules": 700000, "lock_schedules": 180000, "schedules_with_genuine_cas_failure": 40000,
                     "schedules_with_injected_cas_failure": 80000, "legitimate_false_adds": 80000,
                     "queue_free_histories": 10000, "lock_free_histories": 3000,
                     "enum_configs_exhausted": 6, "enum_runs": 50000,
                     "enum_lock_configs_exhausted": 6, "enum_lock_runs": 30000},
    },
    "engine": "E3 serialised schedule",
    "engines_used": ["E3 serialised schedule", "E2 history"],
    "technique": "seeded serialised schedules (baton scheduler at every atomic operation, spurious weak-CAS failures) over the unmodified lock-free headers with per-step invariants and a history check; plus free-running real threads under TSan with the perturbation shim",
    "level_text": ("exploration: tens of thousands (quick) to over a million (thorough) of seeded schedules of 1..3 producers and one "
                   "consumer on CircularBuffer capacities 1..3, and of 2..3 threads on SpinLockMutex, executed on the real "
                   "headers with every atomic operation a scheduling point (uniform random and PCT-style priority schedules, "
                   "spurious compare_exchange_weak failures at rate 0, 1/8, 1/2). Each schedule is decided by step invariants "
                   "(queued <= capacity) and an offline history check (consumed exactly once, per-producer order, failed Add "
                   "keeps its element and only when full by a sound occupancy bound, instance accounting under ASan, mutual "
                   "exclusion, try_lock only on a free lock, logical no-progress bound). A second run executes free-running "
                   "threads under TSan + shim. Sampling of schedules, not enumeration."),
    "level_note": ("schedules are sampled (evidence reports schedules executed and distinct schedule hashes); only the bounded-preemption "
                   "space of the ten tiny configurations is enumerated completely (counters enum_*); "
                   "sequentially consistent execution only in serialised mode - weak-memory reorderings are covered only as far "
                   "as TSan's happens-before model flags them in the free-running run; trusts the baton scheduler (vf_serial.h)"),
    "rule": ("case i = one seeded schedule. 4 of 5 cases: CircularBuffer<Elem> of capacity 1..3, 1..3 producers adding 1..6 "
             "instance-counted elements each, one consumer using Consume(k<=size)/Peek with a taking callback; scheduler "
             "policy uniform or PCT depth 1..3, spurious weak-CAS rate in {0,1/8,1/2}. 1 of 5: SpinLockMutex with 2..3 threads "
             "x 1..4 lock/try_lock/unlock operations. Non-trivial = at least one context switch happened; distinct = hash of "
             "the sequence of (chosen thread, operation kind) at every scheduling point. Every 2000th case (100000th in the "
             "thorough tier) instead enumerates COMPLETELY, for one of 10 tiny configurations (capacity 1..3, 1..3 producers, "
             "<= 4 adds), every schedule reachable by running threads to completion or to a voluntary yield plus at most 2 "
             "(thorough: 3) preemptions at any step to any other live thread (counters enum_*); likewise six SpinLockMutex "
             "configurations (2..3 threads x 1..2 lock/try_lock operations, counters enum_lock_*)."),
    "coverage_extra": {"exhaustive_subspaces": "bounded-preemption enumeration (preemption bound 2 quick / 3 thorough, sequentially consistent execution, no spurious CAS) of 10 tiny queue configurations; enum_configs_exhausted counts configurations whose bounded schedule space was enumerated completely in this run, enum_configs_capped those cut by the run budget; the top-level exhaustive flag stays false"},
    "rule_extra": " Round 2: an element counts as consumed when the consumer's callback takes it out of its slot; the consumer calls Clear() one time in eight.",
    "assumptions": ASSUME_COMMON + [
        "a failed Add is legitimate iff (successful Adds started before it finished) - (elements taken by Consume calls that returned before it started) >= capacity; sound upper bound of the occupancy Add can have seen",
        "progress is logical: a schedule exceeding 200000 steps continues under fair round-robin for another 200000 before no-progress is reported (longest schedule on the unchanged header: a few hundred steps)",
    ],
}
