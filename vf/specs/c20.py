from specs.common import run, ASSUME_COMMON

SPEC = {
    "runs": [run("e1-lockstep", "c20_nostd", "asan", 20000, 1500000, need_lib=False)],
    "floors": {"quick": {}, "thorough": {}},
    "engine": "E1 model-oracle",
    "technique": "x", "level_text": "x", "level_note": "x", "rule": "x",
    "assumptions": ASSUME_COMMON,
}
