from specs.common import run, ASSUME_COMMON

# Floors: at most one third of the minimum seen over VERIF_SEED in {1,2,3,7,42,1000,65537,2^31-1}.
_Q = {
    "sv_substr_throws": 7000, "sv_substr_returns": 20000, "sv_compare_high_vs_low": 3000, "sv_compare_prefix": 12000,
    "sv_compare_pos_throws": 7000, "sv_compare_cstr": 12000, "sv_find_found_from_nonzero_pos": 3000, "sv_find_absent": 20000,
    "sv_equal_true": 5000, "sv_equal_false": 15000, "sv_hash": 15000,
    "span_views_checked": 300000, "span_views_touching_end": 15000, "span_empty_subviews": 25000, "span_static_extents": 15000,
    "uptr_ops": 170000, "uptr_convert_derived": 17000, "uptr_array_ops": 6000, "uptr_self_move_assign": 5000,
    "sptr_ops": 170000, "sptr_copies_of_owner": 5000, "sptr_moves_of_owner": 14000, "sptr_convert_derived": 17000,
    "sptr_self_assign_probes": 100,
    "fref_ops": 70000, "fref_null_targets": 7000,
    "var_ops": 140000, "var_get_throws": 14000, "var_get_returns": 4500, "var_visits": 16000,
    "var_compare_same_index": 15000, "var_tracked_alternatives": 7500,
}
_T = {k: v * 60 for k, v in _Q.items()}

SPEC = {
    "runs": [run("e1-lockstep", "c20_nostd", "asan", 10000, 1000000, need_lib=False)],
    "floors": {"quick": _Q, "thorough": _T},
    "engine": "E1 model-oracle",
    "technique": ("std counterparts driven in lock-step with the nostd types under ASan+UBSan+LSan: std::string_view, an "
                  "index-checked slice model for span, std::unique_ptr, std::shared_ptr, std::function over std::ref, "
                  "std::variant; instance-counted payloads per universe"),
    "level_text": ("exploration: every case runs six seeded programs (string_view, span, unique_ptr, shared_ptr, function_ref, "
                   "variant) of up to 100 operations; each operation is applied to the nostd object and to its std "
                   "counterpart and every observable result (values, sign of compare, positions, thrown exception type, "
                   "handle contents, sharing structure, live-instance count) is compared after every step. Byte strings "
                   "live in exact-size unterminated heap buffers, payloads are heap objects, so over-reads, double frees "
                   "and leaks are sanitizer reports. Right level because the property quantifies over operation sequences "
                   "of small sequential value types whose reference behaviour is available as the std type itself."),
    "level_note": ("trusts libstdc++'s std types as the oracle and gcc ASan/UBSan/LSan; covers only generated programs "
                   "(pools of views over one base string and its prefixes/variants, positions 0..size+2 and npos, <=8 "
                   "handles, a 4-alternative variant, no valueless states); calls std leaves undefined are not generated; "
                   "compile-time differences (function_ref cannot bind a const-qualified functor, operator bool of the "
                   "smart pointers is not explicit, members std offers but nostd does not) are outside a run-time check. "
                   "shared_ptr self-assignment is probed in forked children because a defect there corrupts the heap. "
                   "Mutation self-test (scratch worktree): signed-char compare, size tie-break flipped, find returning a "
                   "relative offset, substr clamping instead of throwing, substr count overflow, hash over the pointer, "
                   "== on length only; span first/last extent, converting-constructor extent, end() off by one (dynamic "
                   "and static); unique_ptr reset without delete, release keeping the pointer, swap no-op, move-assign "
                   "leaking, scalar delete of arrays, != inverted; shared_ptr move copying, move-assign leaking the old "
                   "object, converting move copying, =nullptr no-op, swap dropping a side, from-unique without release; "
                   "function_ref binding a null function pointer; variant holds_alternative >=, operator< flipped — all caught."),
    "rule": ("case i = six seeded programs: (1) string_view: 5..100 operations over views of exact-size heap buffers built "
             "from one base string over the alphabet {a,b,NUL,0x7f,0x80,0xff,blank,z} (prefixes, one-byte variations incl. "
             "sign-bit flips, extensions, empty, default view, sub-views produced on the way): size/data/[]/conversion, "
             "substr and the five compare overloads with positions 0..size+2 and npos (same result or std::out_of_range "
             "exactly when std throws), find(char,pos), == != < > in every spelling, hash of equal views in different "
             "buffers; (2) span: dynamic and static extents over exact-size storage against a slice model (pointer+count, "
             "first/last, arrays, containers, const and extent conversions, copies, element access, iteration, writes "
             "through); (3) unique_ptr and (4) shared_ptr: 5..100 construct/move/copy/reset/release/swap/convert-derived/"
             "from-std/to-std operations over <=8 handles with instance-counted payloads, every handle, the sharing "
             "structure and the live count compared after each step, LeakSanitizer at exit; (5) function_ref against "
             "std::function(std::ref(target)) for functors, lambdas, function pointers, null targets, reference / "
             "move-only / class-type arguments and results; (6) a 4-alternative variant against std::variant: "
             "assignment, emplace, copy, move, swap, get/get_if/holds_alternative (bad_variant_access exactly when std "
             "throws), visit with one and two variants, relational operators, live count of the counted alternative. "
             "Every program is non-trivial; distinct = distinct hash of its operation/argument sequence."),
    "assumptions": ASSUME_COMMON + [
        "libstdc++'s std::string_view / unique_ptr / shared_ptr / function / variant define the expected behaviour; span is judged against an index-checked slice model (C++17 has no std::span)",
        "only the interface nostd offers is exercised (string_view has find(char) only; span has no subspan/first/last, sub-views are built from pointer+count); out-of-contract calls are never generated",
        "moved-from std::string / std::vector alternatives have unspecified values: after a variant move only the index of the source is compared and it is re-assigned at once",
        "hash: only consistency with equality is judged; agreement with std::hash<std::string_view> is counted, not required"],
}
