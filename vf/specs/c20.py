from specs.common import run, memcheck, ASSUME_COMMON

# Floors: at most one third of the minimum seen over VERIF_SEED in {1,2,3,7,42,1000,65537,2^31-1}.
_Q = {"fref_copies_outliving_or_rebound_source": 5000, "var_visit_shape_combinations": 100000, 
    "sv_substr_throws": 7000, "sv_substr_returns": 20000, "sv_compare_high_vs_low": 3000, "sv_compare_prefix": 12000,
    "sv_compare_pos_throws": 7000, "sv_compare_cstr": 12000, "sv_find_found_from_nonzero_pos": 3000, "sv_find_absent": 20000,
    "sv_equal_true": 5000, "sv_equal_false": 15000, "sv_hash": 15000,
    "span_views_checked": 300000, "span_views_touching_end": 15000, "span_empty_subviews": 25000, "span_static_extents": 15000,
    "uptr_ops": 170000, "uptr_convert_derived": 17000, "uptr_array_ops": 6000, "uptr_self_move_assign": 5000,
    "sptr_ops": 170000, "sptr_copies_of_owner": 5000, "sptr_moves_of_owner": 14000, "sptr_convert_derived": 17000,
    "sptr_self_assign_probes": 100,
    "fref_ops": 70000, "fref_null_targets": 7000,
    "var_ops": 140000, "var_get_throws": 14000, "var_get_returns": 4500, "var_visits": 16000,
    "var_compare_same_index": 15000, "var_tracked_alternatives": 7500,
    # variant, exception part (operations with a throwing copy / move armed in lock-step)
    "var_throw_ops": 13000, "var_throw_unarmed_ops": 4200,
    "var_throw_judged_old_value_kept": 4600, "var_throw_judged_valueless": 1700, "var_throw_dontcare": 3800,
    "var_throw_copy_assign_copy_throws_move_noexcept_different_alternative": 1100,
    "var_throw_copy_assign_copy_throws_move_noexcept_same_alternative": 590,
    "var_throw_copy_assign_copy_throws_move_throws_different_alternative": 1100,
    "var_throw_copy_assign_copy_throws_move_throws_same_alternative": 590,
    "var_throw_convert_copy_throws_move_noexcept_different_alternative": 680,
    "var_throw_convert_copy_throws_move_noexcept_same_alternative": 340,
    "var_throw_convert_copy_throws_move_throws_different_alternative": 680,
    "var_throw_convert_copy_throws_move_throws_same_alternative": 340,
    "var_throw_emplace_copy_throws_move_noexcept_different_alternative": 590,
    "var_throw_emplace_copy_throws_move_noexcept_same_alternative": 290,
    "var_throw_emplace_copy_throws_move_throws_different_alternative": 590,
    "var_throw_emplace_copy_throws_move_throws_same_alternative": 290,
    "var_throw_move_assign_move_throws_different_alternative": 1700,
    "var_throw_move_assign_move_throws_same_alternative": 850,
    "var_throw_copy_construct_copy_throws_move_noexcept": 760, "var_throw_copy_construct_copy_throws_move_throws": 760,
    "var_throw_move_construct_move_throws": 1300,
    "var_valueless_checked": 1300,
}
_T = {k: v * 60 for k, v in _Q.items()}

SPEC = {
    "runs": [run("e1-lockstep", "c20_nostd", "asan", 10000, 1000000, need_lib=False),
             memcheck("c20_nostd", 600, 30000, need_lib=False)],
    "floors": {"quick": _Q, "thorough": _T},
    "engine": "E1 model-oracle",
    "technique": ("std counterparts driven in lock-step with the nostd types under ASan+UBSan+LSan: std::string_view, an "
                  "index-checked slice model for span, std::unique_ptr, std::shared_ptr, std::function over std::ref, "
                  "std::variant (incl. alternatives whose copy / move throws on demand, armed identically on both sides); "
                  "instance-counted payloads per universe"),
    "level_text": ("exploration: every case runs six seeded programs (string_view, span, unique_ptr, shared_ptr, function_ref, "
                   "variant) of up to 100 operations; each operation is applied to the nostd object and to its std "
                   "counterpart and every observable result (values, sign of compare, positions, thrown exception type, "
                   "handle contents, sharing structure, live-instance count) is compared after every step. The variant "
                   "program ends with 3..10 operations that fail half way (copy / converting / move assignment, emplace, "
                   "copy / move construction with an alternative whose copy or move constructor throws): the state "
                   "[variant.assign] fixes after the exception is compared with std::variant, the states it leaves open "
                   "are counted don't-care. Byte strings "
                   "live in exact-size unterminated heap buffers, payloads are heap objects, so over-reads, double frees "
                   "and leaks are sanitizer reports. Right level because the property quantifies over operation sequences "
                   "of small sequential value types whose reference behaviour is available as the std type itself."),
    "level_note": ("trusts libstdc++'s std types as the oracle and gcc ASan/UBSan/LSan; covers only generated programs "
                   "(pools of views over one base string and its prefixes/variants, positions 0..size+2 and npos, <=8 "
                   "handles, two 4-alternative variants, valueless states only right after an injected exception: observed, "
                   "copied, compared, visited, then given a value again; swap is never run with a throw armed); an "
                   "exception is injected into the first copy (or move) operation of the alternative only, never into "
                   "allocation; calls std leaves undefined are not generated; "
                   "compile-time differences (function_ref cannot bind a const-qualified functor, operator bool of the "
                   "smart pointers is not explicit, members std offers but nostd does not) are outside a run-time check. "
                   "shared_ptr self-assignment is probed in forked children because a defect there corrupts the heap. "
                   "Mutation self-test (scratch worktree): signed-char compare, size tie-break flipped, find returning a "
                   "relative offset, substr clamping instead of throwing, substr count overflow, hash over the pointer, "
                   "== on length only; span first/last extent, converting-constructor extent, end() off by one (dynamic "
                   "and static); unique_ptr reset without delete, release keeping the pointer, swap no-op, move-assign "
                   "leaking, scalar delete of arrays, != inverted; shared_ptr move copying, move-assign leaking the old "
                   "object, converting move copying, =nullptr no-op, swap dropping a side, from-unique without release; "
                   "function_ref binding a null function pointer; variant holds_alternative >=, operator< flipped — all caught. "
                   "Seeded change C20-3 (variant copy assignment emplacing in place instead of copy-then-move) is caught as "
                   "C20/var-assign-throws/copy-throws-move-noexcept:different-alternative."),
    "rule": ("case i = six seeded programs: (1) string_view: 5..100 operations over views of exact-size heap buffers built "
             "from one base string over the alphabet {a,b,NUL,0x7f,0x80,0xff,blank,z} (prefixes, one-byte variations incl. "
             "sign-bit flips, extensions, empty, default view, sub-views produced on the way): size/data/[]/conversion, "
             "substr and the five compare overloads with positions 0..size+2 and npos (same result or std::out_of_range "
             "exactly when std throws), find(char,pos), == != < > in every spelling, hash of equal views in different "
             "buffers; (2) span: dynamic and static extents over exact-size storage against a slice model (pointer+count, "
             "first/last, arrays, containers, const and extent conversions, copies, element access, iteration, writes "
             "through); (3) unique_ptr and (4) shared_ptr: 5..100 construct/move/copy/reset/release/swap/convert-derived/"
             "from-std/to-std operations over <=8 handles with instance-counted payloads, every handle, the sharing "
             "structure and the live count compared after each step, LeakSanitizer at exit; (5) function_ref against "
             "std::function(std::ref(target)) for functors, lambdas, function pointers, null targets, reference / "
             "move-only / class-type arguments and results; (6) a 4-alternative variant against std::variant: "
             "assignment, emplace, copy, move, swap, get/get_if/holds_alternative (bad_variant_access exactly when std "
             "throws), visit with one and two variants, relational operators, live count of the counted alternative; "
             "then the exception part over variant<int,string,CopyBomb,MoveBomb> (CopyBomb: copy constructor/assignment "
             "throw when armed, move noexcept; MoveBomb: copy and move throw when armed; both throw before changing "
             "anything): 3..10 steps, each armed with probability 3/4, of variant-to-variant copy assignment, converting "
             "assignment from an lvalue, emplace from an lvalue, copy construction, variant-to-variant move assignment, "
             "move construction, target holding the same alternative with probability 1/3. After the step: the exception "
             "left both or neither (var-throw-propagates); index(), valueless_by_exception(), holds_alternative, "
             "get_if<T>/<I>, the value through get_if and get<index()>, visit (bad_variant_access when valueless) and one "
             "get<I> of an alternative not held are compared; source unchanged; live counts equal. Judged "
             "(var-assign-throws/<class>): copy-throws-move-noexcept:different-alternative and convert-copy-throws-move-"
             "noexcept:different-alternative keep the old value (temporary first, [variant.assign]); every "
             "same-alternative class keeps index and value (Tj's own assignment, strong guarantee here); "
             "move-throws:different-alternative holds no value ('the variant will hold no value'); copy/move "
             "construction (var-construct-throws) leaves source and live count unchanged. Don't-care "
             "(var_throw_dontcare): emplace, and copy / converting assignment of MoveBomb into another alternative "
             "('equivalent to emplace', 'might not hold a value'): only 'old value or valueless' is judged. A case is "
             "not judged when std::variant itself is not where the standard puts it (var_throw_oracle_off_standard, 0 "
             "observed). A quarter of the valueless variants are also copied, copy-/move-assigned from, compared and "
             "visited together with a second variant. "
             "Every program is non-trivial; distinct = distinct hash of its operation/argument sequence."),
    "rule_extra": ' Round 2: the shared_ptr program also builds two handles with the same stored pointer and different owners (std aliasing constructors) and copy-assigns one to the other.',
    "assumptions": ASSUME_COMMON + [
        "libstdc++'s std::string_view / unique_ptr / shared_ptr / function / variant define the expected behaviour; span is judged against an index-checked slice model (C++17 has no std::span)",
        "only the interface nostd offers is exercised (string_view has find(char) only; span has no subspan/first/last, sub-views are built from pointer+count); out-of-contract calls are never generated",
        "moved-from std::string / std::vector alternatives have unspecified values: after a variant move only the index of the source is compared and it is re-assigned at once",
        "hash: only consistency with equality is judged; agreement with std::hash<std::string_view> is counted, not required",
        "after an exception only the states [variant.assign] / [variant.ctor] fix are judged against std::variant (old value kept where a temporary must be built first or Tj's own assignment runs; no value after a throwing move construction into another alternative); where the standard says the variant 'might not hold a value' (emplace and the assignments equivalent to it) either outcome is accepted and the case is counted don't-care"],
}
