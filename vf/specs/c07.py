from specs.common import run, memcheck, ASSUME_COMMON

SPEC = {
    "runs": [run("e1-model", "c07_histogram", "asan", 20000, 1500000, need_lib=True),
             memcheck("c07_histogram", 1000, 50000)],
    "floors": {
        "quick": {"cases_value_eq_boundary": 2500, "cases_all_zero": 800, "cases_empty_bounds_minmax": 800,
                  "merge_splits_k_ge3": 4000, "points_meter-delta": 15000, "points_meter-cumulative": 15000,
                  "points_temporal-delta": 15000, "points_temporal-cumulative": 15000, "diff_checked": 15000,
                  "points_meter-remerge": 8000, "points_temporal-remerge": 8000,
                  "cases_long_exact": 2500, "cases_long_beyond53": 300, "cases_double_exact": 1500,
                  "cases_double_tolerance": 1500, "cases_nextafter_neighbour": 800, "cases_denormal_value": 1000,
                  "cases_huge_value": 1500, "cases_minmax_disabled": 1000, "bounds_default": 800,
                  "histories_single_delta_fastpath": 3000, "histories_multi_reader": 6000,
                  "merge_with_empty_interval": 3000, "minmax_all_below_min_normal_points": 10000},
        "thorough": {"cases_value_eq_boundary": 180000, "cases_all_zero": 60000, "cases_empty_bounds_minmax": 60000,
                     "merge_splits_k_ge3": 300000, "points_meter-delta": 1000000, "points_meter-cumulative": 1000000,
                     "points_temporal-delta": 1000000, "points_temporal-cumulative": 1000000, "diff_checked": 1000000,
                     "cases_long_beyond53": 20000, "cases_double_exact": 100000, "cases_double_tolerance": 100000,
                     "histories_single_delta_fastpath": 200000, "histories_multi_reader": 400000,
                     "minmax_all_below_min_normal_points": 700000},
    },
    "engine": "E1 model-oracle",
    "technique": ("reference-model oracle (multiset summary with the same double comparisons) against the real histogram "
                  "aggregations under ASan+UBSan: direct Aggregate/ToPoint/Merge/Diff, TemporalMetricStorage with "
                  "hand-built interval maps, and MeterProvider -> View -> Histogram -> delta/cumulative pull readers"),
    "level_text": ("exploration: thousands of seeded (boundary list, value multiset, split into intervals, reader set) cases "
                   "run against the real SDK code; every point handed out (ToPoint, Merge, Diff, reader callbacks) is "
                   "compared with a multiset model. Right level because the property quantifies over inputs, histories "
                   "and configurations of a sequential API and a ten-line model decides each point."),
    "level_note": ("trusts the multiset model in harness/c07_histogram.cc (linear bucket scan, plain sums) and gcc "
                   "ASan/UBSan; covers only generated cases: <=40 boundaries, <=200 non-negative values, <=6 intervals, "
                   "<=3 readers, <=3 attribute sets; int64 values above 2^53 only judged for count/sum/min/max and "
                   "sum(buckets)=count; double sums outside the exactly-representable class compared with 1e-9 "
                   "relative tolerance"),
    "rule": ("case i = one seeded configuration: instrument int64 or double; boundary list from {no config (spec default), "
             "default list via a view, empty, single, 2..40 sorted distinct: integers / multiples of 2^-8 / decimal "
             "fractions / geometric up to 1e300 / denormals / clusters of adjacent doubles, optionally negative "
             "boundaries and 1e300}; record_min_max on (4/5) or off; a multiset of 0..200 non-negative values biased "
             "to 0, values equal to boundaries, nextafter neighbours, midpoints, denormals, DBL_MIN, 1e300, one 1e308, "
             "2^53 and (int64) values up to 2^55; the sequence is split into 1..6 intervals. The case runs (a) one-shot "
             "aggregation, per-interval aggregations folded with Merge (either operand order) and Diff of consecutive "
             "cumulative states, (b) a TemporalMetricStorage fed with hand-built interval maps, (c) a MeterProvider with "
             "a View carrying the HistogramAggregationConfig; in (b) and (c) 1..3 delta/cumulative readers collect after "
             "random intervals and all after the last one, values go to 1..3 attribute sets, and each delta reader's "
             "points are recombined with the SDK's Merge and compared with the one-shot model. A case is non-trivial if "
             "at least one value was recorded; distinct = hash of (type, boundaries, flags, value sequence, k)."),
    "rule_extra": ' Round 2: one record in three for the attribute-less series goes through the attribute-taking overload with an empty list; one history in ten has three readers, one collecting after each of 18-40 non-empty intervals and two lagging.',
    "assumptions": ASSUME_COMMON + [
        "non-negative finite values only (the statement says so); -0.0 is a zero and compared with ==",
        "at most one value above 1e300 magnitude class 1e308 per multiset and int64 totals below 2^62, so that the true sum is finite/representable in every summation order (overflow of the workload's own total is not an SDK defect)",
        "double sums are compared exactly when every value is a multiple of 2^-8 below 2^32, otherwise with 1e-9 relative tolerance; bucket counts, count, min and max are always compared exactly",
        "int64 values above 2^53: bucket placement not judged (int to double conversion rounds), only sum(buckets)=count, count, sum, min, max",
        "min/max of a point with count 0 and points for windows without values are don't-care; the min/max flag of a Diff result is not judged (min/max cannot be recovered by subtraction)",
        "the record_min_max flag of every point (other than Diff results) must equal the configured one: 'enabled' with the flag cleared would silently drop min/max, 'disabled' with the flag set means the view configuration was ignored",
        "Diff is judged as the inverse of Merge on buckets, count and sum although the statement only names combining; it is unreachable for synchronous histograms inside the SDK"],
}
