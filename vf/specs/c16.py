from specs.common import run, memcheck, ASSUME_COMMON

# case layout of harness/c16_b3_jaeger.cc (the same in both tiers, so a case replays under any tier):
# every 25th case is the next slot of the completely enumerated block - enumerated case e = i/25
# works on base e/72 (12 kinds in rotation: six `b3` forms, five `uber-trace-id` forms, one X-B3-*
# set), slot e%72: one byte position x all 256 values (slots 0..67), all one-byte appends (68) /
# prepends (69), all truncations/deletions/duplications (70), all 256 flag bytes x 3 propagators
# (71); every other case is three seeded round trips (one per propagator) plus 6 generated
# carriers.  21 600 quick cases = 12 complete bases + 20 736 random cases; 3 000 000 thorough
# cases = 1 666 bases.
SPEC = {
    "runs": [run("e1-recogniser", "c16_b3_jaeger", "asan", 21600, 3000000, need_lib=False),
             # the shared propagator objects used by 2..8 threads at once (TSan + perturbation shim)
             run("e2-threads", "prop_threads", "tsan", 60, 3000, sq=2, st=8, need_lib=False, params={"prop": "C16"},
                 sources=["harness/prop_threads.cc", "vf/shim/vf_runtime.cc"]),
             memcheck("c16_b3_jaeger", 600, 60000, need_lib=False)],
    "floors": {
        "quick": {"concurrent_cases_ge4_threads": 15, "extracts_repeated_over_scribbled_stack": 100000, "enum_b3_single_byte_mutants_51": 13056, "enum_jaeger_single_byte_mutants_54": 13824,
                  "enum_multi_id_single_byte_mutants": 4096, "enum_multi_sampled_values": 89,
                  "enum_flag_bytes_x_propagators": 768 * 3, "roundtrips": 20000, "roundtrips_reused_carrier": 6000,
                  "roundtrips_b3single": 7000, "roundtrips_b3multi": 7000, "roundtrips_jaeger": 7000,
                  "roundtrips_flags_other_bits": 12000, "inject_wire_judged": 15000,
                  "extract_must_accept": 10000, "extract_undocumented_form": 30000,
                  "extract_b3_precedence_cases": 1800, "extracts_random_bytes": 3500},
        "thorough": {"enum_b3_single_byte_mutants_51": 13056 * 110, "enum_jaeger_single_byte_mutants_54": 13824 * 110,
                     "enum_multi_id_single_byte_mutants": 12288 * 37, "enum_flag_bytes_x_propagators": 768 * 450,
                     "roundtrips": 3000000, "roundtrips_reused_carrier": 900000, "roundtrips_flags_other_bits": 1800000, "inject_wire_judged": 3000000,
                     "extract_must_accept": 1800000, "extract_undocumented_form": 7500000,
                     "extract_b3_precedence_cases": 300000, "extracts_random_bytes": 600000},
    },
    "engine": "E1 model-oracle",
    "technique": ("round-trip equalities and an independent recogniser of the documented B3 / Jaeger header forms as oracle for the "
                  "real header-only propagators under ASan+UBSan; complete enumeration of the single-byte-mutant sub-spaces of "
                  "valid b3 / uber-trace-id / X-B3-* values and of flag bytes x propagators every run, seeded variants and random "
                  "bytes; exact-size non-terminated carrier views killed after each call"),
    "level_text": ("exploration: every run executes the real Inject/Extract of B3Propagator, B3PropagatorMultiHeader and "
                   "JaegerPropagator on (a) all 256 flag bytes x 3 propagators for several id pairs, all 256 byte values at every "
                   "position of valid b3 (51 bytes and the 16-hex, parent and two-field forms) and uber-trace-id (54 bytes and "
                   "variants) headers and of the X-B3-TraceId/SpanId fields, every one-byte X-B3-Sampled value, all one-byte "
                   "appends/prepends/deletions/truncations - enumerated completely - and (b) tens of thousands of seeded "
                   "variants (documented forms, precedence of b3 over X-B3-*, zero ids, odd/short/over-long hex, missing and extra "
                   "fields, case, whitespace, NUL, random bytes). Documented forms must be accepted with exactly their ids and "
                   "sampling decision; every other input must either install non-zero ids or return the caller's context object. "
                   "Right level because the property quantifies over span contexts and byte strings of pure sequential functions."),
    "level_note": ("trusts the recognisers of the documented forms in harness/c16_b3_jaeger.cc and gcc ASan/UBSan; exhaustive only "
                   "for the named single-byte sub-spaces of the generated base headers, everything else is sampled"),
    "rule": ("every 25th case (i%25==0, e=i/25) is enumerated: base e/72 of kind (e/72)%12 (b3: s=1, s=d, one-digit ids s=0, "
             "16-hex trace id, with parent, two fields; uber-trace-id: flags 01, one-digit ids flags 00, random flags, 16-hex "
             "trace id with one-digit flags, 16-hex parent; X-B3-TraceId+SpanId; ids derived from the run seed), slot e%72: "
             "0..67 substitute all 256 byte values at that position (X-B3-* set: slot 48 = every one-byte X-B3-Sampled value, "
             "absent, empty and 10 legacy spellings), 68/69 append/prepend each of 256 bytes, 70 every prefix, suffix, one-byte "
             "deletion and duplication, 71 inject+extract of all 256 flag bytes with each of the 3 propagators. Every other "
             "case: 3 round trips (structured or random ids, weighted flags, 5 kinds of caller context) then 6 generated "
             "carriers (4 B3, 2 Jaeger). The layout does not depend on the tier. A case is non-trivial if it ran at least one "
             "Extract; distinct = distinct hash of all carrier contents the case used."),
    "coverage_extra": {
        "exhaustive_subspaces": [
            {"name": "single-byte substitutions of a valid 51-byte b3 header (51 positions x 256 values)", "size_per_base": 13056,
             "counter": "enum_b3_single_byte_mutants_51", "bases": {"quick": 3, "thorough": 416}},
            {"name": "single-byte substitutions of a valid 54-byte uber-trace-id header (54 positions x 256 values)",
             "size_per_base": 13824, "counter": "enum_jaeger_single_byte_mutants_54", "bases": {"quick": 3, "thorough": 416}},
            {"name": "single-byte substitutions of the other documented b3 / uber-trace-id forms",
             "counter": "enum_b3_single_byte_mutants_other_forms + enum_jaeger_single_byte_mutants_other_forms"},
            {"name": "single-byte substitutions of X-B3-TraceId (32) and X-B3-SpanId (16); all one-byte X-B3-Sampled values",
             "counter": "enum_multi_id_single_byte_mutants, enum_multi_sampled_values"},
            {"name": "all 256 trace-flag bytes x {B3 single, B3 multi, Jaeger} injected and extracted, per base",
             "size_per_base": 768, "counter": "enum_flag_bytes_x_propagators"},
            {"name": "one-byte appends/prepends; every prefix, suffix, one-byte deletion and duplication per base",
             "counter": "enum_one_byte_extensions, enum_cuts"},
        ]},
    "rule_extra": ' Every Extract is executed twice over differently pre-filled stacks and must give the same outcome (extract-deterministic: ids decoded from memory the propagator never wrote are caught). Run e2-threads: case j = 2..8 threads doing 20..200 round trips each through ONE shared B3 single / B3 multi / Jaeger propagator object, under TSan with seeded yields/sleeps; each thread must read back its own ids and sampled bit. Round 2: one round trip in four is extracted into a context that already carries a local span with the ids and flags of the header.',
    "assumptions": ASSUME_COMMON + [
        "must-accept forms: b3 = tid(32|16 lowercase hex)-sid(16)[-(0|1|d)[-parent(16)]]; X-B3-TraceId(32|16)/X-B3-SpanId(16) with "
        "X-B3-Sampled absent|0|1; uber-trace-id = tid(32|16):sid(16):(0|parent16):flags(1-2 lowercase hex, sampled = bit 0); "
        "non-zero ids; a well-formed b3 wins over X-B3-* headers",
        "everything else (odd-length / short / over-long / uppercase hex, other sampling spellings, X-B3-Sampled 'd', empty or "
        "malformed b3 next to X-B3-*, other field counts, whitespace) is judged only by the universal rule: non-zero ids "
        "installed or the caller's context returned, no sanitizer report",
        "flag bits other than 'sampled' are not expected to survive a B3/Jaeger round trip"],
}
