from specs.common import run, memcheck, ASSUME_COMMON

SPEC = {
    "runs": [
        run("e1-model", "c05_span_identity", "asan", 16000, 1000000),
        memcheck("c05_span_identity", 800, 40000),
        run("e2-threads", "c05_span_identity", "tsan", 600, 24000, params={"mode": "threads"},
            timeout={"quick": 900, "thorough": 5400}),
        run("e5-fork", "c05_span_identity", "asan", 48, 960, sq=2, st=4, params={"mode": "fork"}),
    ],
    "floors": {
        "quick": {"foreign_contexts_sparse_ids": 3000, "decisive_spancontext": 500, "decisive_context": 500, "decisive_active": 500,
                  "decisive_explicit_over_active": 500, "sampler_drop_under_sampled_parent": 500,
                  "sampler_sample_under_unsampled_parent": 500, "sampler_trace_state_given": 200,
                  "nonrecording_spans": 200, "exported_checked": 1000, "parent_with_extra_flag_bits": 500,
                  "out_of_order_scope_release": 200, "sampler_trace_state_differs_from_parent": 200,
                  "thread_cases_ge2": 40, "starts_overlapping_another_thread": 2000, "fork_cases_generator_warm": 8},
        "thorough": {"decisive_spancontext": 50000, "decisive_context": 50000, "decisive_active": 50000,
                     "decisive_explicit_over_active": 50000, "sampler_drop_under_sampled_parent": 50000,
                     "sampler_sample_under_unsampled_parent": 50000, "sampler_trace_state_given": 20000,
                     "nonrecording_spans": 20000, "exported_checked": 100000, "parent_with_extra_flag_bits": 50000,
                     "out_of_order_scope_release": 20000, "sampler_trace_state_differs_from_parent": 20000,
                     "thread_cases_ge2": 3000, "starts_overlapping_another_thread": 100000,
                     "fork_cases_generator_warm": 120},
    },
    "engine": "E1 model-oracle",
    "engines_used": ("E1 model-oracle", "E2 history"),
    "technique": ("reference model of StartSpan in lock-step with the real tracer under ASan+UBSan; sampler decisions and "
                  "inputs observed at an instrumented sampler wrapper, exported identity at a recording exporter; the same "
                  "program on 1..8 real threads over one provider under TSan + perturbation shim; fork()ed children for "
                  "the reseed clause"),
    "level_text": ("exploration: thousands of seeded span trees (depth <= 6) mixing the three parenting mechanisms, scope "
                   "nesting with out-of-order release, remote parents with any flags byte and trace state, invalid parents, "
                   "root-marked contexts, scripted and built-in samplers, random and sequential id generators; a small model "
                   "predicts trace id, parent, sampled bit, flag mask and trace state of every new span and what may reach "
                   "the exporter. Right level because the statement quantifies over programs/inputs of a sequential API "
                   "plus per-thread isolation, and a model decides every start."),
    "level_note": ("trusts the StartSpan/runtime-stack model and the test doubles in harness/c05_span_identity.cc, gcc "
                   "ASan/UBSan/TSan; covers only generated trees (<= 70 operations), the default thread-local runtime "
                   "context storage, a simple processor, 1..8 threads, ids drawn directly after fork(). Self-test: 20 scratch "
                   "mutations of tracer.cc/span.cc/random.cc/runtime_context.h (explicit parent overridden by the active "
                   "span, exported parent id from the active span, root mark ignored, parent's trace state preferred over "
                   "the sampler's, dropped spans exported, span id reused per trace, level-1 mask removed, no reseed at "
                   "fork, runtime stack shared by threads, constant seed, ...) each gave exit 1 under a matching key"),
    "rule": ("model run: case i = one provider (sampler drawn from Scripted, ParentBased(Scripted), AlwaysOn, AlwaysOff, "
             "ParentBased(On/Off/Ratio), TraceIdRatioBased(r); random or sequential non-random id generator) and one seeded "
             "program of 8..70 operations: StartSpan with default options / explicit SpanContext (local, remote with any "
             "flags byte and trace state, invalid) / explicit Context (current, empty, local span, remote DefaultSpan, invalid "
             "span, root mark true/false, unrelated keys), Scope open on new, old, remote or invalid spans, Scope release in "
             "or out of order, End, GetCurrentSpan spot checks; then everything is released and the exporter contents are "
             "checked. threads run: the same program on 1..8 threads over one shared provider. fork run: case i = one fork "
             "(main thread, secondary thread, with helper threads drawing ids, nested fork, through Tracer::StartSpan) after "
             "1..40 draws; parent and child(ren) each draw 1000 ids. A case is non-trivial if it started at least one span "
             "(or forked); distinct = distinct hash of the sequence of (options shape, decisive mechanism, flag class, "
             "scope operation)."),
    "rule_extra": ' Round 2: one model case in eight is a deep-nesting case (span depth up to 64, up to 70 open scopes, 60-180 operations).',
    "assumptions": ASSUME_COMMON + [
        "the sampler's decision is what the instrumented wrapper saw the configured sampler return for that StartSpan",
        "an explicit Context that carries a valid span AND is marked root is ambiguous in the statement: either reading "
        "(child of that span, or new root) is accepted and counted as don't-care; the active span is still rejected",
        "whether a RECORD_ONLY span reaches the exporter is not judged (the statement only forbids exporting spans that "
        "are not recorded); if exported its identity must still match",
        "'active span of the calling thread' follows the documented runtime-context stack discipline (Detach of a token "
        "also detaches everything attached above it; a token no longer on the stack changes nothing)",
        "id generators that return zero or repeated ids are outside the statement"],
}
