"""Helpers shared by the per-property spec files."""

ASSUME_COMMON = [
    "gcc 12 sanitizer runtimes (ASan/UBSan/LSan/TSan) and libstdc++ are trusted",
    "the reference model in the harness is trusted; it is small and was cross-checked against the property text",
    "only executions produced by the seeded workload are covered; nothing is claimed about inputs or interleavings not generated",
]


def run(name, harness, flavour, quick, thorough, sq=4, st=16, **kw):
    """One engine run of a check: harness/<harness>.cc built in sanitizer flavour `flavour`,
    `quick`/`thorough` cases split over sq/st shard processes.  Optional keys: need_lib=False for
    header-only targets, params={k:v} (passed as --param), tier_params={tier:{k:v}}, env={...},
    tiers=("thorough",) to restrict, timeout={tier: seconds}, cxxflags=[...], sources=[...]."""
    r = {"name": name, "harness": harness, "sources": ["harness/%s.cc" % harness], "flavour": flavour,
         "cases": {"quick": quick, "thorough": thorough}, "shards": {"quick": sq, "thorough": st}}
    r.update(kw)
    return r
