"""Helpers shared by the per-property spec files."""

ASSUME_COMMON = [
    "gcc 12 sanitizer runtimes (ASan/UBSan/LSan/TSan) and libstdc++ are trusted",
    "the reference model in the harness is trusted; it is small and was cross-checked against the property text",
    "only executions produced by the seeded workload are covered; nothing is claimed about inputs or interleavings not generated",
]


def run(name, harness, flavour, quick, thorough, sq=4, st=16, **kw):
    """One engine run of a check: harness/<harness>.cc built in sanitizer flavour `flavour`,
    `quick`/`thorough` cases split over sq/st shard processes.  Optional keys: need_lib=False for
    header-only targets, params={k:v} (passed as --param), tier_params={tier:{k:v}}, env={...},
    tiers=("thorough",) to restrict, timeout={tier: seconds}, cxxflags=[...], sources=[...],
    wrapper="memcheck" (run the executable under valgrind memcheck; use flavour "plain")."""
    r = {"name": name, "harness": harness, "sources": ["harness/%s.cc" % harness], "flavour": flavour,
         "cases": {"quick": quick, "thorough": thorough}, "shards": {"quick": sq, "thorough": st}}
    r.update(kw)
    return r


def memcheck(harness, quick, thorough, **kw):
    """The same harness, uninstrumented, under valgrind memcheck on a reduced case budget: reports every branch
    or address that depends on a value nobody initialised (which ASan/UBSan do not see) as a violation key
    memcheck:<kind>/<innermost SDK function>."""
    kw.setdefault("sq", 2)
    kw.setdefault("st", 8)
    return run(kw.pop("name", "memcheck"), harness, "plain", quick, thorough, wrapper="memcheck", **kw)
