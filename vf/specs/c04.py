from specs.common import run, memcheck, ASSUME_COMMON

_ALTS = ["bool", "int32", "int64", "uint32", "double", "cstring", "string_view", "span_bool", "span_int32",
         "span_int64", "span_uint32", "span_double", "span_string_view", "uint64", "span_uint64", "span_uint8"]


def _floors(scale):
    f = {"alt_exported_%s" % a: 50 * scale for a in _ALTS}
    f.update({
        "programs_ops_after_end": 200 * scale,
        "programs_ge2_processors": 200 * scale,
        "dupkey_type_change": 100 * scale,
        "implicit_end": 100 * scale,
        "second_end": 100 * scale,
        "events_exported": 1000 * scale,
        "links_exported": 200 * scale,
        "empty_arrays_exported": 100 * scale,
        "large_arrays_exported": 20 * scale,
        "empty_strings_exported": 30 * scale,
        "embedded_nul_strings_exported": 15 * scale,
        "end_explicit": 200 * scale,
        "start_explicit": 200 * scale,
        # start given on one clock only (C04-w4-1); seed 1: 285 / 280 / 115 / 91
        "start_system_only": 80 * scale,
        "start_steady_only": 80 * scale,
        "verified_start_system_only_explicit_end": 25 * scale,
        "verified_start_steady_only_explicit_end": 25 * scale,
        # TracerProvider::AddProcessor while spans are open (C04-w4-2); seed 1: 1299 / 307 / 1226 / 566
        "processors_added_while_span_open": 400 * scale,
        "processors_added_while_span_open_to_single": 90 * scale,
        "spans_verified_open_across_add_processor": 400 * scale,
        "spans_verified_started_after_add_processor": 150 * scale,
        "retained_rechecked": 300 * scale,
        # provider destroyed (no ForceFlush/Shutdown, all tracer handles dropped) with ended spans of two tracers still
        # queued in a batch processor; smallest values at seeds {1,2,3,7,42}: 253 / 1031 / 513
        "provider_teardowns_with_queued_spans": 80 * scale,
        "spans_exported_at_provider_teardown": 300 * scale,
        "spans_exported_at_provider_teardown_tracer0": 150 * scale,
        # concurrency clause
        "conc_ops_before_end": 2000 * scale,
        "conc_ops_after_end": 2000 * scale,
        "conc_ops_overlapping_end": 500 * scale,
        "conc_cases_ge2_processors": 100 * scale,
        "conc_two_enders": 40 * scale,
    })
    return f


_thorough = _floors(50)
_thorough["links_added_after_start"] = 5000   # Span::AddLink / AddLinks (ABI v2 run)

SPEC = {
    "runs": [
        run("e1-model", "c04_span_export", "asan", 3000, 300000, params={"mode": "seq"}),
        memcheck("c04_span_export", 400, 20000, params={"mode": "seq"}),
        run("e2-concurrent-end", "c04_span_export", "tsan", 1000, 60000, params={"mode": "conc"}),
        run("e1-model-abi2", "c04_span_export", "asan-abi2", 0, 60000, params={"mode": "seq"}, tiers=("thorough",)),
    ],
    "floors": {"quick": _floors(1), "thorough": _thorough},
    "engine": "E1 model-oracle",
    "engines_used": ("E1 model-oracle", "E2 history"),
    "technique": ("reference-model oracle in lock-step with the real tracing pipeline under ASan+UBSan+LSan (generated span "
                  "programs, caller buffers killed after every call, deep copy through the SpanData getters at Export time); "
                  "real-thread mutate-while-End histories under TSan + perturbation shim judged from call/return stamps"),
    "level_text": ("exploration: thousands of seeded span programs run against the real TracerProvider -> "
                   "MultiSpanProcessor -> simple/batch/custom processors; what each processor's exporter receives is "
                   "compared field by field with an independent model span, and sanitizers watch every ownership slip. "
                   "Right level because the property quantifies over operation sequences, value alternatives and "
                   "processor configurations of a deterministic API, and a small model decides every export."),
    "level_note": ("trusts the model span and the canonical value encoding in vf/include/vf_c04_*.h, gcc ASan/UBSan/TSan; "
                   "covers only generated programs (<=3 interleaved spans, <=40 calls before End, key pool <=6 + fresh "
                   "keys, arrays <=4096) and the schedules the 16-core host + shim produced; third-party recordables and "
                   "the exporters under /repo/exporters are not reached"),
    "rule": ("seq: case i = one seeded provider (1..4 processors drawn from simple, batch(queue 4..64, delay 1..20 ms), "
             "custom logging-recordable processor; some added with AddProcessor; 1..2 tracers) and 1..3 interleaved span "
             "programs: StartSpan through 5 API overloads (kind, start explicit on both clocks / on the system clock only / "
             "on the steady clock only (back-dated, tiny, ahead of the clock) / default, parent, 0..6 "
             "attributes, 0..4 links), 0..40 calls from {SetAttribute over all 16 AttributeValue alternatives, 4 AddEvent "
             "overloads, SetStatus, UpdateName, AddLink/AddLinks in ABI v2}, End with or without options or dropping the "
             "last reference, then 0..8 calls on the ended span incl. End again. Every key, string, array, container and "
             "name is an exact-size heap block scribbled or freed right after the call. After End (+ForceFlush when a batch "
             "processor is present) every processor must have exactly one copy equal to the model; retained recordables "
             "are re-read at the end of the case; counts are re-checked after Shutdown. In a third of the cases 1..2 more "
             "processors are added with TracerProvider::AddProcessor at seeded points while at least one span is open: every "
             "processor configured when a span was started must still receive it exactly once and complete, the new processor "
             "must receive every span started after it was added and nothing of spans ended before. Half of the cases with two tracers and a "
             "batch processor (then built with a 3 s schedule delay, i.e. exporting on ForceFlush/Shutdown/"
             "destruction unless a case takes that long; a copy exported by the timer is judged alike and counted as "
             "teardown_spans_exported_early) end with 1..2 more spans per tracer (0..6 calls each) that are ended but NOT flushed: all span and "
             "tracer handles are dropped and the provider is destroyed without ForceFlush/Shutdown; the copies exported during "
             "that tear-down drain (the exporter reads name/version/schema of the scope and the resource attributes at Export "
             "time) are compared with the model like any other, a missing or duplicate copy is class "
             "'<kind>:<count>:provider-teardown'. conc: one span, 2..4 mutator "
             "threads with 4..30 calls each on thread-private keys/event names while 1..2 threads call End when a seeded "
             "share of the calls is done; per-thread effects must equal those of a prefix of its calls that contains every "
             "call returned before End was called and none called after End returned. A case is non-trivial if at least one "
             "span was exported and matched; distinct = hash of processor kinds + call sequence."),
    "assumptions": ASSUME_COMMON + [
        "NaN attribute values are not generated (NaN != NaN makes 'exactly the recorded value' undefined)",
        "status: last SetStatus wins as documented in api/include/opentelemetry/trace/span.h; the description is judged only "
        "when the final code is Error (the OpenTelemetry specification lets an SDK drop it for Ok/Unset) - counted as "
        "status_description_dontcare",
        "a start given on one clock only (StartSpanOptions asks for both, but the property quantifies over every combination "
        "of start/end options): judged by the reading that loses nothing the caller gave - the given clock is taken as is, "
        "the other one defaults to 'now' on its own; start time = the given system time, or "
        "within the harness' system-clock reads around StartSpan; duration = end - start on the steady clock with every "
        "default side bracketed by the harness' steady-clock reads around StartSpan / End (only the order of clock reads, "
        "no tolerance); an explicit timestamp of exactly 0 "
        "is indistinguishable from 'not set' in the API and is not generated for start/end",
        "whether a processor added while a span is open receives that span is not judged "
        "(open_span_[not_]seen_by_added_processor_dontcare); AddProcessor is only called from the thread that runs the "
        "spans (seq mode)",
        "default timestamps are judged by bracketing with the harness' own reads of the same clock immediately before and "
        "after the call",
        "link contexts are always valid (the specification allows dropping links with an invalid context); attribute keys are "
        "never empty",
        "duplicate keys inside one event/link attribute container are judged last-wins like span attributes (the API "
        "documents in-order processing for KeyValueIterable arguments)",
        "concurrency clause: calls overlapping End are free; name/status may be any call that can be last under some "
        "admissible linearisation"],
}
