from specs.common import run, memcheck, ASSUME_COMMON

SPEC = {
    "runs": [run("e1-model", "c08_series_cardinality", "asan", 5000, 400000, need_lib=True,
                 tier_params={"quick": {"big_every": 500}, "thorough": {"big_every": 1000}}),
             memcheck("c08_series_cardinality", 300, 15000, tier_params={"quick": {"big_every": 500}, "thorough": {"big_every": 1000}})],
    "floors": {
        "quick": {"permutation_pairs": 5000, "equal_pairs_after_filtered_out_change": 1000, "unequal_pairs": 4000,
                  "unequal_pairs_type-changed": 800, "maps_via_process": 2000,
                  "cases_over_limit_cycle1": 400, "cases_over_limit_later_cycle": 400,
                  "cases_cumulative_multicycle_overflow": 200, "collects_merged_window": 1500,
                  "collects_with_overflow_series": 1500, "cases_default_limit_2200_sets": 3,
                  "series_cases_meter": 350, "series_cases_histogram": 200, "records_without_attributes": 5000},
        "thorough": {"permutation_pairs": 400000, "equal_pairs_after_filtered_out_change": 80000, "unequal_pairs": 300000,
                     "cases_over_limit_cycle1": 30000, "cases_over_limit_later_cycle": 30000,
                     "cases_cumulative_multicycle_overflow": 15000, "collects_merged_window": 100000,
                     "collects_with_overflow_series": 100000, "cases_default_limit_2200_sets": 100,
                     "series_cases_meter": 30000},
    },
    "engine": "E1 model-oracle",
    "technique": ("reference-model oracle (filtered, sorted, last-wins attribute map with type-and-value equality; per-window "
                  "series totals) in lock-step with FilteredOrderedAttributeMap, FilteringAttributesProcessor, "
                  "SyncMetricStorage (explicit cardinality limits) and MeterProvider -> View -> Counter -> delta/cumulative "
                  "pull readers, under ASan+UBSan with exact-size unterminated caller buffers killed after every call"),
    "level_text": ("exploration: thousands of seeded attribute lists (all 16 AttributeValue alternatives, permutations, "
                   "overridden duplicates, filtered-out noise keys) and measurement histories over growing pools of "
                   "attribute sets run against the real SDK; equality/hash of every built map and the series count, "
                   "totals and overflow series of every collection are compared with a model. Right level because the "
                   "property quantifies over inputs, histories and configurations of a sequential API."),
    "level_note": ("trusts the model in harness/c08_series_cardinality.cc (std::map of canonical strings, window sums) and gcc "
                   "ASan/UBSan; covers only generated cases: <=9 keys per pool, <=16 sets (2200 in the default-limit "
                   "cases), limits {1,2,3,4,10,2000}, <=4 cycles, <=3 readers; whether the limit counts the overflow series "
                   "(limit-1 vs limit regular series) is not judged"),
    "rule": ("case i = two equality programs + one series history (+ one 2200-set default-limit history every 500th case, "
             "every 1000th in the thorough tier). Equality program: a pool of 2..9 keys (prefixes/extensions of one "
             "another, high bytes, embedded NUL, 100..300 bytes), a processor from {none, DefaultAttributesProcessor, "
             "allow-list empty/subset/superset}, a base list of 0..8 key/value pairs with duplicates over all 16 "
             "AttributeValue alternatives (empty strings, embedded NUL, +-0.0, denormals, +-inf, int extremes, empty and "
             "4096-element arrays; NaN excluded), then 3..6 variants: the same map re-presented (random order, overridden "
             "duplicates, filtered-out noise keys) or one mutation (value changed, same number in another type, key "
             "added/removed/renamed); each map is built by the FilteredOrderedAttributeMap constructor or by "
             "process(); stored content, ==, GetHash and the hash functors are compared with the model. Series history: "
             "SyncMetricStorage (3/4; sum or histogram aggregation; explicit limit from {1,2,3,4,10} or the default) or "
             "the Meter API (1/4; default limit), int64 or double values, 1..3 delta/cumulative readers, 1..4 cycles, "
             "a pool of attribute sets biased to exceed the limit and revealed cycle by cycle; every measurement "
             "re-presents its set; after each cycle a random non-empty subset of readers (all after the last) "
             "collects and the reported series are compared with the window model. A case is non-trivial if it built "
             "at least one map and ran one collection; distinct = hash of the canonical maps / configuration, pool and "
             "reveal schedule."),
    "assumptions": ASSUME_COMMON + [
        "NaN attribute values are excluded (NaN != NaN makes 'equal attribute sets' undefined)",
        "attribute sets that differ only in integer width/signedness of an equal number, in the sign of a zero, or in the element type of an empty array are don't-care (counted, not judged); const char* and string_view values with equal bytes are the same value",
        "series count is judged as <= limit; whether the overflow series is one of the `limit` series or extra to limit-1 regular ones is don't-care: with exactly `limit` distinct sets both an overflow series and none are accepted",
        "when an overflow series is present a regular series may hold any part (<=) of its set's total (the statement does not say which measurements are 'the excess'); without an overflow series every series must equal its set's total exactly",
        "attribute keys are non-empty and never equal to otel.metrics.overflow; measurement values are positive integers (or multiples of 0.25) so totals are exact",
        "if the start-up probe (run in a child process) finds the allow-list lookup reading past an exact-size key view, that sanitizer report is keyed from the child's stderr and keys handed over under an allow-list carry a terminator behind the view for the rest of the run (counter filter_key_views_terminated), so that one known defect does not abort every filtered case"],
}
