from specs.common import run, ASSUME_COMMON

# one case = 8 environment strings + 2 merges + 2 detector strings, every ~20th case one forked
# Resource::Create child (4..8 Create calls), every ~4th case one provider pipeline
SPEC = {
    "runs": [run("e1e5-resource-env", "c18_resource_env", "asan", 2500, 200000, need_lib=True)],
    "floors": {
        "quick": {"env_strings": 5000,
                  "uint_must_accept": 300, "uint_must_default": 600, "uint_leading_minus_wraps_into_32bit": 100,
                  "dur_must_accept": 300, "dur_must_default": 500, "dur_overflow_digit_runs": 100,
                  "dur_overflow_unit_conversions": 30,
                  "bool_must_accept": 300, "bool_must_default": 200, "float_must_accept": 300, "float_must_default": 200,
                  "string_must_accept": 300, "stale_errno_on_must_accept": 500,
                  "merges": 1500, "merges_with_shared_keys": 800, "merge_schema_both_set": 150,
                  "merge_shared_key_type_changes": 400,
                  "detect_lists_canonical": 300, "detect_lists_hard_malformed": 300, "detect_lists_repeated_key": 100,
                  "detect_service_name_over_attributes": 150,
                  "create_children": 30, "create_calls": 200, "create_caller_over_env_keys": 30,
                  "create_env_over_default_keys": 8, "create_fallback_service_name": 20,
                  "create_calls:process.executable.name-non-string": 8,
                  "provider_spans": 100, "provider_logs": 100, "provider_metric_batches": 100,
                  "provider_metric_batches_empty_cycle": 30},
        "thorough": {"env_strings": 480000, "uint_must_accept": 24000, "uint_leading_minus_wraps_into_32bit": 8000,
                     "dur_must_accept": 24000, "dur_overflow_digit_runs": 8000, "dur_overflow_unit_conversions": 2400,
                     "bool_must_accept": 24000, "float_must_accept": 24000, "stale_errno_on_must_accept": 40000,
                     "merges": 120000, "merges_with_shared_keys": 64000,
                     "detect_lists_canonical": 32000, "detect_service_name_over_attributes": 12000,
                     "create_children": 2800, "create_calls": 16000, "create_caller_over_env_keys": 2400,
                     "create_calls:process.executable.name-non-string": 640,
                     "provider_spans": 8000, "provider_logs": 8000, "provider_metric_batches": 8000,
                     "provider_metric_batches_empty_cycle": 2000},
    },
    "engine": "E1 model-oracle",
    "engines_used": ["E1 model-oracle", "E5 process-per-case"],
    "technique": ("reference-model oracles in lock-step with the real Resource / detector / environment readers under "
                  "ASan+UBSan; setenv() and errno manipulated in-process; forked child processes for Resource::Create "
                  "(static detector cache) and for overflow-prone duration strings"),
    "level_text": ("exploration: seeded environment strings (grammar mutator over the documented syntaxes, boundary numbers, "
                   "20-40 digit runs, signs, whitespace, junk) are fed through setenv() to the real "
                   "Get{Bool,Uint,Duration,Float,String}EnvironmentVariable readers with errno preset to 0 or a stale "
                   "ERANGE/EINVAL and compared with an independent three-valued parser; attribute-map pairs over all 15 "
                   "value alternatives are merged by the real Resource::Merge and by a map model; OTELResourceDetector "
                   "and Resource::Create (in forked children, one environment each) are compared with an independent "
                   "parser of the key=value list and the precedence default < environment < caller; providers of all "
                   "three signals are checked at harness exporters/readers. Right level because every clause quantifies "
                   "over inputs of sequential pure functions that a small model decides."),
    "level_note": ("trusts the three-valued parsers and the map model in harness/c18_resource_env.cc, libstdc++ "
                   "from_chars<float> as the float reference, gcc ASan/UBSan; only generated strings/maps are covered; "
                   "environment changes after the first Resource::Create of a process are outside the statement"),
    "rule": ("case i = 8 reader evaluations (one generated string, one reader, errno preset; 1 in 40 on an unset "
             "variable), 2 merges (a, b with forced key overlap incl. service.name / process.executable.name of every "
             "value type, schema URLs none/a/b; plus self/empty/default/chain variants), 2 detector evaluations "
             "(OTEL_RESOURCE_ATTRIBUTES list with well-formed, repeated, '='-less, empty, padded, percent, multi-'=' "
             "tokens x OTEL_SERVICE_NAME unset/empty/set), with probability 1/20 one forked child that sets the "
             "environment and makes 4..8 Resource::Create calls with caller maps overlapping the environment and the "
             "SDK defaults, with probability 1/4 one Tracer/Logger/MeterProvider pipeline built with an explicit "
             "resource. Every sub-evaluation is non-trivial; distinct = distinct hash of (reader, string) / of both "
             "maps and schema URLs / of both variable values / of the Create inputs."),
    "assumptions": ASSUME_COMMON + [
        "three-valued reader oracle: must-accept = true/false in any case; [0-9]+ <= 2^32-1; [0-9]+(ns|us|ms|s|m|h)? non-zero with a nanosecond count that fits int64; decimal floats (optional '-', fraction, exponent) in the normal float range; any non-empty string for the string reader",
        "must-default = empty, non-numeric, trailing junk, sign or space inside the number, > 32 bit, > 64 bit, a leading '-' before a non-zero number, overflowing digit runs or unit conversions; judged on the out-parameter (false / 0 / 0.0) and, for durations, on the return value (unset); the boolean 'exists' flag of the other readers is counted, not judged",
        "don't-care (counted, never judged): leading whitespace or '+', trailing whitespace, '-0', zero durations, unit spelled in another case, inf/nan/hex floats, float results at or below FLT_MIN (underflow/subnormal), whitespace-padded 'true'",
        "a duration without unit may be read as seconds (documented behaviour of this SDK) or milliseconds (specification)",
        "a crash or sanitizer report is a violation for every string, including don't-care ones",
        "OTEL_RESOURCE_ATTRIBUTES: well-formed pairs must come out exactly; tokens without '=' and empty tokens must contribute nothing; tokens with edge whitespace, '%', several '=', empty key or value, or bytes outside 0x21..0x7e may be absent or appear in any of the raw/trimmed/percent-decoded readings; if any token is not well-formed the whole variable may be discarded; a repeated key may carry any one of its values",
        "Resource::Create fallback service.name is only required to be a string starting with 'unknown_service'",
        "provider clause: the resource read at the exporter/reader must equal (attributes and schema URL) the resource the provider was built with; pointer identity with GetResource() is counted, not required",
    ],
}
