from specs.common import run, memcheck, ASSUME_COMMON

SPEC = {
    "runs": [
        # sequential histories against the metrics reference model M
        run("e1-histories", "c06_counter_conservation", "asan", 6000, 300000, need_lib=True),
        memcheck("c06_counter_conservation", 300, 15000),
        # recorder threads racing collector threads, TSan + perturbation shim
        run("e2-record-vs-collect", "c06_counter_conservation", "tsan", 400, 30000, need_lib=True,
            params={"mode": "conc"}),
    ],
    "floors": {
        "quick": {"hist_single_delta_reader_fastpath": 300, "hist_multi_reader_mixed": 300, "hist_second_handle": 300,
                  "hist_second_view_stream": 300, "conc_runs_collect_overlapped_ge10_adds": 50,
                  "hist_starved_reader": 200, "starved_reader_delta_points_checked": 300,
                  "starved_reader_cumulative_points_checked": 300,
                  "hist_same_name_different_unit": 250, "hist_same_name_different_description": 120},
        "thorough": {"hist_single_delta_reader_fastpath": 15000, "hist_multi_reader_mixed": 15000,
                     "hist_second_handle": 15000, "hist_second_view_stream": 15000,
                     "conc_runs_collect_overlapped_ge10_adds": 5000,
                     "hist_starved_reader": 10000, "starved_reader_delta_points_checked": 15000,
                     "starved_reader_cumulative_points_checked": 15000,
                     "hist_same_name_different_unit": 12000, "hist_same_name_different_description": 6000},
    },
    "engine": "E1 model-oracle",
    "engines_used": ("E1 model-oracle", "E2 history"),
    "technique": ("reference-model oracle (per stream and filtered attribute set a list of (logical time, value), per reader "
                  "a cursor) in lock-step with the real MeterProvider/Meter/instruments/readers under ASan+UBSan; "
                  "real-thread record-versus-collect races under TSan with the perturbation shim"),
    "level_text": ("exploration: seeded histories of instrument creation (also the same instrument again), Add with "
                   "attribute sets in random key order, handle destruction and Collect by 1..4 pull readers of mixed "
                   "temporality over 0..3 views and 1..3 meters; every collection is compared point by point with the "
                   "model (delta = everything since that reader's cursor, cumulative = everything since start, delta "
                   "intervals abut, cumulative intervals start at the single SDK start); collected MetricData are matched to model "
                   "streams by scope and by name, unit and description of their instrument descriptor. Every ~8th history is "
                   "directed: one reader collects 34..60 times in a row with Adds in between while the other readers do not "
                   "collect, then they do; three in ten hold two different instruments with the same name in one meter "
                   "(different unit, or different description). Concurrent variant: recorder "
                   "threads race one collector thread per reader; conservation after a final quiescent collect plus an "
                   "in-flight bound on every running total. Right level because the property quantifies over histories, "
                   "configurations and schedules of a stateful pipeline and a small model decides every collection."),
    "level_note": ("trusts the model in vf/include/vf_metrics_model.h and harness/c06_counter_conservation.cc, gcc "
                   "ASan/UBSan/TSan; covers only generated histories (<=200 steps, <=5 instruments, <=6 attribute sets, "
                   "<=4 readers, <=3 views, <=3 meters, a reader lags at most 60 collections behind another; same-name "
                   "pairs only sequentially) and the schedules the perturbed threads produced; per-interval "
                   "attribution is only checked sequentially. Mutation self-test (scratch worktree, on top of the three "
                   "proposed fixes): 10/10 breaking edits exit 1 - unreported lists cleared for every collector, Merge "
                   "replaced by overwrite, delta map swapped outside the lock (TSan + lost updates), cumulative restarted "
                   "after a collect, LongSum Merge sign slip, negative Add accepted on a monotonic counter, delta start "
                   "never advanced on the multi-reader path, Record without the lock, second handle given a fresh storage "
                   "again, delta stashed only for the calling reader"),
    "rule": ("sequential case i = one seeded configuration (1..4 readers each delta/cumulative per instrument type, 1..3 "
             "meters, 0..3 views: rename / allow-list filter / second stream for one instrument, 1..4 instruments "
             "Counter|UpDownCounter x uint64/int64|double, pool of 1..6 attribute maps) and a history of 3..200 steps over "
             "{create, create the same instrument again, Add(value, attrs) through any live handle and any Add overload, "
             "destroy a handle, Collect(reader)}, followed by one collection per reader. Decided by the case seed: one case "
             "in eight is a starved-reader history (>=2 readers; 3..25 random steps; then one reader collects 34..60 times in "
             "a row, 1..3 Adds - one gap in ten none - before each collection, while the others - marked starved in the "
             "configuration - do not collect; then each starved reader collects; then 0..20 random steps; "
             "hist_starved_reader counts those in which a starved reader's collection after the burst judged a set recorded "
             "during the burst); three cases in ten add to the configuration a different instrument with the name, meter, "
             "type and value type of one of the others but another unit (2 in 10) or another description (1 in 10): the "
             "pair is created first, in either order, and every view that selects one by name selects both "
             "(hist_same_name_different_unit/_description count the histories in which both recorded and a collection "
             "followed). Values: integers below 2^40; "
             "doubles that are multiples of 2^-10 below 2^30 (exact sums); a separate class of arbitrary doubles compared "
             "with 1e-9 relative to the sum of magnitudes. Non-trivial = at least one Add followed by a Collect; distinct = "
             "hash of the operation/argument sequence. Concurrent case = 1..4 recorder threads x 40..600 planned Adds "
             "racing one collecting thread per reader (1..3), optionally each recorder creating its own handle of the same "
             "instruments, then a quiescent collect per reader."),
    "rule_extra": ' Round 2: one view in six is a Drop-aggregation view (it matches, so no default stream, and reports nothing); per reader and stream the chain of delta intervals handed out (MetricData with or without points) must abut strictly.',
    "assumptions": ASSUME_COMMON + [
        "negative Adds on a monotonic Counter are ignored by specification; the model ignores them too (counted)",
        "NaN/inf are not recorded; totals stay below 2^62",
        "both readings of 'abutting' are accepted for a delta point: start == end of that reader's previous point for the attribute set, or == the time of one of that reader's later collections that carried no point for it; the first point starts at SDK start",
        "a delta reader that receives no point for a set whose interval sum is zero is accepted; a zero-valued point for a set that was never recorded is don't-care",
        "SDK start is the single value observed in start_ts, bracketed by harness clock reads around the MeterContext constructor; system_clock is assumed not to step backwards during a case",
        "attribute keys and instrument names are handed over NUL-terminated (the allow-list lookup and the name validator read data() as a C string: that is C08/C19's finding), attribute string values are exact-size unterminated buffers scribbled or freed after the call",
        "the violation class comes from the configuration: same-name-different-unit | same-name-different-description when the instrument is one of a same-name pair of which both have been created, else second-handle / second-view-stream (/both) when the instrument has them, otherwise single-reader-fastpath | single-reader-cumulative | multi-reader-delta | multi-reader-cumulative; ':starved-reader' is appended for the readers that the configuration of a starved-reader history keeps from collecting during the burst",
        "instrument identity is (meter, name, unit, description, type, value type): Create with an identical descriptor is 'the same instrument again' (another handle), a descriptor that differs in the unit or in the description is a different instrument whose measurements form their own streams; a MetricData belongs to the model stream with the same scope and the same name_, unit_ and description_ in its instrument_descriptor (no view of this harness sets a description)"],
}
