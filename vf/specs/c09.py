from specs.common import run, memcheck, ASSUME_COMMON

# case layout of harness/c09_w3c.cc (the same in both tiers, so a case replays under any tier):
# every 33rd case is the next slot of the completely enumerated block - enumerated case e = i/33
# works on base header e/68 (8 kinds in rotation), slot e%68: one byte position x all 256 values
# (slots 0..63), all one-byte appends (64) / prepends (65), all truncations/deletions/duplications
# (66), inject sweep over all 256 flag bytes (67); every other case is one seeded inject round trip
# plus 8 generated extract inputs.  20 500 quick cases = 9 complete bases (4 of them plain
# version-00 headers) + 19 878 random cases; 2 500 000 thorough cases = 1 114 bases.
SPEC = {
    "runs": [run("e1-recogniser", "c09_w3c", "asan", 20500, 2500000, need_lib=False),
             # the shared propagator objects used by 2..8 threads at once (TSan + perturbation shim)
             run("e2-threads", "prop_threads", "tsan", 60, 3000, sq=2, st=8, need_lib=False, params={"prop": "C09"},
                 sources=["harness/prop_threads.cc", "vf/shim/vf_runtime.cc"]),
             memcheck("c09_w3c", 1500, 75000, need_lib=False)],
    "floors": {
        # the enumerated block is deterministic: 4 of the 9 quick bases are plain version-00 headers
        "quick": {"concurrent_cases_ge4_threads": 15, "extracts_repeated_over_scribbled_stack": 20000, "enum_single_byte_mutants_v00": 14080, "enum_positions_v00": 55, "enum_flag_bytes_injected": 512,
                  "enum_one_byte_extensions": 1024, "roundtrips": 6000, "roundtrips_flags_other_bits": 3000,
                  "injects_with_tracestate": 3000, "injects_invalid_context": 1200,
                  "roundtrip_tracestate_value_with_leading_blank": 1500,
                  "extract_must_accept": 10000, "extract_must_reject": 30000,
                  "extract_accept_higher_version": 3000, "extract_accept_uppercase_hex": 300,
                  "extract_accept_surrounding_ows": 1500, "extracts_random_bytes": 3000,
                  "reject:version-ff": 300, "reject:zero-trace-id": 300, "reject:zero-span-id": 250,
                  "reject:v00-length>55": 1000, "reject:length<55": 3000, "extract_tracestate_judged": 5000},
        "thorough": {"enum_single_byte_mutants_v00": 14080 * 125, "enum_flag_bytes_injected": 256 * 300,
                     "enum_one_byte_extensions": 512 * 300, "roundtrips": 750000, "roundtrips_flags_other_bits": 450000,
                     "injects_with_tracestate": 350000, "injects_invalid_context": 150000,
                     "roundtrip_tracestate_value_with_leading_blank": 150000,
                     "extract_must_accept": 1500000, "extract_must_reject": 4000000,
                     "extract_accept_higher_version": 750000, "extract_accept_surrounding_ows": 250000,
                     "extracts_random_bytes": 450000, "reject:version-ff": 125000, "reject:zero-trace-id": 100000,
                     "reject:zero-span-id": 40000, "reject:v00-length>55": 500000, "extract_tracestate_judged": 1500000},
    },
    "engine": "E1 model-oracle",
    "technique": ("independent three-valued recogniser of the W3C traceparent grammar as oracle for the real header-only "
                  "HttpTraceContext under ASan+UBSan; complete enumeration of the single-byte-mutant sub-space of several valid "
                  "headers every run, seeded structured variants and random bytes; exact-size non-terminated carrier views killed "
                  "after each call"),
    "level_text": ("exploration: every run executes the real Inject/Extract on (a) all 256 byte values at every position of "
                   "valid traceparent headers (plain version 00, minimal ids, mixed case, higher versions with and without "
                   "suffix, OWS-wrapped), all one-byte appends/prepends/deletions/truncations of them and all 256 flag bytes on "
                   "the inject side - enumerated completely - and (b) tens of thousands of seeded variants (truncation, "
                   "extension, version rules, zero ids, case, whitespace, NUL, separators, field-length slips, non-ASCII, "
                   "random bytes). Each result is compared with a recogniser written from the property text; refusals must "
                   "return the caller's context object. Right level because the property quantifies over byte strings and span "
                   "contexts of a pure sequential function and a 60-line recogniser decides every input."),
    "level_note": ("trusts the recogniser and the list parser in harness/c09_w3c.cc and gcc ASan/UBSan; exhaustive only for the "
                   "named single-byte sub-spaces of the generated base headers, everything else is sampled; TraceState "
                   "internals are C14's"),
    "rule": ("every 33rd case (i%33==0, e=i/33) is enumerated: base header e/68 (8 kinds in rotation: plain version 00, "
             "one-digit ids, mixed-case, higher version 55 bytes, higher version + '-suffix', OWS-wrapped, plain version 00, "
             "version fe; ids derived from the run seed), slot e%68: slots 0..63 substitute all 256 byte values at that "
             "position, 64/65 append/prepend each of 256 bytes, 66 every prefix, suffix, one-byte deletion and duplication, 67 "
             "inject + round trip with all 256 flag bytes. Every other case: one inject round trip (structured or random ids, "
             "weighted flags, trace state of 0..32 members, caller context of 5 kinds), every fourth case an invalid context, "
             "then 8 generated extract inputs. The layout does not depend on the tier. A case is non-trivial if it ran at "
             "least one Extract or one Inject of a valid context; distinct = distinct hash of all header bytes (and flag "
             "bytes) the case used."),
    "coverage_extra": {
        "exhaustive_subspaces": [
            {"name": "single-byte substitutions of a valid 55-byte version-00 traceparent (55 positions x 256 values)",
             "size_per_base": 14080, "counter": "enum_single_byte_mutants_v00", "bases": {"quick": 4, "thorough": 418}},
            {"name": "single-byte substitutions of mixed-case / higher-version / suffixed / OWS-wrapped valid headers",
             "counter": "enum_single_byte_mutants_other_bases"},
            {"name": "one-byte appends and prepends (256 values each) per base", "counter": "enum_one_byte_extensions"},
            {"name": "every prefix, suffix, one-byte deletion and duplication per base", "counter": "enum_cuts"},
            {"name": "all 256 trace-flag bytes injected and round-tripped per base", "counter": "enum_flag_bytes_injected"},
        ]},
    "rule_extra": ' Every Extract is executed twice over differently pre-filled stacks and must give the same outcome (extract-deterministic). Run e2-threads: case j = 2..8 threads doing 20..200 inject/extract round trips each (random ids, flags, trace state) through ONE shared HttpTraceContext object, under TSan with seeded yields/sleeps; each thread must read back its own context. Round 2: one round trip in four is extracted into a context that already carries a local span with the ids and flags of the header.',
    "assumptions": ASSUME_COMMON + [
        "must-accept = version != ff, version 00 exactly 55 bytes, higher versions 55 bytes or a '-' and visible ASCII after "
        "the flags, non-zero ids; hex digits of either case and surrounding blanks/tabs are accepted shapes (DESIGN C09); "
        "their keys carry ':uppercase-hex' / ':surrounding-ows' so they can be told apart",
        "don't-care (counted, not judged): a higher-version header with trailing bytes not introduced by '-', or with "
        "non-visible bytes in the suffix; interior whitespace whose removal would give a well-formed header; CR/LF/VT/FF "
        "around the value; the trace-state entries when the tracestate header is not a strictly valid list",
        "the traceparent verdict does not depend on the tracestate header"],
}
