#!/usr/bin/env python3
"""Print the DESIGN.md table of seeded changes from /verif/seeded/*/meta.json."""
import glob
import json
import os

VERIF = os.path.dirname(os.path.dirname(os.path.abspath(__file__)))
rows = []
for d in sorted(glob.glob(os.path.join(VERIF, "seeded", "*"))):
    try:
        m = json.load(open(os.path.join(d, "meta.json")))
    except (OSError, ValueError):
        continue
    v = m.get("verification", {})
    keys = v.get("recheck_keys") or v.get("check_keys") or []
    caught = v.get("recheck_caught", v.get("caught"))
    other = v.get("caught_by_other_check")
    first = "yes" if v.get("caught") else ("no -> strengthened, now yes" if v.get("recheck_caught") else "NO")
    if v.get("caught") and v.get("strengthened_before_evaluation"):
        first = "no (unreachable by the earlier workload) -> strengthened before the evaluation, now yes"
    if first == "NO" and v.get("not_decided"):
        first = "not decided (outside the statement, see meta.json)"
    if first == "NO" and other and other.get("exit") == 1:
        first = "no -> %s strengthened, now yes (by %s)" % (other.get("check"), other.get("check"))
        keys = other.get("keys") or keys
    title = (m.get("title") or "").replace("|", "\\|")
    if len(title) > 150:
        title = title[:147] + "..."
    ks = ", ".join("`%s`" % k.replace("|", "\\|") for k in keys[:2])
    if len(keys) > 2:
        ks += ", ..."
    rows.append("| %s | %s | %s | %s |" % (os.path.basename(d), title, first, ks))
print("| id | change | caught | by (first keys) |")
print("|---|---|---|---|")
print("\n".join(rows))
