"""Per-property check specifications: which harnesses run in which sanitizer flavour, how many
cases per tier, coverage floors (observations without which the verdict would be vacuous)."""
import os
import sys
from concurrent.futures import ThreadPoolExecutor

import build
import driver

ASSUME_COMMON = [
    "gcc 12 sanitizer runtimes (ASan/UBSan/LSan/TSan) and libstdc++ are trusted",
    "the reference model in the harness is trusted; it is < 200 lines and was cross-checked against the property text",
    "only executions produced by the seeded workload are covered; nothing is claimed about inputs or interleavings not generated",
]


def run(name, harness, flavour, quick, thorough, sq=4, st=16, **kw):
    r = {"name": name, "harness": harness, "sources": ["harness/%s.cc" % harness], "flavour": flavour,
         "cases": {"quick": quick, "thorough": thorough}, "shards": {"quick": sq, "thorough": st}}
    r.update(kw)
    return r


PROPS = {}
NOT_APPLICABLE = {}
NOTES = ("All checks execute the real SDK code built from /repo's current working tree under sanitizers and decide the "
         "property with runtime monitors (reference-model oracles, history checkers). Exit 0 = held on what was "
         "observed, 1 = violation not listed in known_findings.json, 2 = harness failure or inconclusive.")
ENGINES = [
    {"name": "E1 model-oracle", "path": "harness/", "kind_free_text": "generated operation sequences applied in lock-step to the SDK (ASan+UBSan build) and to a reference model; compared after every step",
     "serves_properties": []},
    {"name": "E2 history", "path": "harness/", "kind_free_text": "real threads under TSan + perturbation shim (seeded yields/sleeps at every atomic and cv operation, spurious weak-CAS failures); call/return and exporter events recorded and checked by a history checker",
     "serves_properties": []},
    {"name": "E3 serialised schedule", "path": "harness/", "kind_free_text": "baton scheduler over the unmodified lock-free headers; seeded schedules, per-step invariants",
     "serves_properties": []},
]

PROPS["C14"] = {
    "runs": [run("e1-model", "c14_tracestate", "asan", 5000, 500000, need_lib=False)],
    "floors": {
        "quick": {"set_present_key": 1000, "ops_at_size_32": 300, "roundtrip_ge10_members": 300,
                  "headers_valid": 1000, "headers_invalid": 500, "headers_over_32": 200, "delete_present_key": 500},
        "thorough": {"set_present_key": 100000, "ops_at_size_32": 30000, "roundtrip_ge10_members": 30000,
                     "headers_valid": 100000, "headers_invalid": 50000, "headers_over_32": 20000},
    },
    "engine": "E1 model-oracle",
    "technique": "reference-model oracle in lock-step with the real TraceState under ASan+UBSan, generated operation sequences and headers",
    "level_text": ("exploration: thousands of seeded Set/Delete/Get/header programs run against the real header-only "
                   "implementation with a list model compared after every step; exact-size caller buffers killed after each "
                   "call so ownership slips become ASan reports. Right level because the property quantifies over "
                   "histories/inputs of a pure sequential API and a small model decides each step."),
    "level_note": ("trusts the reference list model and the three-valued W3C validity predicate in harness/c14_tracestate.cc, "
                   "gcc ASan/UBSan; covers only generated programs (pool of <=40 keys, boundary lengths, 32-member limit)"),
    "rule": ("case i = one seeded program of 1..80 Set/Delete/Get/ToHeader+FromHeader operations applied in lock-step to "
             "the real TraceState and to a reference list model (keys drawn from a pool of <=40 plus boundary lengths "
             "255/256/257, multi-tenant limits, invalid bytes, embedded NUL; one third of the programs first climb to "
             "32 members), followed by 4 generated headers (OWS, empty members, missing '=', 31/32/33+ members, random "
             "bytes). All arguments are exact-size unterminated heap views scribbled or freed after the call. A case is "
             "non-trivial if it executed at least one Set/Delete or parsed one header; distinct = distinct hash of the "
             "operation/argument sequence or of the header bytes."),
    "assumptions": ASSUME_COMMON + [
        "key/value validity is three-valued: strings on which W3C level 1, level 2 and the two compiled validators disagree (leading digit, value ending in a blank, tenant part > 241) follow the implementation's verdict and are counted as don't-care",
        "duplicate keys arriving in a header are outside the statement and not judged"],
}


def setup(args):
    """Build every flavour library and every harness used by the quick tier."""
    errs = []
    flavours = set()
    jobs = []
    for p, spec in sorted(PROPS.items()):
        for r in spec["runs"]:
            if "quick" in r.get("tiers", ("quick", "thorough")):
                if r.get("need_lib", True):
                    flavours.add(r["flavour"])
                jobs.append(r)
    for fl in sorted(flavours):
        try:
            build.build_lib(fl, log=driver.log)
        except build.BuildError as e:
            errs.append(str(e))
    if errs:
        print("\n".join(errs))
        return 2

    def one(r):
        try:
            build.build_harness(r["harness"], r["sources"], r["flavour"], extra_flags=r.get("cxxflags", ()),
                                need_lib=r.get("need_lib", True), log=driver.log, cxx=r.get("cxx"),
                                extra_link=r.get("ldflags", ()))
        except build.BuildError as e:
            errs.append(str(e))

    with ThreadPoolExecutor(max_workers=12) as ex:
        list(ex.map(one, jobs))
    if errs:
        print("\n".join(errs))
        return 2
    return 0
