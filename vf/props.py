"""Per-property check specifications: which harnesses run in which sanitizer flavour, how many
cases per tier, coverage floors (observations without which the verdict would be vacuous)."""
import os
import sys
from concurrent.futures import ThreadPoolExecutor

import build
import driver

import glob
import importlib

sys.path.insert(0, os.path.dirname(os.path.abspath(__file__)))
from specs.common import run, ASSUME_COMMON  # noqa: E402,F401


PROPS = {}
NOT_APPLICABLE = {}
NOTES = ("All checks execute the real SDK code built from /repo's current working tree under sanitizers and decide the "
         "property with runtime monitors (reference-model oracles, history checkers). Exit 0 = held on what was "
         "observed, 1 = violation not listed in known_findings.json, 2 = harness failure or inconclusive.")
ENGINES_EXTRA = {"name": "M memcheck", "path": "vf/driver.py",
                 "kind_free_text": "the sequential harnesses rebuilt without instrumentation and run under valgrind memcheck on a reduced case budget; every report (branch/address depending on an uninitialised value, invalid read/write/free) becomes a violation key memcheck:<kind>/<innermost SDK function>",
                 "serves_properties": []}
ENGINES = [
    {"name": "E1 model-oracle", "path": "harness/", "kind_free_text": "generated operation sequences applied in lock-step to the SDK (ASan+UBSan build) and to a reference model; compared after every step",
     "serves_properties": []},
    {"name": "E2 history", "path": "harness/", "kind_free_text": "real threads under TSan + perturbation shim (seeded yields/sleeps at every atomic and cv operation, spurious weak-CAS failures); call/return and exporter events recorded and checked by a history checker",
     "serves_properties": []},
    {"name": "E3 serialised schedule", "path": "harness/", "kind_free_text": "baton scheduler over the unmodified lock-free headers; seeded schedules, per-step invariants",
     "serves_properties": []},
]


# one spec file per property: vf/specs/cNN.py defining SPEC
for _f in sorted(glob.glob(os.path.join(os.path.dirname(os.path.abspath(__file__)), "specs", "c[0-9][0-9].py"))):
    _m = importlib.import_module("specs." + os.path.basename(_f)[:-3])
    PROPS[os.path.basename(_f)[:-3].upper()] = _m.SPEC
    for _e in ENGINES:
        if _e["name"] == _m.SPEC.get("engine") or _e["name"] in _m.SPEC.get("engines_used", ()):
            _e["serves_properties"].append(os.path.basename(_f)[:-3].upper())


for _p, _s in sorted(PROPS.items()):
    if any(_r.get("wrapper") == "memcheck" for _r in _s["runs"]):
        ENGINES_EXTRA["serves_properties"].append(_p)
ENGINES.append(ENGINES_EXTRA)


def setup(args):
    """Build every flavour library and every harness used by the quick tier."""
    errs = []
    flavours = set()
    jobs = []
    try:
        ok = set(l.strip() for l in open(os.path.join(os.path.dirname(os.path.abspath(__file__)), "claimed.txt"))
                 if l.strip() and not l.startswith("#"))
    except OSError:
        ok = set(PROPS)
    for p, spec in sorted(PROPS.items()):
        if p not in ok and not args:
            continue
        for r in spec["runs"]:
            if "quick" in r.get("tiers", ("quick", "thorough")):
                if r.get("need_lib", True):
                    flavours.add(r["flavour"])
                jobs.append(r)
    for fl in sorted(flavours):
        try:
            build.build_lib(fl, log=driver.log)
        except build.BuildError as e:
            errs.append(str(e))
    if errs:
        print("\n".join(errs))
        return 2

    def one(r):
        try:
            build.build_harness(r["harness"], r["sources"], r["flavour"], extra_flags=r.get("cxxflags", ()),
                                need_lib=r.get("need_lib", True), log=driver.log, cxx=r.get("cxx"),
                                extra_link=r.get("ldflags", ()))
        except build.BuildError as e:
            errs.append(str(e))

    with ThreadPoolExecutor(max_workers=12) as ex:
        list(ex.map(one, jobs))
    if errs:
        print("\n".join(errs))
        return 2
    return 0
