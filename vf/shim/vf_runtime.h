#pragma once
#include <stdint.h>

#ifdef __cplusplus
extern "C" {
#endif

struct vf_shim_counters
{
  uint64_t points;      // perturbation points executed (granularity 1024 per thread)
  uint64_t yields;      // sched_yield() injected
  uint64_t sleeps;      // short sleeps injected
  uint64_t spur_cas;    // compare_exchange_weak made to fail spuriously
  uint64_t spur_wake;   // predicate-less cv waits returned spuriously
  uint64_t cas_ok;      // genuine CAS successes
  uint64_t cas_failed;  // genuine CAS failures (real contention)
};

// rates are parts per million per perturbation point; all zero = shim is a pure forwarder
void vf_configure(uint64_t seed, uint32_t yield_ppm, uint32_t sleep_ppm, uint32_t cas_ppm, uint32_t wake_ppm,
                  uint32_t max_sleep_us);
void vf_counters(struct vf_shim_counters *out);

#ifdef __cplusplus
}
#endif
