// Runtime of the perturbation shim.  Compiled WITHOUT the shim (real std::atomic here).
#include <atomic>
#include <chrono>
#include <cstdint>
#include <cstdlib>
#include <thread>

#include <sched.h>
#include <time.h>

#include "vf_runtime.h"

namespace
{
std::atomic<uint32_t> g_yield_ppm{0};
std::atomic<uint32_t> g_sleep_ppm{0};
std::atomic<uint32_t> g_cas_ppm{0};
std::atomic<uint32_t> g_wake_ppm{0};
std::atomic<uint32_t> g_max_sleep_us{200};
std::atomic<uint64_t> g_seed{0x9e3779b97f4a7c15ull};
std::atomic<uint64_t> g_thread_ctr{0};
std::atomic<uint64_t> g_epoch{0};

std::atomic<uint64_t> c_points{0}, c_yields{0}, c_sleeps{0}, c_spur_cas{0}, c_spur_wake{0}, c_cas_ok{0},
    c_cas_fail{0};

struct Tls
{
  uint64_t s     = 0;
  uint64_t epoch = ~0ull;
  uint64_t points = 0;
};
thread_local Tls tls;

inline uint64_t next()
{
  uint64_t e = g_epoch.load(std::memory_order_relaxed);
  if (tls.epoch != e)
  {
    tls.epoch = e;
    uint64_t z = g_seed.load(std::memory_order_relaxed) +
                 0x9e3779b97f4a7c15ull * (1 + g_thread_ctr.fetch_add(1, std::memory_order_relaxed));
    z          = (z ^ (z >> 30)) * 0xbf58476d1ce4e5b9ull;
    z          = (z ^ (z >> 27)) * 0x94d049bb133111ebull;
    tls.s      = (z ^ (z >> 31)) | 1;
  }
  uint64_t x = tls.s;
  x ^= x << 13;
  x ^= x >> 7;
  x ^= x << 17;
  tls.s = x;
  return x;
}
}  // namespace

extern "C" void vf_point(int)
{
  uint32_t y = g_yield_ppm.load(std::memory_order_relaxed);
  uint32_t s = g_sleep_ppm.load(std::memory_order_relaxed);
  if ((y | s) == 0)
    return;
  if ((++tls.points & 1023) == 0)
    c_points.fetch_add(1024, std::memory_order_relaxed);
  uint32_t r = static_cast<uint32_t>(next() % 1000000u);
  if (r < s)
  {
    c_sleeps.fetch_add(1, std::memory_order_relaxed);
    uint32_t us = static_cast<uint32_t>(next() % (g_max_sleep_us.load(std::memory_order_relaxed) + 1));
    struct timespec ts;
    ts.tv_sec  = 0;
    ts.tv_nsec = static_cast<long>(us) * 1000;
    nanosleep(&ts, nullptr);
  }
  else if (r < s + y)
  {
    c_yields.fetch_add(1, std::memory_order_relaxed);
    sched_yield();
  }
}

extern "C" int vf_spurious_cas(void)
{
  uint32_t p = g_cas_ppm.load(std::memory_order_relaxed);
  if (p == 0)
    return 0;
  if (next() % 1000000u < p)
  {
    c_spur_cas.fetch_add(1, std::memory_order_relaxed);
    return 1;
  }
  return 0;
}

extern "C" int vf_spurious_wake(void)
{
  uint32_t p = g_wake_ppm.load(std::memory_order_relaxed);
  if (p == 0)
    return 0;
  if (next() % 1000000u < p)
  {
    c_spur_wake.fetch_add(1, std::memory_order_relaxed);
    return 1;
  }
  return 0;
}

extern "C" void vf_note_cas(int ok)
{
  if ((g_yield_ppm.load(std::memory_order_relaxed) | g_cas_ppm.load(std::memory_order_relaxed)) == 0)
    return;
  (ok ? c_cas_ok : c_cas_fail).fetch_add(1, std::memory_order_relaxed);
}

extern "C" void vf_configure(uint64_t seed, uint32_t yield_ppm, uint32_t sleep_ppm, uint32_t cas_ppm,
                             uint32_t wake_ppm, uint32_t max_sleep_us)
{
  g_seed.store(seed, std::memory_order_relaxed);
  g_epoch.fetch_add(1, std::memory_order_relaxed);
  g_max_sleep_us.store(max_sleep_us, std::memory_order_relaxed);
  g_cas_ppm.store(cas_ppm, std::memory_order_relaxed);
  g_wake_ppm.store(wake_ppm, std::memory_order_relaxed);
  g_sleep_ppm.store(sleep_ppm, std::memory_order_relaxed);
  g_yield_ppm.store(yield_ppm, std::memory_order_relaxed);
}

extern "C" void vf_counters(struct vf_shim_counters *out)
{
  out->points     = c_points.load(std::memory_order_relaxed);
  out->yields     = c_yields.load(std::memory_order_relaxed);
  out->sleeps     = c_sleeps.load(std::memory_order_relaxed);
  out->spur_cas   = c_spur_cas.load(std::memory_order_relaxed);
  out->spur_wake  = c_spur_wake.load(std::memory_order_relaxed);
  out->cas_ok     = c_cas_ok.load(std::memory_order_relaxed);
  out->cas_failed = c_cas_fail.load(std::memory_order_relaxed);
}
