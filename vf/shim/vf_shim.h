// Perturbation shim, force-included (-include) into every SDK and harness TU of the tsan flavour.
//
// It spends the include guards of every standard header first, then renames the tokens
// `atomic` and `condition_variable` to wrappers that forward every operation to the real
// std type (so ThreadSanitizer sees the real atomics and locks underneath) after calling
// vf_point(), a seeded yield/sleep point.  compare_exchange_weak may additionally fail
// spuriously, which the C++ standard allows and x86 hardware never does.  The SDK sources
// are compiled unmodified.
#ifndef VF_SHIM_H
#define VF_SHIM_H
#ifdef __cplusplus

#include "vf_std_all.h"

extern "C" void vf_point(int kind);
extern "C" int vf_spurious_cas(void);
extern "C" int vf_spurious_wake(void);
extern "C" void vf_note_cas(int ok);

namespace vf
{
enum PointKind
{
  kLoad = 0,
  kStore,
  kRmw,
  kCas,
  kNotify,
  kWait,
  kPointKinds
};

template <class T>
using raw_atomic             = std::atomic<T>;
using raw_condition_variable = std::condition_variable;

template <class T>
struct atomic
{
  std::atomic<T> v;

  atomic() noexcept = default;
  constexpr atomic(T d) noexcept : v(d) {}
  atomic(const atomic &)            = delete;
  atomic &operator=(const atomic &) = delete;

  static constexpr bool is_always_lock_free = std::atomic<T>::is_always_lock_free;
  bool is_lock_free() const noexcept { return v.is_lock_free(); }

  T operator=(T d) noexcept
  {
    store(d);
    return d;
  }
  operator T() const noexcept { return load(); }

  void store(T d, std::memory_order m = std::memory_order_seq_cst) noexcept
  {
    vf_point(kStore);
    v.store(d, m);
  }
  T load(std::memory_order m = std::memory_order_seq_cst) const noexcept
  {
    vf_point(kLoad);
    return v.load(m);
  }
  T exchange(T d, std::memory_order m = std::memory_order_seq_cst) noexcept
  {
    vf_point(kRmw);
    return v.exchange(d, m);
  }
  bool compare_exchange_weak(T &e, T d, std::memory_order s, std::memory_order f) noexcept
  {
    vf_point(kCas);
    if (vf_spurious_cas())
    {
      // a spurious failure: `expected` is reloaded, nothing is written
      e = v.load(f);
      return false;
    }
    bool ok = v.compare_exchange_strong(e, d, s, f);
    vf_note_cas(ok);
    return ok;
  }
  bool compare_exchange_weak(T &e, T d, std::memory_order m = std::memory_order_seq_cst) noexcept
  {
    return compare_exchange_weak(e, d, m, fail_order(m));
  }
  bool compare_exchange_strong(T &e, T d, std::memory_order s, std::memory_order f) noexcept
  {
    vf_point(kCas);
    bool ok = v.compare_exchange_strong(e, d, s, f);
    vf_note_cas(ok);
    return ok;
  }
  bool compare_exchange_strong(T &e, T d, std::memory_order m = std::memory_order_seq_cst) noexcept
  {
    return compare_exchange_strong(e, d, m, fail_order(m));
  }

  template <class A>
  T fetch_add(A a, std::memory_order m = std::memory_order_seq_cst) noexcept
  {
    vf_point(kRmw);
    return v.fetch_add(a, m);
  }
  template <class A>
  T fetch_sub(A a, std::memory_order m = std::memory_order_seq_cst) noexcept
  {
    vf_point(kRmw);
    return v.fetch_sub(a, m);
  }
  template <class A>
  T fetch_and(A a, std::memory_order m = std::memory_order_seq_cst) noexcept
  {
    vf_point(kRmw);
    return v.fetch_and(a, m);
  }
  template <class A>
  T fetch_or(A a, std::memory_order m = std::memory_order_seq_cst) noexcept
  {
    vf_point(kRmw);
    return v.fetch_or(a, m);
  }
  template <class A>
  T fetch_xor(A a, std::memory_order m = std::memory_order_seq_cst) noexcept
  {
    vf_point(kRmw);
    return v.fetch_xor(a, m);
  }
  T operator++() noexcept
  {
    vf_point(kRmw);
    return ++v;
  }
  T operator++(int) noexcept
  {
    vf_point(kRmw);
    return v++;
  }
  T operator--() noexcept
  {
    vf_point(kRmw);
    return --v;
  }
  T operator--(int) noexcept
  {
    vf_point(kRmw);
    return v--;
  }
  template <class A>
  T operator+=(A a) noexcept
  {
    vf_point(kRmw);
    return v += a;
  }
  template <class A>
  T operator-=(A a) noexcept
  {
    vf_point(kRmw);
    return v -= a;
  }
  template <class A>
  T operator&=(A a) noexcept
  {
    vf_point(kRmw);
    return v &= a;
  }
  template <class A>
  T operator|=(A a) noexcept
  {
    vf_point(kRmw);
    return v |= a;
  }
  template <class A>
  T operator^=(A a) noexcept
  {
    vf_point(kRmw);
    return v ^= a;
  }

private:
  static constexpr std::memory_order fail_order(std::memory_order m) noexcept
  {
    return m == std::memory_order_acq_rel   ? std::memory_order_acquire
           : m == std::memory_order_release ? std::memory_order_relaxed
                                            : m;
  }
};

struct condition_variable
{
  std::condition_variable cv;

  condition_variable()                                      = default;
  condition_variable(const condition_variable &)            = delete;
  condition_variable &operator=(const condition_variable &) = delete;

  using native_handle_type = std::condition_variable::native_handle_type;
  native_handle_type native_handle() { return cv.native_handle(); }

  void notify_one() noexcept
  {
    vf_point(kNotify);
    cv.notify_one();
  }
  void notify_all() noexcept
  {
    vf_point(kNotify);
    cv.notify_all();
  }
  void wait(std::unique_lock<std::mutex> &l)
  {
    vf_point(kWait);
    if (vf_spurious_wake())
      return;  // spurious wake-ups are allowed for the predicate-less overloads
    cv.wait(l);
  }
  template <class P>
  void wait(std::unique_lock<std::mutex> &l, P p)
  {
    vf_point(kWait);
    cv.wait(l, std::move(p));
  }
  template <class R, class Pd>
  std::cv_status wait_for(std::unique_lock<std::mutex> &l, const std::chrono::duration<R, Pd> &d)
  {
    vf_point(kWait);
    if (vf_spurious_wake())
      return std::cv_status::no_timeout;
    return cv.wait_for(l, d);
  }
  template <class R, class Pd, class P>
  bool wait_for(std::unique_lock<std::mutex> &l, const std::chrono::duration<R, Pd> &d, P p)
  {
    vf_point(kWait);
    return cv.wait_for(l, d, std::move(p));
  }
  template <class C, class D>
  std::cv_status wait_until(std::unique_lock<std::mutex> &l, const std::chrono::time_point<C, D> &t)
  {
    vf_point(kWait);
    if (vf_spurious_wake())
      return std::cv_status::no_timeout;
    return cv.wait_until(l, t);
  }
  template <class C, class D, class P>
  bool wait_until(std::unique_lock<std::mutex> &l, const std::chrono::time_point<C, D> &t, P p)
  {
    vf_point(kWait);
    return cv.wait_until(l, t, std::move(p));
  }
};
}  // namespace vf

namespace std
{
template <class T>
using vf_atomic              = ::vf::atomic<T>;
using vf_condition_variable = ::vf::condition_variable;
}  // namespace std

#define atomic vf_atomic
#define condition_variable vf_condition_variable

#endif  // __cplusplus
#endif  // VF_SHIM_H
