#!/bin/bash
# Re-run the property's quick check against every kept seeded change (regression of the checks' detection power).
# usage: vf/seeded_regress.sh <worktree> [<worktree> ...]      ids are dealt round-robin to the worktrees
cd "$(dirname "$0")/.."
wts=("$@")
n=${#wts[@]}
ids=($(ls seeded | sort))
for ((w = 0; w < n; w++)); do
  sel=()
  for ((i = w; i < ${#ids[@]}; i += n)); do sel+=("${ids[$i]}"); done
  python3 vf/seeded_recheck.py "${wts[$w]}" "${sel[@]}" > "/tmp/seeded_regress_$w.log" 2>&1 &
done
wait
cat /tmp/seeded_regress_*.log | sort
