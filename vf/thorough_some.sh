#!/bin/bash
# usage: vf/thorough_some.sh "C01 C02 ..." [seed]
cd "$(dirname "$0")/.."
for p in $1; do
  start=$(date +%s)
  out=$(VERIF_SEED=${2:-1} ./check $p --tier thorough 2>&1)
  rc=$?
  echo "thorough $p rc=$rc $(($(date +%s)-start))s $(echo "$out" | grep -E 'VIOLATION|HARNESS-FAILURE|INCONCLUSIVE|KNOWN' | cut -c1-200 | tr '\n' ' ')"
  echo "$out" | tail -1
done
