#!/usr/bin/env python3
"""Regenerate /verif/MANIFEST.json from vf/props.py (single source of truth)."""
import json
import os
import sys

VERIF = os.path.dirname(os.path.dirname(os.path.abspath(__file__)))
sys.path.insert(0, os.path.join(VERIF, "vf"))
import props  # noqa: E402

ALL = ["C%02d" % i for i in range(1, 21)]


def claimed():
    """Only checks the lead has accepted are registered (vf/claimed.txt, one id per line)."""
    try:
        return set(l.strip() for l in open(os.path.join(VERIF, "vf", "claimed.txt")) if l.strip() and not l.startswith("#"))
    except OSError:
        return set()


def main():
    checks = []
    ok = claimed()
    for p in ALL:
        if p not in props.PROPS or p not in ok:
            continue
        s = props.PROPS[p]
        if s.get("unclaimed"):
            continue
        checks.append({
            "property_id": p,
            "quick_cmd": "./check %s --tier quick" % p,
            "thorough_cmd": "./check %s --tier thorough" % p,
            "evidence_file": "/verif/evidence/%s.json" % p,
            "replay_cmd_template": "./check %s --replay {path}" % p,
            "engine": s.get("engine", "E1 model-oracle"),
            "level_claimed": {"category": s.get("level", "exploration"), "text": s["level_text"],
                              "design_ref": "DESIGN.md section 5, %s" % p},
            "level_note": s["level_note"],
            "technique": s["technique"] + (
                "; the same workload re-run uninstrumented under valgrind memcheck on a reduced case budget (every branch "
                "or address depending on an uninitialised value, invalid reads/writes)"
                if any(r.get("wrapper") == "memcheck" for r in s["runs"]) else "") + (
                "; shared objects driven from 2..8 real threads under ThreadSanitizer with the perturbation shim"
                if any(r.get("harness") == "prop_threads" for r in s["runs"]) else ""),
        })
    na = []
    for p in ALL:
        if p not in props.PROPS or props.PROPS[p].get("unclaimed") or p not in ok:
            na.append({"property_id": p, "reason": props.NOT_APPLICABLE.get(
                p, "check not built yet in this round; the design (DESIGN.md section 5) applies runtime monitoring to it")})
    m = {
        "version": 1,
        "setup_cmd": "./check --setup",
        "hooks": {
            "guard": "OTEL_VERIF_SHIM",
            "enable": ("no source hooks: checks compile /repo's unmodified sdk/src/**/*.cc and headers themselves "
                       "(vf/build.py) with sanitizer flags; the tsan flavour adds -DOTEL_VERIF_SHIM=1 -include "
                       "vf/shim/vf_shim.h on the compiler command line only"),
            "baseline_off_cmd": "python3 /verif/vf/baseline.py",
            "source_commits": [],
            "add_only": True,
        },
        "engines": props.ENGINES,
        "checks": checks,
        "notes": props.NOTES,
        "not_applicable": na,
    }
    with open(os.path.join(VERIF, "MANIFEST.json"), "w") as f:
        json.dump(m, f, indent=1)
        f.write("\n")
    try:
        import jsonschema
        jsonschema.validate(m, json.load(open("/root/.vp/MANIFEST.schema.json")))
        print("MANIFEST.json valid: %d checks, %d not_applicable" % (len(checks), len(na)))
    except ImportError:
        print("MANIFEST.json written (jsonschema not importable here)")


if __name__ == "__main__":
    main()
