#!/usr/bin/env python3
"""Content-addressed sanitizer builds of /repo's SDK and of the harnesses.

Every object is keyed by the hash of (compiler command line, contents of the
source file and of every header gcc reported with -MD).  A check therefore can
never run against stale objects: any edit under /repo that a TU can see changes
its key and the TU is recompiled; everything else is reused.
"""
import fcntl
import hashlib
import os
import shlex
import subprocess
import sys
import time
from concurrent.futures import ThreadPoolExecutor

VERIF = os.path.dirname(os.path.dirname(os.path.abspath(__file__)))
REPO = os.environ.get("VERIF_REPO", "/repo")
BUILD = os.path.join(VERIF, ".build")
if os.path.realpath(REPO) != "/repo":
    # scratch copies of the repository (mutation testing) get their own cache so they never disturb /repo's
    BUILD = os.path.join(VERIF, ".build", "alt-" + hashlib.sha1(os.path.realpath(REPO).encode()).hexdigest()[:10])
SHIM_DIR = os.path.join(VERIF, "vf", "shim")
INC_DIR = os.path.join(VERIF, "vf", "include")

COMMON = [
    "-std=gnu++17", "-Wno-error", "-Wno-deprecated-declarations",
    "-I%s/api/include" % REPO, "-I%s/sdk/include" % REPO, "-I%s/sdk" % REPO,
    "-I%s/ext/include" % REPO,
]

FLAVOURS = {
    # sequential oracles: ASan + UBSan, every report fatal
    "asan": {
        "cxx": "g++",
        "flags": ["-O1", "-g1", "-fno-omit-frame-pointer", "-fsanitize=address,undefined",
                  "-fno-sanitize-recover=all", "-DOPENTELEMETRY_ABI_VERSION_NO=1"],
        "link": ["-fsanitize=address,undefined", "-lpthread", "-ldl", "-rdynamic"],
        "shim": False,
    },
    "asan-abi2": {
        "cxx": "g++",
        "flags": ["-O1", "-g1", "-fno-omit-frame-pointer", "-fsanitize=address,undefined",
                  "-fno-sanitize-recover=all", "-DOPENTELEMETRY_ABI_VERSION_NO=2"],
        "link": ["-fsanitize=address,undefined", "-lpthread", "-ldl", "-rdynamic"],
        "shim": False,
    },
    # real-thread engines: TSan + perturbation shim
    "tsan": {
        "cxx": "g++",
        "flags": ["-O1", "-g1", "-fno-omit-frame-pointer", "-fsanitize=thread",
                  "-DOPENTELEMETRY_ABI_VERSION_NO=1", "-DOTEL_VERIF_SHIM=1",
                  "-include", os.path.join(SHIM_DIR, "vf_shim.h")],
        "link": ["-fsanitize=thread", "-lpthread", "-ldl", "-rdynamic"],
        "shim": True,
    },
    # fallback if the shim stops compiling on a tree that compiles normally
    "tsan-plain": {
        "cxx": "g++",
        "flags": ["-O1", "-g1", "-fno-omit-frame-pointer", "-fsanitize=thread",
                  "-DOPENTELEMETRY_ABI_VERSION_NO=1"],
        "link": ["-fsanitize=thread", "-lpthread", "-ldl", "-rdynamic"],
        "shim": False,
    },
    # no sanitizer, shim in serialised mode is header-local (C11 E3), fast
    "plain": {
        "cxx": "g++",
        "flags": ["-O1", "-g1", "-fno-omit-frame-pointer", "-DOPENTELEMETRY_ABI_VERSION_NO=1"],
        "link": ["-lpthread", "-ldl", "-rdynamic"],
        "shim": False,
    },
}

_hash_memo = {}


def file_hash(path):
    try:
        st = os.stat(path)
    except OSError:
        return None
    k = (path, st.st_mtime_ns, st.st_size)
    h = _hash_memo.get(k)
    if h is None:
        with open(path, "rb") as f:
            h = hashlib.sha1(f.read()).hexdigest()
        _hash_memo[k] = h
    return h


def parse_depfile(path):
    try:
        txt = open(path).read()
    except OSError:
        return None
    txt = txt.replace("\\\n", " ")
    deps = []
    for line in txt.splitlines():
        if ":" not in line:
            continue
        _, rhs = line.split(":", 1)
        deps += shlex.split(rhs)
    return deps


def interesting(dep):
    # system headers never change inside the sandbox; only track repo and verif files
    return dep.startswith(REPO + "/") or dep.startswith(VERIF + "/")


def deps_key(cmd_sig, deps):
    h = hashlib.sha1(cmd_sig.encode())
    for d in sorted(set(deps)):
        if not interesting(d):
            continue
        fh = file_hash(d)
        if fh is None:
            return None
        h.update(d.encode())
        h.update(fh.encode())
    return h.hexdigest()


def compile_tu(cxx, flags, src, obj):
    """Compile src -> obj unless a valid cached object exists.  Returns (ok, rebuilt, stderr)."""
    dep = obj + ".d"
    keyf = obj + ".key"
    cmd = [cxx] + COMMON + flags + ["-I" + INC_DIR, "-I" + SHIM_DIR, "-MD", "-MF", dep, "-c", src, "-o", obj]
    sig = " ".join(cmd)
    if os.path.exists(obj) and os.path.exists(keyf):
        deps = parse_depfile(dep)
        if deps is not None:
            k = deps_key(sig, deps + [src])
            if k is not None and k == open(keyf).read().strip():
                return True, False, ""
    for p in (obj, keyf):
        try:
            os.unlink(p)
        except OSError:
            pass
    r = subprocess.run(cmd, stdout=subprocess.PIPE, stderr=subprocess.PIPE, text=True)
    if r.returncode != 0:
        return False, True, r.stderr
    deps = parse_depfile(dep) or []
    k = deps_key(sig, deps + [src])
    with open(keyf, "w") as f:
        f.write(k or "")
    return True, True, r.stderr


def sdk_sources():
    out = []
    root = os.path.join(REPO, "sdk", "src")
    for d, _, files in os.walk(root):
        for fn in sorted(files):
            if fn.endswith(".cc") and fn != "fork_windows.cc":
                out.append(os.path.join(d, fn))
    return sorted(out)


class BuildError(Exception):
    pass


class Lock:
    def __init__(self, name):
        os.makedirs(BUILD, exist_ok=True)
        self.path = os.path.join(BUILD, name + ".lock")

    def __enter__(self):
        self.f = open(self.path, "w")
        fcntl.flock(self.f, fcntl.LOCK_EX)
        return self

    def __exit__(self, *a):
        fcntl.flock(self.f, fcntl.LOCK_UN)
        self.f.close()


def build_lib(flavour, jobs=16, log=None):
    """Build (or reuse) libotel.a for a flavour from /repo's current working tree."""
    fl = FLAVOURS[flavour]
    out = os.path.join(BUILD, flavour)
    objdir = os.path.join(out, "obj")
    os.makedirs(objdir, exist_ok=True)
    t0 = time.time()
    with Lock(flavour):
        srcs = sdk_sources()
        objs = []
        work = []
        root = os.path.join(REPO, "sdk", "src") + "/"
        for s in srcs:
            name = s[len(root):].replace("/", "__")[:-3] + ".o"
            o = os.path.join(objdir, name)
            objs.append(o)
            work.append((s, o))
        # the shim runtime (never compiled with the shim itself)
        extra = []
        if fl["shim"]:
            extra.append((os.path.join(SHIM_DIR, "vf_runtime.cc"), os.path.join(objdir, "vf_runtime.o"),
                          [f for f in fl["flags"] if f != "-include" and not f.endswith("vf_shim.h")]))
        rebuilt = 0
        errors = []
        with ThreadPoolExecutor(max_workers=jobs) as ex:
            futs = [ex.submit(compile_tu, fl["cxx"], fl["flags"], s, o) for s, o in work]
            futs += [ex.submit(compile_tu, fl["cxx"], f, s, o) for s, o, f in extra]
            for (s, o), fu in zip(work + [(s, o) for s, o, _ in extra], futs):
                ok, rb, err = fu.result()
                rebuilt += 1 if rb else 0
                if not ok:
                    errors.append((s, err))
        if errors:
            raise BuildError("flavour %s: %d TU(s) failed to compile\n%s" % (
                flavour, len(errors), "\n".join("%s:\n%s" % (s, e[-3000:]) for s, e in errors[:3])))
        objs += [o for _, o, _ in extra]
        # drop stale objects for sources that no longer exist
        keep = set(os.path.basename(o) for o in objs)
        for fn in os.listdir(objdir):
            if fn.endswith(".o") and fn not in keep:
                os.unlink(os.path.join(objdir, fn))
                rebuilt += 1
        lib = os.path.join(out, "libotel.a")
        if rebuilt or not os.path.exists(lib):
            if os.path.exists(lib):
                os.unlink(lib)
            r = subprocess.run(["ar", "rcs", lib] + objs, stderr=subprocess.PIPE, text=True)
            if r.returncode != 0:
                raise BuildError("ar failed: " + r.stderr)
    if log:
        log("lib %s: %d/%d TUs rebuilt in %.1fs" % (flavour, rebuilt, len(work), time.time() - t0))
    return lib


def build_harness(name, sources, flavour, extra_flags=(), need_lib=True, jobs=16, log=None, cxx=None,
                  extra_link=()):
    """Compile harness sources (paths relative to /verif) and link against the flavour's lib."""
    fl = FLAVOURS[flavour]
    lib = build_lib(flavour, jobs=jobs, log=log) if need_lib else None
    out = os.path.join(BUILD, flavour, "harness")
    os.makedirs(out, exist_ok=True)
    t0 = time.time()
    with Lock(flavour + "-" + name):
        objs = []
        rebuilt = 0
        for s in sources:
            sp = os.path.join(VERIF, s)
            o = os.path.join(out, name + "__" + os.path.basename(s).replace(".cc", ".o"))
            flags = list(fl["flags"]) + list(extra_flags)
            if os.path.basename(s).startswith("vf_runtime") or s.endswith("_noshim.cc"):
                flags = [f for f in flags if f != "-include" and not f.endswith("vf_shim.h")]
            ok, rb, err = compile_tu(cxx or fl["cxx"], flags, sp, o)
            if not ok:
                raise BuildError("harness %s (%s): compile failed\n%s" % (name, flavour, err[-6000:]))
            rebuilt += 1 if rb else 0
            objs.append(o)
        exe = os.path.join(out, name)
        libkey = ""
        if lib:
            libkey = "%d" % os.stat(lib).st_mtime_ns
        stamp = exe + ".stamp"
        want = libkey + "|" + "|".join("%s:%d" % (o, os.stat(o).st_mtime_ns) for o in objs)
        have = open(stamp).read() if os.path.exists(stamp) else ""
        if rebuilt or not os.path.exists(exe) or have != want:
            cmd = [cxx or fl["cxx"]] + objs + ([lib] if lib else []) + fl["link"] + list(extra_link) + ["-o", exe]
            r = subprocess.run(cmd, stderr=subprocess.PIPE, text=True)
            if r.returncode != 0:
                raise BuildError("harness %s (%s): link failed\n%s" % (name, flavour, r.stderr[-6000:]))
            with open(stamp, "w") as f:
                f.write(want)
    if log:
        log("harness %s/%s ready in %.1fs (%d TU rebuilt)" % (flavour, name, time.time() - t0, rebuilt))
    return exe


if __name__ == "__main__":
    fl = sys.argv[1:] or ["asan", "tsan"]
    for f in fl:
        print(build_lib(f, log=print))
