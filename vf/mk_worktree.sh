#!/bin/bash
# usage: vf/mk_worktree.sh <dir>      scratch git worktree of /repo HEAD with a CMake build configured like /repo/_build
# (same cache options, so that the same 1015 tests exist); remove with: git -C /repo worktree remove --force <dir>
set -e
d=$1
[ -d "$d" ] || git -C /repo worktree add --detach "$d" HEAD >/dev/null
opts=$(grep -E '^(WITH_[A-Z0-9_]+|BUILD_[A-Z0-9_]+|OPENTELEMETRY_[A-Z0-9_]+|CMAKE_BUILD_TYPE|CMAKE_CXX_FLAGS|CMAKE_C_FLAGS|CMAKE_CXX_STANDARD):(BOOL|STRING)=' /repo/_build/CMakeCache.txt | sed -E 's/^([^:]+):([A-Z]+)=(.*)$/-D\1:\2=\3/')
cmake -G Ninja -S "$d" -B "$d/_build" $opts >"$d/_build.cfg.log" 2>&1 || { mkdir -p "$d/_build"; cmake -G Ninja -S "$d" -B "$d/_build" $opts; }
ninja -C "$d/_build" >"$d/_build.log" 2>&1
ctest --test-dir "$d/_build" -N | tail -1
