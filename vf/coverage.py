#!/usr/bin/env python3
"""Reach report: which lines of a property's anchor files do the check's workloads actually execute?

Not a check and not part of any verdict.  Runtime monitoring only decides what the workload reaches, so this
tool re-builds a property's harnesses with gcc --coverage (no sanitizer; the perturbation shim is kept for the
real-thread engines), runs every quick-tier engine run once on a single shard, and aggregates gcov line counts
over the files named in the property's anchors.  Output: coverage/<id>.json (summary, committed) and
coverage/<id>.txt (every instrumented-but-never-executed anchor line with its source text), which is what is
read to decide where a workload has to be widened.

usage: vf/coverage.py CNN [CNN ...] [--div N]      (cases = quick cases / N, default 2)
Scratch output goes to $VERIF_COV_SCRATCH (default /var/tmp/vf-cov) and is removed afterwards."""
import collections
import gzip
import json
import os
import shutil
import subprocess
import sys
import time

sys.path.insert(0, os.path.dirname(os.path.abspath(__file__)))
import build  # noqa: E402

COV_FLAGS = ["-O0", "-g1", "--coverage", "-fprofile-update=atomic", "-fno-omit-frame-pointer"]
build.FLAVOURS["cov"] = {"cxx": "g++", "flags": COV_FLAGS + ["-DOPENTELEMETRY_ABI_VERSION_NO=1"],
                         "link": ["--coverage", "-lpthread", "-ldl", "-rdynamic"], "shim": False}
build.FLAVOURS["cov-abi2"] = {"cxx": "g++", "flags": COV_FLAGS + ["-DOPENTELEMETRY_ABI_VERSION_NO=2"],
                              "link": ["--coverage", "-lpthread", "-ldl", "-rdynamic"], "shim": False}
build.FLAVOURS["cov-shim"] = {"cxx": "g++",
                              "flags": COV_FLAGS + ["-DOPENTELEMETRY_ABI_VERSION_NO=1", "-DOTEL_VERIF_SHIM=1", "-include",
                                                    os.path.join(build.SHIM_DIR, "vf_shim.h")],
                              "link": ["--coverage", "-lpthread", "-ldl", "-rdynamic"], "shim": True}
MAP = {"asan": "cov", "asan-abi2": "cov-abi2", "tsan": "cov-shim", "tsan-plain": "cov", "plain": "cov"}

import props  # noqa: E402  (after the flavours exist)

VERIF = build.VERIF
REPO = build.REPO
SCRATCH = os.environ.get("VERIF_COV_SCRATCH", "/var/tmp/vf-cov")


def anchors(prop):
    for ln in open(os.path.join(VERIF, "properties.jsonl")):
        d = json.loads(ln)
        if d["id"] == prop:
            return d["anchors"]["files"]
    raise SystemExit("no such property " + prop)


def gcov_json(gcda, gcno):
    d = os.path.dirname(gcda)
    link = gcda[:-5] + ".gcno"
    if not os.path.exists(link):
        os.symlink(gcno, link)
    r = subprocess.run(["gcov", "-j", "-t", os.path.basename(gcda)], cwd=d, stdout=subprocess.PIPE,
                       stderr=subprocess.DEVNULL)
    if r.returncode != 0 or not r.stdout:
        return None
    try:
        return json.loads(r.stdout)
    except ValueError:
        try:
            return json.loads(gzip.decompress(r.stdout))
        except (OSError, ValueError):
            return None


def one_property(prop, div):
    spec = props.PROPS[prop]
    files = anchors(prop)
    want = {os.path.realpath(os.path.join(REPO, f)): f for f in files}
    scratch = os.path.join(SCRATCH, prop)
    shutil.rmtree(scratch, ignore_errors=True)
    os.makedirs(scratch)
    ran = []
    for r in spec["runs"]:
        if "quick" not in r.get("tiers", ("quick", "thorough")):
            continue
        fl = MAP[r["flavour"]]
        flags = [f for f in r.get("cxxflags", ()) if "sanitize" not in f]
        try:
            exe = build.build_harness(r["harness"], r["sources"], fl, extra_flags=flags, need_lib=r.get("need_lib", True),
                                      log=lambda m: print("  " + m, flush=True), extra_link=r.get("ldflags", ()))
        except build.BuildError as e:
            print("  run %s: does not build without its sanitizer: %s" % (r["name"], str(e)[-400:]))
            ran.append({"run": r["name"], "status": "not built"})
            continue
        cases = max(20, r["cases"]["quick"] // div)
        out = os.path.join(scratch, "out-" + r["name"])
        os.makedirs(out, exist_ok=True)
        cmd = [exe, "--seed", os.environ.get("VERIF_SEED", "1"), "--cases", str(cases), "--start", "0", "--shard", "0/1",
               "--tier", "quick", "--out", out]
        for k, v in (r.get("params") or {}).items():
            cmd += ["--param", "%s=%s" % (k, v)]
        for k, v in ((r.get("tier_params") or {}).get("quick") or {}).items():
            cmd += ["--param", "%s=%s" % (k, v)]
        env = dict(os.environ)
        for k in list(env):
            if k.startswith("OTEL_"):
                del env[k]
        env.update(r.get("env") or {})
        env["GCOV_PREFIX"] = os.path.join(scratch, "gcda")
        t0 = time.time()
        try:
            p = subprocess.run(cmd, cwd=out, env=env, stdout=subprocess.DEVNULL, stderr=subprocess.DEVNULL, timeout=3600)
            rc = p.returncode
        except subprocess.TimeoutExpired:
            rc = "timeout"
        ran.append({"run": r["name"], "flavour": fl, "cases": cases, "exit": rc, "wall_s": round(time.time() - t0)})
        print("  run %s: %d cases, exit %s, %.0fs" % (r["name"], cases, rc, time.time() - t0), flush=True)
    # aggregate
    lines = collections.defaultdict(dict)   # file -> line -> count
    fnames = collections.defaultdict(dict)  # file -> line -> function
    n_gcda = 0
    for d, _, fs in os.walk(os.path.join(scratch, "gcda")):
        for fn in fs:
            if not fn.endswith(".gcda"):
                continue
            gcda = os.path.join(d, fn)
            orig = gcda[len(os.path.join(scratch, "gcda")):]
            gcno = orig[:-5] + ".gcno"
            if not os.path.exists(gcno):
                continue
            j = gcov_json(gcda, gcno)
            if not j:
                continue
            n_gcda += 1
            for f in j.get("files", []):
                path = f["file"]
                if not os.path.isabs(path):
                    path = os.path.join(j.get("current_working_directory", "/"), path)
                path = os.path.realpath(path)
                if path not in want:
                    continue
                for ln in f.get("lines", []):
                    n = ln["line_number"]
                    lines[path][n] = lines[path].get(n, 0) + ln["count"]
                    if ln.get("function_name"):
                        fnames[path][n] = ln["function_name"]
    summary = {"property": prop, "runs": ran, "gcda_files": n_gcda, "files": {}, "generated_by": "vf/coverage.py",
               "note": "lines = lines gcc instrumented in at least one TU of the harness+SDK build (templates and inline "
                       "functions nobody instantiates are invisible); hit = executed at least once by the quick workload"}
    txt = []
    tot_i = tot_h = 0
    for path, rel in sorted(want.items(), key=lambda kv: kv[1]):
        ls = lines.get(path)
        if not ls:
            summary["files"][rel] = {"lines": 0, "hit": 0, "note": "no instrumented line (not compiled into any harness of this check)"}
            txt.append("== %s: no instrumented line" % rel)
            continue
        inst = len(ls)
        hit = sum(1 for c in ls.values() if c > 0)
        tot_i += inst
        tot_h += hit
        miss = sorted(n for n, c in ls.items() if c == 0)
        summary["files"][rel] = {"lines": inst, "hit": hit, "pct": round(100.0 * hit / inst, 1), "missed_lines": miss}
        txt.append("== %s: %d/%d lines executed (%.1f%%)" % (rel, hit, inst, 100.0 * hit / inst))
        try:
            src = open(path, errors="replace").read().splitlines()
        except OSError:
            src = []
        for n in miss:
            txt.append("  %5d  %s" % (n, src[n - 1].rstrip() if 0 < n <= len(src) else ""))
    summary["total"] = {"lines": tot_i, "hit": tot_h, "pct": round(100.0 * tot_h / tot_i, 1) if tot_i else 0.0}
    os.makedirs(os.path.join(VERIF, "coverage"), exist_ok=True)
    with open(os.path.join(VERIF, "coverage", prop + ".json"), "w") as f:
        json.dump(summary, f, indent=1)
    with open(os.path.join(VERIF, "coverage", prop + ".txt"), "w") as f:
        f.write("\n".join(txt) + "\n")
    shutil.rmtree(scratch, ignore_errors=True)
    print("%s: %d/%d anchor lines executed (%.1f%%), %d gcda" % (prop, tot_h, tot_i, summary["total"]["pct"], n_gcda), flush=True)


def main():
    args = [a for a in sys.argv[1:] if not a.startswith("--")]
    div = 2
    if "--div" in sys.argv:
        div = int(sys.argv[sys.argv.index("--div") + 1])
        args = [a for a in args if a != str(div)]
    for p in args:
        print("coverage of %s" % p, flush=True)
        one_property(p, div)
    return 0


if __name__ == "__main__":
    sys.exit(main())
