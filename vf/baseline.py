#!/usr/bin/env python3
"""Rebuild /repo/_build (pinned CMake/Ninja configuration, no verification define anywhere)
and run the repository's own test suite; compare against BASELINE.json's stable_pass list.
Exit 0 iff every stable test that ran here passed and none is missing."""
import json
import os
import re
import subprocess
import sys
import xml.etree.ElementTree as ET

REPO = "/repo"
# VERIF_BASELINE_BUILD lets the lead run the same comparison against a scratch copy's build directory
BUILD = os.environ.get("VERIF_BASELINE_BUILD", os.path.join(REPO, "_build"))
BASE = "/root/.vp/BASELINE.json"


def main():
    r = subprocess.run(["cmake", "--build", BUILD, "-j", "16"], stdout=subprocess.PIPE, stderr=subprocess.STDOUT, text=True)
    if r.returncode != 0:
        print(r.stdout[-4000:])
        print("BASELINE: build failed")
        return 1
    junit = os.path.join(BUILD, "verif_junit.xml")
    if os.path.exists(junit):
        os.unlink(junit)
    subprocess.run(["ctest", "--test-dir", BUILD, "-j8", "--timeout", "900", "--test-output-size-passed", "4000000", "--test-output-size-failed", "4000000", "--output-junit", junit],
                   stdout=subprocess.PIPE, stderr=subprocess.STDOUT, text=True)
    passed, failed = set(), set()
    root = ET.parse(junit).getroot()
    for tc in root.iter("testcase"):
        name = tc.get("name", "")
        ok = tc.get("status", "") == "run" and tc.find("failure") is None and tc.find("error") is None
        parts = name.split(".")
        cands = {name + "::" + name}
        if len(parts) >= 3:
            cands.add(parts[-2] + "::" + parts[-1])
        (passed if ok else failed).update(cands)
        out = tc.find("system-out")
        if out is not None and out.text:
            for m in re.finditer(r"\[\s+OK\s+\]\s+([\w/]+)\.([\w/]+)", out.text):
                passed.add(m.group(1) + "::" + m.group(2))
            for m in re.finditer(r"\[\s+FAILED\s+\]\s+([\w/]+)\.([\w/]+)", out.text):
                failed.add(m.group(1) + "::" + m.group(2))
    base = json.load(open(BASE))
    stable = set(base["stable_pass"])
    # the network-dependent curl tests are not deterministic inside the sealed sandbox (BASELINE lists them as flaky)
    flaky = set(base.get("flaky", []))
    tolerated = lambda t: "BasicCurlHttpTests" in t and any(f.split("::")[-1].split(".")[-1] == t.split("::")[-1].split(".")[-1] for f in flaky)
    bad = sorted(t for t in stable if t in failed and t not in passed and not tolerated(t))
    missing = sorted(t for t in stable if t not in passed and t not in failed)
    print("BASELINE: stable=%d passed_here=%d failed_stable=%d missing=%d" % (
        len(stable), len(stable & passed), len(bad), len(missing)))
    for t in bad[:50]:
        print("  FAILED", t)
    for t in missing[:20]:
        print("  MISSING", t)
    return 0 if not bad and not missing else 1


if __name__ == "__main__":
    sys.exit(main())
