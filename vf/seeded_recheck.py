#!/usr/bin/env python3
"""Re-run the property's check against kept seeded changes (after a check was strengthened).
usage: seeded_recheck.py <worktree> <seeded id> ...     (worktree: scratch git worktree of /repo HEAD)"""
import json
import os
import re
import subprocess
import sys

VERIF = os.path.dirname(os.path.dirname(os.path.abspath(__file__)))
wt = sys.argv[1]
for sid in sys.argv[2:]:
    d = os.path.join(VERIF, "seeded", sid)
    m = json.load(open(os.path.join(d, "meta.json")))
    prop = m.get("property") or sid.split("-")[0]
    subprocess.run("git -C %s checkout -q -- . && git -C %s apply %s/patch.diff" % (wt, wt, d), shell=True, check=True)
    env = dict(os.environ, VERIF_REPO=wt)
    r = subprocess.run("cd %s && ./check %s --tier quick" % (VERIF, prop), shell=True, env=env, stdout=subprocess.PIPE,
                       stderr=subprocess.STDOUT, text=True)
    keys = re.findall(r"VIOLATION property=\S+ replay=\S+ key=(\S+)", r.stdout)
    subprocess.run("git -C %s checkout -q -- ." % wt, shell=True)
    v = m.setdefault("verification", {})
    v["recheck_exit"] = r.returncode
    v["recheck_caught"] = r.returncode == 1
    v["recheck_keys"] = keys[:12]
    v.setdefault("what_was_run", []).append(
        "after strengthening the check: VERIF_REPO=<worktree> ./check %s --tier quick: exit %s" % (prop, r.returncode))
    json.dump(m, open(os.path.join(d, "meta.json"), "w"), indent=1)
    print(sid, "exit", r.returncode, keys[:4], flush=True)
