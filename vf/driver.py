#!/usr/bin/env python3
"""Check driver: builds harnesses from /repo's current tree, runs them as sharded child
processes under sanitizers, resumes past crashes, keys every violation (oracle, sanitizer,
abort, hang), matches keys against known_findings.json, writes evidence and replay files."""
import array
import fnmatch
import glob
import hashlib
import json
import os
import re
import shutil
import signal
import subprocess
import sys
import threading
import time
from concurrent.futures import ThreadPoolExecutor

VERIF = os.path.dirname(os.path.dirname(os.path.abspath(__file__)))
sys.path.insert(0, os.path.join(VERIF, "vf"))
import build  # noqa: E402

EXIT_HANG = 70
MAX_RESUMES = 40

ASAN_OPTIONS = ("abort_on_error=0:exitcode=66:detect_leaks=1:detect_stack_use_after_return=1:"
                "strict_string_checks=1:allocator_may_return_null=1:handle_abort=1:symbolize=1")
UBSAN_OPTIONS = "print_stacktrace=1:halt_on_error=1:exitcode=67"
LSAN_OPTIONS = "exitcode=68"


def log(msg):
    sys.stderr.write("[check] %s\n" % msg)
    sys.stderr.flush()


# --------------------------------------------------------------------------------------------
# sanitizer report parsing
# --------------------------------------------------------------------------------------------
FRAME_RE = re.compile(r"^\s*#(\d+)\s+0x[0-9a-f]+\s+(?:in\s+)?(.+?)\s+(\S+?)(?::(\d+))?(?::\d+)?\s*$")


def norm_fn(fn):
    fn = re.sub(r"\(.*$", "", fn)          # drop parameter list
    fn = re.sub(r"<[^<>]*>", "", fn)       # drop (one level of) template arguments
    fn = re.sub(r"<[^<>]*>", "", fn)
    fn = fn.replace("opentelemetry::v1::", "").replace("opentelemetry::v2::", "")
    fn = fn.strip()
    return fn[-90:] if fn else "?"


def split_frame(ln):
    """Return (function, path) of one ASan/UBSan/TSan stack line, or None."""
    m = re.match(r"^\s*#\d+\s+(.*)$", ln)
    if not m:
        return None
    rest = m.group(1).strip()
    rest = re.sub(r"^0x[0-9a-f]+\s+(?:in\s+)?", "", rest)      # ASan: "#0 0xaddr in fn file:line"
    rest = re.sub(r"\s+\([^()\s]+\+0x[0-9a-f]+\)\s*$", "", rest)  # TSan: trailing "(module+0xoff)"
    if " " in rest:
        fn, path = rest.rsplit(" ", 1)
    else:
        fn, path = rest, ""
    path = re.sub(r":\d+(?::\d+)?$", "", path)
    return fn, path


def is_frame(ln):
    return split_frame(ln) is not None


def sdk_frame(lines):
    """innermost frame that lies in /repo code; returns normalised function name."""
    first = None
    for ln in lines:
        fp = split_frame(ln)
        if not fp:
            continue
        fn, path = fp
        if first is None:
            first = norm_fn(fn)
        if "/verif/" in path or "vf::" in fn:
            continue
        if "/repo/" in path or "opentelemetry/" in path or "opentelemetry::" in fn:
            return norm_fn(fn)
    return first or "?"


def parse_sanitizer_stderr(text):
    """Return list of (kind, frame, excerpt) found in a child's stderr."""
    out = []
    lines = text.splitlines()
    i = 0
    while i < len(lines):
        ln = lines[i]
        m = re.search(r"ERROR: (AddressSanitizer|LeakSanitizer): ([\w\-]+)", ln)
        if m:
            san = "asan" if m.group(1) == "AddressSanitizer" else "lsan"
            kind = m.group(2)
            block = lines[i:i + 60]
            if san == "lsan":
                # one key per leaking allocation stack
                j = i + 1
                cur = []
                while j < len(lines) and not lines[j].startswith("SUMMARY:"):
                    if re.match(r"^(Direct|Indirect) leak of", lines[j]):
                        if cur:
                            out.append(("lsan:leak", sdk_frame(cur), "\n".join(cur[:14])))
                        cur = [lines[j]]
                    elif cur is not None:
                        cur.append(lines[j])
                    j += 1
                if cur:
                    out.append(("lsan:leak", sdk_frame(cur), "\n".join(cur[:14])))
                i = j
                continue
            out.append(("asan:" + kind, sdk_frame(block[1:]), "\n".join(block[:24])))
            i += 1
            continue
        m = re.search(r"([\w./+\-]+):(\d+):(\d+): runtime error: (.*)$", ln)
        if m:
            msg = m.group(4)
            kind = re.sub(r"[-+]?[0-9][0-9a-fx.e+\-]*", "N", msg)
            kind = re.sub(r"'[^']*'", "T", kind)
            kind = re.sub(r"\s+", "-", kind.strip())[:60]
            block = lines[i:i + 30]
            fr = sdk_frame(block[1:])
            if fr == "?":
                fr = os.path.basename(m.group(1))
            out.append(("ubsan:" + kind, fr, "\n".join(block[:16])))
            i += 1
            continue
        m = re.search(r"Assertion `(.*)' failed", ln)
        if m:
            fn = re.search(r": ([^:]+): Assertion", ln)
            out.append(("abort:assert", norm_fn(fn.group(1)) if fn else "?", ln.strip()[:400]))
        m = re.search(r"terminate called after throwing an instance of '([^']+)'", ln)
        if m:
            out.append(("abort:uncaught", m.group(1), "\n".join(lines[i:i + 4])))
        i += 1
    return out


def parse_tsan_logs(paths):
    """Return dict key_suffix -> (count, excerpt).  De-duplicated by kind + pair of innermost
    SDK frames (line numbers stripped)."""
    found = {}
    for p in paths:
        try:
            txt = open(p, errors="replace").read()
        except OSError:
            continue
        blocks = txt.split("==================")
        for b in blocks:
            m = re.search(r"(?:WARNING|ERROR): ThreadSanitizer: ([^\n(]+)", b)
            if not m:
                continue
            kind = re.sub(r"\s+", "-", m.group(1).strip())
            # split into stacks: paragraphs that contain frames
            stacks = []
            cur = []
            for ln in b.splitlines():
                if is_frame(ln):
                    cur.append(ln)
                else:
                    if cur:
                        stacks.append(cur)
                        cur = []
            if cur:
                stacks.append(cur)
            frames = sorted(set(sdk_frame(s) for s in stacks[:2])) if stacks else ["?"]
            key = "tsan:%s/%s" % (kind, "|".join(frames))
            c, ex = found.get(key, (0, None))
            found[key] = (c + 1, ex or b.strip()[:3000])
    return found


MEMCHECK_KINDS = [
    (r"Conditional jump or move depends on uninitialised value", "uninitialised-condition"),
    (r"Use of uninitialised value of size", "uninitialised-use"),
    (r"Syscall param .* (?:uninitialised|unaddressable)", "uninitialised-syscall-param"),
    (r"Invalid read of size", "invalid-read"),
    (r"Invalid write of size", "invalid-write"),
    (r"Invalid free|Mismatched free", "invalid-free"),
    (r"Source and destination overlap", "overlap"),
    (r"Jump to the invalid address|Process terminating with default action of signal", "fatal"),
]


def parse_memcheck_logs(paths):
    """valgrind memcheck logs -> dict key_suffix -> (count, excerpt).  One key per error kind and innermost
    frame in SDK code (function name, line numbers stripped)."""
    found = {}
    for p in paths:
        try:
            txt = open(p, errors="replace").read()
        except OSError:
            continue
        lines = [re.sub(r"^==\d+==\s?", "", ln) for ln in txt.splitlines()]
        i = 0
        while i < len(lines):
            kind = None
            for rx, k in MEMCHECK_KINDS:
                if re.search(rx, lines[i]):
                    kind = k
                    break
            if not kind:
                i += 1
                continue
            j = i + 1
            frames = []
            while j < len(lines) and re.match(r"^\s+(at|by) 0x", lines[j]):
                frames.append(lines[j])
                j += 1
            frame = None
            first = None
            for fr in frames:
                m = re.match(r"^\s+(?:at|by) 0x[0-9A-Fa-f]+: (.+?) \(([^()]*)\)\s*$", fr)
                if not m:
                    continue
                fn, where = m.group(1), m.group(2)
                if where.startswith("in /usr") or "vgpreload" in where:
                    continue
                if first is None:
                    first = norm_fn(fn)
                if "opentelemetry::" in fn and "vf::" not in fn and "vfp::" not in fn:
                    frame = norm_fn(fn)
                    break
            key = "memcheck:%s/%s" % (kind, frame or ("harness:" + (first or "?")))
            c, ex = found.get(key, (0, None))
            found[key] = (c + 1, ex or "\n".join(lines[i:j][:20]))
            i = j
    return found


# --------------------------------------------------------------------------------------------
# running one shard with crash resume
# --------------------------------------------------------------------------------------------
class ShardResult:
    def __init__(self):
        self.counters = {}
        self.maxes = {}
        self.evaluations = 0
        self.samples = []
        self.violations = []     # dicts: key, detail, case, seed, run
        self.hashes = set()
        self.sigs = set()
        self.crashes = 0
        self.hang_candidates = []
        self.harness_failure = None
        self.wall = 0.0


def read_json(path):
    try:
        with open(path) as f:
            return json.load(f)
    except (OSError, ValueError):
        return None


def read_u64(path):
    try:
        a = array.array("Q")
        with open(path, "rb") as f:
            data = f.read()
        a.frombytes(data[:len(data) // 8 * 8])
        return set(a)
    except OSError:
        return set()


def merge_counts(dst, src):
    for k, v in (src or {}).items():
        dst[k] = dst.get(k, 0) + v


def merge_max(dst, src):
    for k, v in (src or {}).items():
        dst[k] = max(dst.get(k, 0), v)


def child_env(flavour, outdir, extra_env):
    env = dict(os.environ)
    env["ASAN_OPTIONS"] = ASAN_OPTIONS
    env["UBSAN_OPTIONS"] = UBSAN_OPTIONS
    env["LSAN_OPTIONS"] = LSAN_OPTIONS
    env["TSAN_OPTIONS"] = ("halt_on_error=0:second_deadlock_stack=1:report_signal_unsafe=0:report_thread_leaks=0:"
                           "exitcode=0:log_path=%s/tsan" % outdir)
    # the SDK reads OTEL_* variables; never inherit them from the caller
    for k in list(env):
        if k.startswith("OTEL_"):
            del env[k]
    env.update(extra_env or {})
    return env


def run_shard(prop, run, exe, tier, seed, cases, start, shard, nshards, outdir, timeout, only=None):
    """Run one shard to completion, resuming after crashes.  Returns ShardResult."""
    res = ShardResult()
    t0 = time.time()
    skip = []
    resumes = 0
    hang_exits = 0
    crash_keys = {}
    os.makedirs(outdir, exist_ok=True)
    cur_start = start
    while True:
        for fn in ("result.json", "violations.jsonl", "progress", "hashes.bin", "sigs.bin"):
            try:
                os.unlink(os.path.join(outdir, fn))
            except OSError:
                pass
        for fn in glob.glob(os.path.join(outdir, "tsan.*")) + glob.glob(os.path.join(outdir, "memcheck.*")):
            os.unlink(fn)
        cmd = [exe, "--seed", str(seed), "--cases", str(cases), "--start", str(cur_start),
               "--shard", "%d/%d" % (shard, nshards), "--tier", tier, "--out", outdir]
        if skip:
            cmd += ["--skip", ",".join(map(str, skip))]
        if only is not None:
            cmd += ["--only", str(only)]
        for k, v in (run.get("params") or {}).items():
            cmd += ["--param", "%s=%s" % (k, v)]
        for k, v in ((run.get("tier_params") or {}).get(tier) or {}).items():
            cmd += ["--param", "%s=%s" % (k, v)]
        if run.get("wrapper") == "memcheck":
            # the uninstrumented build under valgrind: definedness of every value a branch or address depends on
            cmd = ["valgrind", "--tool=memcheck", "--leak-check=no", "--num-callers=16", "--error-limit=no", "-q",
                   "--error-exitcode=0", "--log-file=%s/memcheck.%%p" % outdir] + cmd
        errpath = os.path.join(outdir, "stderr.txt")
        with open(errpath, "wb") as ef:
            p = subprocess.Popen(cmd, stdout=ef, stderr=ef, env=child_env(run["flavour"], outdir, run.get("env")),
                                 cwd=outdir, start_new_session=True)
            timed_out = False
            try:
                p.wait(timeout=timeout)
            except subprocess.TimeoutExpired:
                timed_out = True
                try:
                    os.killpg(p.pid, signal.SIGKILL)
                except OSError:
                    pass
                p.wait()
        rc = p.returncode
        stderr = open(errpath, errors="replace").read()
        result = read_json(os.path.join(outdir, "result.json"))
        # violations recorded by the harness monitors
        vpath = os.path.join(outdir, "violations.jsonl")
        if os.path.exists(vpath):
            for ln in open(vpath, errors="replace"):
                try:
                    v = json.loads(ln)
                except ValueError:
                    continue
                v["run"] = run["name"]
                hp = os.path.join(outdir, "history-%s.jsonl" % v.get("case"))
                if os.path.exists(hp):
                    v["history"] = hp
                if v.get("assertion", "").startswith("hang") and rc == EXIT_HANG:
                    res.hang_candidates.append(v)
                else:
                    res.violations.append(v)
        # TSan reports (never fatal; counted from the logs).  A deadly signal under TSan is a crash.
        tsan_fatal = False
        for key, (cnt, ex) in parse_tsan_logs(glob.glob(os.path.join(outdir, "tsan.*"))).items():
            res.violations.append({"key": "%s/%s" % (prop, key), "detail": ex, "case": None, "seed": seed,
                                   "run": run["name"], "count": cnt})
            if "ERROR: ThreadSanitizer" in ex:
                tsan_fatal = True
        for key, (cnt, ex) in parse_memcheck_logs(glob.glob(os.path.join(outdir, "memcheck.*"))).items():
            res.violations.append({"key": "%s/%s" % (prop, key), "detail": ex, "case": None, "seed": seed,
                                   "run": run["name"], "count": cnt})
        final = bool(result and result.get("final"))
        if result:
            merge_counts(res.counters, result.get("counters"))
            merge_max(res.maxes, result.get("maxes"))
            res.evaluations += result.get("evaluations", 0)
            for s in result.get("samples", []):
                if len(res.samples) < 6:
                    res.samples.append(s)
            # per-key totals (the jsonl keeps only the first witnesses)
            for k, c in (result.get("violation_keys") or {}).items():
                for v in res.violations:
                    if v.get("key") == k:
                        v["count"] = max(v.get("count", 0), c)
        if final:
            res.hashes |= read_u64(os.path.join(outdir, "hashes.bin"))
            res.sigs |= read_u64(os.path.join(outdir, "sigs.bin"))
        sans = parse_sanitizer_stderr(stderr)
        if final and rc == 0 and not sans:
            break
        if final:
            # ran to the end but something was reported at exit (leaks) or non-zero status
            for kind, frame, ex in sans:
                res.violations.append({"key": "%s/%s/%s" % (prop, kind, frame), "detail": ex, "case": None,
                                       "seed": seed, "run": run["name"]})
            if not sans and rc != 0:
                res.harness_failure = "%s exited %s after a final result; stderr tail: %s" % (
                    run["name"], rc, stderr[-800:])
            break
        # not final: crash, hang or harness failure in the middle
        prog = None
        try:
            with open(os.path.join(outdir, "progress"), "rb") as f:
                a = array.array("Q")
                a.frombytes(f.read(16))
                if a[1] == 1:
                    prog = a[0]
        except (OSError, IndexError, ValueError):
            pass
        if timed_out:
            res.hang_candidates.append({"key": "%s/hang/driver-timeout" % prop, "assertion": "hang",
                                        "detail": "shard exceeded %ss wall; last case %s" % (timeout, prog),
                                        "case": prog, "seed": seed, "run": run["name"]})
        elif rc == EXIT_HANG:
            hang_exits += 1  # candidate already collected from violations.jsonl
            if hang_exits >= 3:
                # three watchdog expiries in one shard: enough evidence, do not burn the budget on more
                break
        elif sans:
            res.crashes += 1
            for kind, frame, ex in sans[:3]:
                res.violations.append({"key": "%s/%s/%s" % (prop, kind, frame), "detail": ex, "case": prog,
                                       "seed": seed, "run": run["name"]})
            ck = "%s/%s" % (sans[0][0], sans[0][1])
            crash_keys[ck] = crash_keys.get(ck, 0) + 1
            if crash_keys[ck] >= 8:
                # the same report eight times in one shard: enough evidence, stop burning restarts on it
                break
        elif tsan_fatal:
            res.crashes += 1
        elif rc < 0 or rc in (134, 139):
            res.crashes += 1
            signame = signal.Signals(-rc).name if rc < 0 else str(rc)
            res.violations.append({"key": "%s/abort:%s/%s" % (prop, signame, run["name"]),
                                   "detail": stderr[-1500:], "case": prog, "seed": seed, "run": run["name"]})
        else:
            res.harness_failure = "%s exited %s without a result; stderr tail: %s" % (run["name"], rc, stderr[-1500:])
            break
        if prog is None or only is not None:
            if prog is None and not timed_out and rc != EXIT_HANG and not sans:
                res.harness_failure = "%s died before the first case (rc=%s): %s" % (run["name"], rc, stderr[-800:])
            break
        resumes += 1
        # quick tier: a dozen crashes in one shard are evidence enough (each is already a violation key); going on
        # only costs time on a tree that is broken anyway.  The unchanged tree has no crash at all.
        limit = MAX_RESUMES if tier == "thorough" else 12
        if resumes > limit:
            res.harness_failure = "%s: more than %d crashes in one shard" % (run["name"], limit)
            break
        # resume after the crashed case; cases before the last checkpoint are already merged
        nxt = result.get("next_case", cur_start) if result else cur_start
        skip.append(prog)
        cur_start = max(nxt, cur_start)
    res.wall = time.time() - t0
    return res


# --------------------------------------------------------------------------------------------
# known findings
# --------------------------------------------------------------------------------------------
def load_known():
    p = os.path.join(VERIF, "known_findings.json")
    try:
        data = json.load(open(p))
    except (OSError, ValueError):
        return []
    return data.get("findings", [])


def match_known(key, known):
    for e in known:
        if e.get("status") != "known":
            continue
        pat = e.get("key", "")
        if pat == key or (any(ch in pat for ch in "*?[") and fnmatch.fnmatchcase(key, pat)):
            return e
    return None


# --------------------------------------------------------------------------------------------
# check one property
# --------------------------------------------------------------------------------------------
def build_runs(spec, tier):
    """Build every harness the property's runs need (in parallel).  Returns {run name: exe}."""
    runs = [r for r in spec["runs"] if tier in r.get("tiers", ("quick", "thorough"))]
    exes = {}
    errs = []

    def one(r):
        try:
            exes[r["name"]] = build.build_harness(r["harness"], r["sources"], r["flavour"],
                                                  extra_flags=r.get("cxxflags", ()),
                                                  need_lib=r.get("need_lib", True), log=log,
                                                  cxx=r.get("cxx"), extra_link=r.get("ldflags", ()))
        except build.BuildError as e:
            fb = r.get("fallback_flavour")
            if fb:
                try:
                    log("build of %s failed under %s; falling back to %s" % (r["name"], r["flavour"], fb))
                    r["flavour_used"] = fb
                    exes[r["name"]] = build.build_harness(r["harness"], r["sources"], fb,
                                                          extra_flags=r.get("cxxflags", ()),
                                                          need_lib=r.get("need_lib", True), log=log)
                    return
                except build.BuildError as e2:
                    errs.append(str(e2))
                    return
            errs.append(str(e))

    # libs first (serialised inside build_lib by flock), harness TUs in parallel
    for fl in sorted(set(r["flavour"] for r in runs if r.get("need_lib", True))):
        try:
            build.build_lib(fl, log=log)
        except build.BuildError as e:
            errs.append(str(e))
    if errs:
        raise build.BuildError("\n".join(errs))
    with ThreadPoolExecutor(max_workers=8) as ex:
        list(ex.map(one, runs))
    if errs:
        raise build.BuildError("\n".join(errs))
    return runs, exes


def check_property(prop, spec, tier, seed, replay=None, keep=False):
    t0 = time.time()
    known = load_known()
    # runs against a scratch copy of the repository (VERIF_REPO=...) never touch the committed evidence
    evroot = VERIF if os.path.realpath(build.REPO) == "/repo" else build.BUILD
    evidence_path = os.path.join(evroot, "evidence", "%s.json" % prop)
    os.makedirs(os.path.join(evroot, "evidence", "replays"), exist_ok=True)
    try:
        runs, exes = build_runs(spec, tier)
    except build.BuildError as e:
        log("BUILD FAILED: %s" % e)
        print("HARNESS-FAILURE property=%s build failed" % prop)
        return 2
    workdir = os.path.join(build.BUILD, "run", "%s-%s-%d" % (prop, tier, os.getpid()))
    shutil.rmtree(workdir, ignore_errors=True)
    os.makedirs(workdir)

    total = ShardResult()
    engines = []
    failures = []
    pool = ThreadPoolExecutor(max_workers=int(os.environ.get("VERIF_JOBS", "16")))

    def launch(run, cases_from, cases_to, tag):
        nsh = run.get("shards", {}).get(tier, 1)
        timeout = run.get("timeout", {}).get(tier, 900 if tier == "quick" else 7200)
        futs = []
        for sh in range(nsh):
            od = os.path.join(workdir, "%s-%s-%d" % (run["name"], tag, sh))
            futs.append(pool.submit(run_shard, prop, run, exes[run["name"]], tier, seed, cases_to, cases_from,
                                    sh, nsh, od, timeout))
        return futs

    def absorb(run, futs):
        eng = {"run": run["name"], "harness": run["harness"], "flavour": run.get("flavour_used", run["flavour"]),
               "evaluations": 0, "crashes": 0, "wall_s": 0.0}
        for fu in futs:
            r = fu.result()
            merge_counts(total.counters, r.counters)
            merge_max(total.maxes, r.maxes)
            total.evaluations += r.evaluations
            total.hashes |= r.hashes
            total.sigs |= r.sigs
            total.violations += r.violations
            total.hang_candidates += [dict(h, _run=run) for h in r.hang_candidates]
            total.crashes += r.crashes
            for s in r.samples:
                if len(total.samples) < 8:
                    total.samples.append(s)
            if r.harness_failure:
                failures.append(r.harness_failure)
            eng["evaluations"] += r.evaluations
            eng["crashes"] += r.crashes
            eng["wall_s"] = round(max(eng["wall_s"], r.wall), 2)
        return eng

    if replay:
        rp = json.load(open(replay))
        offline_hit = False
        if rp.get("history"):
            # the verdict on a recorded history does not depend on reproducing the schedule
            hp = os.path.join(VERIF, rp["history"])
            r0 = subprocess.run([sys.executable, os.path.join(VERIF, "monitors", "history.py"), hp],
                                stdout=subprocess.PIPE, text=True)
            print("offline re-check of the recorded history (%s):" % rp["history"])
            print(r0.stdout.rstrip())
            want = "/".join(rp["key"].split("/")[:3])
            offline_hit = any(want in ln for ln in r0.stdout.splitlines())
            print("OFFLINE-%s %s" % ("CONFIRMED" if offline_hit else "NOT-CONFIRMED", rp["key"]))
        run = next(r for r in runs if r["name"] == rp["run"])
        od = os.path.join(workdir, "replay")
        r = run_shard(prop, run, exes[run["name"]], tier, rp["seed"], rp["case"] + 1, 0, 0, 1, od, 900,
                      only=rp["case"])
        keys = sorted(set(v["key"] for v in r.violations + r.hang_candidates))
        print("replay of %s: observed keys %s" % (replay, keys))
        hit = rp["key"] in keys
        print("REPRODUCED" if hit else "NOT-REPRODUCED", rp["key"])
        hit = hit or offline_hit
        if not keep:
            shutil.rmtree(workdir, ignore_errors=True)
        return 1 if hit else 0

    pending = []
    for run in runs:
        n = run["cases"][tier]
        pending.append((run, launch(run, 0, n, "a")))
    for run, futs in pending:
        engines.append(absorb(run, futs))

    # coverage floors: repeat with more cases (doubling) before declaring the run vacuous
    floors = dict(spec.get("floors", {}).get(tier, {}))

    def unmet():
        return {k: (need, total.counters.get(k, 0)) for k, need in floors.items() if total.counters.get(k, 0) < need}

    rounds = 0
    mult = 1
    # (pointless once something was found: the verdict is already "violated" / needs the hang re-run)
    def found_new():
        return bool(total.hang_candidates) or any(not match_known(v["key"], known) for v in total.violations)

    while unmet() and rounds < 3 and not failures and not found_new():
        rounds += 1
        log("coverage floors not met %s; extending the workload (round %d)" % (unmet(), rounds))
        pend = []
        for run in runs:
            n = run["cases"][tier]
            pend.append((run, launch(run, n * mult, n * mult * 2, "x%d" % rounds)))
        for run, futs in pend:
            e = absorb(run, futs)
            e["run"] += "+ext%d" % rounds
            engines.append(e)
        mult *= 2

    # hang candidates: re-run the case alone; a second expiry makes it a violation
    unreproduced = 0
    # two expiries with the same blocked operation (in different cases / shards of this run) are a hang verdict
    # by themselves; a single expiry is re-run alone (schedule-dependent hangs need several attempts)
    hang_keys = {}
    for h in total.hang_candidates:
        hang_keys.setdefault(h.get("key"), []).append(h)
    singles = []
    for k, hs in hang_keys.items():
        if len(hs) >= 2:
            w = dict(hs[0])
            w.pop("_run", None)
            w["count"] = len(hs)
            w["detail"] = (w.get("detail") or "") + " [%d independent watchdog expiries with this blocked operation in this run]" % len(hs)
            total.violations.append(w)
        else:
            singles.append(hs[0])
    for h in singles[:3]:
        run = h.pop("_run")
        again = False
        if h.get("case") is not None:
            for attempt in range(6):
                od = os.path.join(workdir, "hang-%s-%s-%d" % (run["name"], h["case"], attempt))
                r = run_shard(prop, run, exes[run["name"]], tier, h["seed"], h["case"] + 1, 0, 0, 1, od, 900,
                              only=h["case"])
                if r.hang_candidates:
                    again = True
                    break
                total.violations += r.violations
        if again:
            total.violations.append(h)
        else:
            unreproduced += 1
            log("watchdog expiry not reproduced: %s" % h.get("key"))

    # cross-validation of the history oracle: histories on which the harness's checker found nothing, dumped by
    # the harness (param xcheck), are re-checked by the independent Python implementation; a disagreement means one
    # of the two oracles is wrong - that is a harness failure (exit 2), never a verdict on the code
    xfiles = sorted(glob.glob(os.path.join(workdir, "*", "xcheck-*.jsonl")))
    if xfiles:
        def offline(p):
            r0 = subprocess.run([sys.executable, os.path.join(VERIF, "monitors", "history.py"), p],
                                stdout=subprocess.PIPE, stderr=subprocess.STDOUT, text=True)
            return p, r0.returncode, r0.stdout
        agree = 0
        for p, rc0, out0 in pool.map(offline, xfiles):
            # the offline checker judges the clauses of C01, C02 and C03 at once; this check only speaks for its own
            mine = [ln for ln in out0.splitlines() if ln.startswith("VIOLATED %s/" % prop)]
            if rc0 == 0 or (rc0 == 1 and not mine):
                agree += 1
            else:
                keep_p = os.path.join(evroot, "evidence", "replays", "%s-xcheck-%s" % (prop, os.path.basename(p)))
                shutil.copyfile(p, keep_p)
                failures.append("oracle disagreement: harness checker silent, monitors/history.py reports %s on %s" % (
                    " | ".join(mine[:3] or out0.strip().splitlines()[:3])[:600], os.path.relpath(keep_p, VERIF)))
        total.counters["histories_cross_checked_offline"] = len(xfiles)
        total.counters["histories_cross_checked_agreeing"] = agree

    # classify
    by_key = {}
    for v in total.violations:
        k = v["key"]
        e = by_key.setdefault(k, {"count": 0, "witness": v})
        e["count"] += v.get("count", 1)
    new_keys = []
    known_hits = []
    for k in sorted(by_key):
        e = match_known(k, known)
        if e and e.get("property") == prop:
            known_hits.append((k, e))
        else:
            new_keys.append(k)

    # one line per listed finding (an entry may cover several keys of the same defect)
    seen_entries = []
    for k, e in known_hits:
        if any(e is x for x in seen_entries):
            continue
        seen_entries.append(e)
        ks = [kk for kk, ee in known_hits if ee is e]
        print("KNOWN-FINDING: property=%s %s [%s%s]" % (prop, e.get("what", ""), e.get("key"),
                                                       "; %d key(s) observed" % len(ks) if len(ks) > 1 else ""))
    replay_paths = {}
    for k in new_keys:
        w = by_key[k]["witness"]
        rp = os.path.join(evroot, "evidence", "replays", "%s-%s.json" % (prop, hashlib.sha1(k.encode()).hexdigest()[:10]))
        hist = None
        if w.get("history") and os.path.exists(w["history"]):
            # the recorded witness history travels with the replay file (re-checked by monitors/history.py)
            hist = rp[:-5] + ".history.jsonl"
            shutil.copyfile(w["history"], hist)
        with open(rp, "w") as f:
            json.dump({"property": prop, "key": k, "run": w.get("run"), "seed": w.get("seed"), "case": w.get("case"),
                       "tier": tier, "count": by_key[k]["count"], "detail": w.get("detail"),
                       "history": os.path.relpath(hist, VERIF) if hist else None}, f, indent=1)
        replay_paths[k] = rp
        print("VIOLATION property=%s replay=%s key=%s" % (prop, os.path.relpath(rp, VERIF), k))

    um = unmet()
    status = 0
    if new_keys:
        status = 1
    elif failures or um or unreproduced:
        status = 2
    for f in failures:
        print("HARNESS-FAILURE property=%s %s" % (prop, f[:1500]))
    if um and not new_keys:
        print("INCONCLUSIVE property=%s coverage floors not met: %s" % (prop, um))
    if unreproduced and not new_keys:
        print("INCONCLUSIVE property=%s %d watchdog expiry(ies) not reproduced" % (prop, unreproduced))

    distinct = len(total.hashes)
    cov = {
        "evaluations": total.evaluations,
        "distinct_nontrivial": distinct,
        "rule": spec["rule"] + spec.get("rule_extra", ""),
        "samples": total.samples[:8] or ["(no sample recorded)"],
        "exhaustive": False,
        "counters": dict(sorted(total.counters.items())),
        "maxima": dict(sorted(total.maxes.items())),
        "floors": {k: {"need": need, "got": total.counters.get(k, 0)} for k, need in floors.items()},
        "distinct_signatures": len(total.sigs),
        "engines": engines,
        "sanitizer_crashes": total.crashes,
        "violation_keys_new": new_keys,
        "known_findings_hit": [k for k, _ in known_hits],
        "verdict": {0: "held-on-observed", 1: "violated", 2: "inconclusive"}[status],
    }
    for k, v in (spec.get("coverage_extra") or {}).items():
        cov[k] = v
    ev = {
        "property_id": prop,
        "tier": tier,
        "seed": seed,
        "level": spec.get("level", "exploration"),
        "coverage": cov,
        "assumptions": spec.get("assumptions", []),
        "wall_s": round(time.time() - t0, 2),
        "violations": len(new_keys),
    }
    tmp = evidence_path + ".tmp%d" % os.getpid()
    with open(tmp, "w") as f:
        json.dump(ev, f, indent=1)
    os.replace(tmp, evidence_path)
    log("%s %s seed=%d: %d evaluations, %d distinct non-trivial, %d new key(s), %d known, status %d, %.1fs" % (
        prop, tier, seed, total.evaluations, distinct, len(new_keys), len(known_hits), status, time.time() - t0))
    if not keep and status == 0:
        shutil.rmtree(workdir, ignore_errors=True)
    elif not keep:
        # keep stderr of the shards for triage, drop bulky files
        for fn in glob.glob(os.path.join(workdir, "*", "hashes.bin")) + glob.glob(os.path.join(workdir, "*", "sigs.bin")):
            os.unlink(fn)
    pool.shutdown()
    return status
