#!/bin/bash
# usage: vf/mutate_campaign.sh <scratch worktree> "<property ids>" <mutants per property> [seed]
# results: /tmp/mut/<property>.jsonl (one line per mutant), see vf/mutate.py
cd "$(dirname "$0")/.."
wt=$1; n=$3; seed=${4:-1}
mkdir -p /tmp/mut
for p in $2; do
  checks=$p
  case $p in C01|C02|C03) checks="C02,C01,C03";; esac
  python3 vf/mutate.py "$wt" "$p" "$n" --seed "$seed" --checks "$checks" --out "/tmp/mut/$p.jsonl"
done
