// C16 — B3 (single and multi header) and Jaeger propagation: round-trip identity of ids and of
// the sampling decision for every flags byte, the documented extraction variants, and total
// extraction: for arbitrary bytes either a context with non-zero ids is installed or the caller's
// context comes back.
// Engine E1: the real header-only propagators under ASan+UBSan; an independent recogniser of the
// documented header forms decides must-accept inputs and their values, everything else is judged
// only by the universal rule.  Every run enumerates ALL single-byte mutants of valid `b3`
// (51 bytes) and `uber-trace-id` (54 bytes) headers and of the X-B3-* fields, and all 256 flag
// bytes x 3 propagators.  Carrier views are exact-size, non-terminated, killed after each call.
#include "opentelemetry/trace/propagation/b3_propagator.h"
#include "opentelemetry/trace/propagation/jaeger.h"

#include "vf_propagation.h"

using namespace vfp;
namespace propagation = opentelemetry::trace::propagation;
using vf::Rng;

static const std::string kB3   = "b3";
static const std::string kXTid = "X-B3-TraceId";
static const std::string kXSid = "X-B3-SpanId";
static const std::string kXSam = "X-B3-Sampled";
static const std::string kXPar = "X-B3-ParentSpanId";
static const std::string kUber = "uber-trace-id";

enum Prop
{
  kB3Single = 0,
  kB3Multi  = 1,
  kJaeger   = 2
};
static const char *const kPropName[3] = {"b3single", "b3multi", "jaeger"};

static context_api::propagation::TextMapPropagator &propagator(int p)
{
  static propagation::B3Propagator single;
  static propagation::B3PropagatorMultiHeader multi;
  static propagation::JaegerPropagator jaeger;
  if (p == kB3Single)
    return single;
  if (p == kB3Multi)
    return multi;
  return jaeger;
}

// ------------------------------------------------------------------------------------------
// recognisers of the documented forms (independent of the implementation).  accept=false means
// "not one of the documented forms": the statement then only demands the universal rule.
// ------------------------------------------------------------------------------------------
struct Rec
{
  bool accept = false;
  std::string cls;       // canonical input class
  std::string tid, sid;  // 32 / 16 lowercase hex
  bool sampled = false;
};

static std::vector<std::string> split(const std::string &s, char sep)
{
  std::vector<std::string> f;
  size_t pos = 0;
  for (;;)
  {
    size_t c = s.find(sep, pos);
    if (c == std::string::npos)
    {
      f.push_back(s.substr(pos));
      return f;
    }
    f.push_back(s.substr(pos, c - pos));
    pos = c + 1;
  }
}

// class of an id field that is not in a documented width/alphabet; "" if it is documented
static std::string id_problem(const std::string &h, size_t full, bool half_allowed, const char *name)
{
  if (!all_hex(h))
    return std::string("non-hex-") + name;
  if (!all_lower_hex(h))
    return std::string("uppercase-hex-") + name;
  if (h.size() == full || (half_allowed && h.size() == full / 2))
    return "";
  if (h.empty())
    return std::string("empty-") + name;
  if (h.size() > full)
    return std::string("over-long-") + name;
  return std::string(h.size() % 2 ? "odd-length-" : "short-") + name;
}

static std::string pad32(const std::string &h)
{
  return std::string(32 - h.size(), '0') + h;
}

static Rec rec_b3_single(const std::string &v)
{
  Rec r;
  if (v.empty())
  {
    r.cls = "b3:empty";
    return r;
  }
  std::vector<std::string> f = split(v, '-');
  if (f.size() < 2)
  {
    r.cls = "b3:fields<2";
    return r;
  }
  if (f.size() > 4)
  {
    r.cls = "b3:fields>4";
    return r;
  }
  std::string p = id_problem(f[0], 32, true, "trace-id");
  if (p.empty())
    p = id_problem(f[1], 16, false, "span-id");
  if (p.empty() && f.size() >= 3 && f[2] != "0" && f[2] != "1" && f[2] != "d")
    p = "sampling-state";
  if (p.empty() && f.size() == 4 && id_problem(f[3], 16, false, "parent") != "")
    p = "parent-id";
  if (p.empty() && all_zero_digits(f[0]))
    p = "zero-trace-id";
  if (p.empty() && all_zero_digits(f[1]))
    p = "zero-span-id";
  if (!p.empty())
  {
    r.cls = "b3:" + p;
    return r;
  }
  r.accept  = true;
  r.tid     = pad32(f[0]);
  r.sid     = f[1];
  r.sampled = f.size() >= 3 && (f[2] == "1" || f[2] == "d");
  r.cls     = std::string("b3:") + (f[0].size() == 16 ? "tid16" : "tid32") +
          (f.size() < 3 ? "-nosampling" : f[2] == "d" ? "-debug" : f[2] == "1" ? "-s1" : "-s0") + (f.size() == 4 ? "-parent" : "");
  return r;
}

struct Opt
{
  bool has = false;
  std::string v;
  Opt() {}
  Opt(const std::string &s) : has(true), v(s) {}
};

static Rec rec_b3_multi(const Opt &tid, const Opt &sid, const Opt &sam)
{
  Rec r;
  std::string p;
  if (!tid.has)
    p = "no-trace-id";
  else if (!sid.has)
    p = "no-span-id";
  if (p.empty())
    p = id_problem(tid.v, 32, true, "trace-id");
  if (p.empty())
    p = id_problem(sid.v, 16, false, "span-id");
  if (p.empty() && sam.has && sam.v != "0" && sam.v != "1")
    p = "sampling-state";
  if (p.empty() && all_zero_digits(tid.v))
    p = "zero-trace-id";
  if (p.empty() && all_zero_digits(sid.v))
    p = "zero-span-id";
  if (!p.empty())
  {
    r.cls = "multi:" + p;
    return r;
  }
  r.accept  = true;
  r.tid     = pad32(tid.v);
  r.sid     = sid.v;
  r.sampled = sam.has && sam.v == "1";
  r.cls     = std::string("multi:") + (tid.v.size() == 16 ? "tid16" : "tid32") + (!sam.has ? "-nosampling" : sam.v == "1" ? "-s1" : "-s0");
  return r;
}

static Rec rec_jaeger(bool present, const std::string &v)
{
  Rec r;
  if (!present)
  {
    r.cls = "jaeger:absent";
    return r;
  }
  if (v.empty())
  {
    r.cls = "jaeger:empty";
    return r;
  }
  std::vector<std::string> f = split(v, ':');
  if (f.size() != 4)
  {
    r.cls = f.size() < 4 ? "jaeger:fields<4" : "jaeger:fields>4";
    return r;
  }
  std::string p = id_problem(f[0], 32, true, "trace-id");
  if (p.empty())
    p = id_problem(f[1], 16, false, "span-id");
  if (p.empty() && !(f[2] == "0" || id_problem(f[2], 16, false, "parent").empty()))
    p = "parent-id";
  if (p.empty() && !((f[3].size() == 1 || f[3].size() == 2) && all_lower_hex(f[3])))
    p = "flags";
  if (p.empty() && all_zero_digits(f[0]))
    p = "zero-trace-id";
  if (p.empty() && all_zero_digits(f[1]))
    p = "zero-span-id";
  if (!p.empty())
  {
    r.cls = "jaeger:" + p;
    return r;
  }
  r.accept  = true;
  r.tid     = pad32(f[0]);
  r.sid     = f[1];
  r.sampled = (hexval(f[3].back()) & 1) != 0;
  r.cls     = std::string("jaeger:") + (f[0].size() == 16 ? "tid16" : "tid32") + (f[3].size() == 1 ? "-flags1digit" : "-flags2digits") +
          (f[2].size() == 16 ? "-parent" : "");
  return r;
}

// what a B3 extractor must do with a whole carrier (single header has precedence)
struct B3In
{
  Opt b3, tid, sid, sam, par;
};

static Rec rec_b3(const B3In &in, Rec *shadowed = nullptr)
{
  bool multi_present = in.tid.has || in.sid.has || in.sam.has;
  if (in.b3.has && !in.b3.v.empty())
  {
    Rec r = rec_b3_single(in.b3.v);
    if (multi_present)
    {
      Rec m = rec_b3_multi(in.tid, in.sid, in.sam);
      if (r.accept)
      {
        r.cls += "+multi";
        if (shadowed && m.accept)
          *shadowed = m;
      }
      else
        r.cls += "+multi";  // malformed b3 next to X-B3-*: fall back or refuse, not decided
    }
    return r;
  }
  if (in.b3.has)
  {
    Rec r;  // an empty b3 value: whether it counts as present is not decided
    if (!multi_present)
    {
      r.cls = "b3:empty";
      return r;
    }
    r        = rec_b3_multi(in.tid, in.sid, in.sam);
    r.accept = false;
    r.cls    = "b3:empty+multi";
    return r;
  }
  if (!multi_present)
  {
    Rec r;
    r.cls = "b3:absent";
    return r;
  }
  return rec_b3_multi(in.tid, in.sid, in.sam);
}

// ------------------------------------------------------------------------------------------
// one Extract, judged
// ------------------------------------------------------------------------------------------
static void judge_extract(Rng &r, int p, Carrier &c, const Rec &rec, const Rec *shadowed, const char *origin, uint64_t *hash)
{
  auto &R = vf::report();
  std::string witness = std::string(kPropName[p]) + " carrier " + c.show();
  if (hash)
    *hash = vf::mix(*hash, vf::fnv1a(witness));
  Caller caller = make_caller(r);
  witness += " caller=" + caller.kind;
  context_api::Context out = extract_stable(propagator(p), c, caller, rec.cls, witness);
  c.kill(r.coin());
  Outcome o = judge_returned(caller, out, rec.cls, witness);
  R.count("extracts");
  R.count(std::string("extracts_") + origin);
  if (!rec.accept)
  {
    R.count("extract_undocumented_form");
    R.count(o.installed ? "extract_undocumented_installed" : "extract_undocumented_refused");
    R.count("other:" + rec.cls);
    return;
  }
  R.count("extract_must_accept");
  R.count("accept:" + rec.cls);
  if (!o.installed)
  {
    R.violation("extract-accepts-documented", rec.cls, "refused a documented form; " + witness);
    return;
  }
  if (!o.valid)
    return;
  std::string want = "want tid=" + rec.tid + " sid=" + rec.sid + (rec.sampled ? " sampled" : " not sampled");
  if (tid_hex(o.sc) != rec.tid || sid_hex(o.sc) != rec.sid)
  {
    if (shadowed && shadowed->accept && tid_hex(o.sc) == shadowed->tid && sid_hex(o.sc) == shadowed->sid)
      R.violation("b3-single-precedence", rec.cls, "the X-B3-* values won over b3: got " + show_sc(o.sc) + " " + want + "; " + witness);
    else
      R.violation("extract-ids", rec.cls, "got " + show_sc(o.sc) + " " + want + "; " + witness);
  }
  else if (o.sc.IsSampled() != rec.sampled)
    R.violation("extract-sampled", rec.cls, "got " + show_sc(o.sc) + " " + want + "; " + witness);
  if (!o.sc.IsRemote())
    R.violation("extract-remote", rec.cls, "extracted context is not marked remote; " + witness);
}

static void extract_b3(Rng &r, const B3In &in, const char *origin, uint64_t *hash)
{
  Rec shadowed;
  Rec rec = rec_b3(in, &shadowed);
  Carrier c;
  if (in.b3.has)
    c.put(kB3, in.b3.v);
  if (in.tid.has)
    c.put(kXTid, in.tid.v);
  if (in.sid.has)
    c.put(kXSid, in.sid.v);
  if (in.sam.has)
    c.put(kXSam, in.sam.v);
  if (in.par.has)
    c.put(kXPar, in.par.v);
  if (rec.accept && rec.cls.find("+multi") != std::string::npos && shadowed.accept)
    vf::report().count("extract_b3_precedence_cases");
  judge_extract(r, r.coin() ? kB3Single : kB3Multi, c, rec, &shadowed, origin, hash);
}

static void extract_b3_single(Rng &r, const std::string &v, const char *origin, uint64_t *hash)
{
  B3In in;
  in.b3 = Opt(v);
  extract_b3(r, in, origin, hash);
}

static void extract_jaeger(Rng &r, bool present, const std::string &v, const char *origin, uint64_t *hash)
{
  Rec rec = rec_jaeger(present, v);
  Carrier c;
  if (present)
    c.put(kUber, v);
  if (r.chance(1, 8))
    c.put(kB3, "80f198ee56343ba864fe8b2a57d3eff7-e457b5a2e4d86bd1-1");  // another format's header must not matter
  judge_extract(r, kJaeger, c, rec, nullptr, origin, hash);
}

// ------------------------------------------------------------------------------------------
// inject + round trip
// ------------------------------------------------------------------------------------------
static std::string rt_class(int p, uint8_t flags)
{
  return std::string(kPropName[p]) + ":" + ((flags & 0x0e) ? "flags&0x0e!=0" : (flags & 0xf0) ? "flags&0xf0!=0" : "flags<=0x01");
}

static void roundtrip(Rng &r, int p, const std::string &tid, const std::string &sid, uint8_t flags, const char *origin)
{
  auto &R = vf::report();
  trace_api::SpanContext sc(trace_id_of(tid), span_id_of(sid), trace_api::TraceFlags(flags), r.coin());
  context_api::Context ctx;
  if (r.coin())
    ctx = ctx.SetValue(kMarkerKey, static_cast<int64_t>(5));
  nostd::shared_ptr<trace_api::Span> sp(new trace_api::DefaultSpan(sc));
  ctx = ctx.SetValue(trace_api::kSpanKey, sp);
  Carrier c;
  // A reused carrier: one time in three the header map already holds what the SAME propagator injected for a
  // different context with the opposite sampled decision (a proxy copying incoming headers, a pooled request
  // object).  Inject must overwrite every header it owns, so the round trip below is judged exactly as on a
  // fresh carrier.  (Seeded change C16-w2-2 left a stale X-B3-Sampled: 1 behind.)
  bool reused = r.chance(1, 3);
  if (reused)
  {
    uint8_t other_flags = static_cast<uint8_t>((flags ^ 1) | (r.coin() ? 0 : (r.below(256) & 0xfe)));
    std::string otid = tid, osid = sid;
    otid[r.below(16)] = static_cast<char>(otid[0] ^ 0x5a ^ 1);
    osid[r.below(8)]  = static_cast<char>(osid[0] ^ 0x33 ^ 1);
    bool nz = false;
    for (char ch : otid)
      nz |= ch != 0;
    bool nz2 = false;
    for (char ch : osid)
      nz2 |= ch != 0;
    if (nz && nz2)
    {
      trace_api::SpanContext osc(trace_id_of(otid), span_id_of(osid), trace_api::TraceFlags(other_flags), false);
      nostd::shared_ptr<trace_api::Span> osp(new trace_api::DefaultSpan(osc));
      context_api::Context octx = context_api::Context{}.SetValue(trace_api::kSpanKey, osp);
      propagator(p).Inject(c, octx);
      R.count("roundtrips_reused_carrier");
    }
    else
      reused = false;
  }
  propagator(p).Inject(c, ctx);
  std::string cls     = rt_class(p, flags) + (reused ? ":reused-carrier" : "");
  std::string want_t  = vf::hexs(tid.data(), 16), want_s = vf::hexs(sid.data(), 8);
  bool want_sampled   = (flags & 1) != 0;
  std::string witness = std::string(kPropName[p]) + " context tid=" + want_t + " sid=" + want_s + " flags=" + hex_byte(flags) +
                        " -> carrier " + c.show();
  R.count("roundtrips");
  R.count(std::string("roundtrips_") + kPropName[p]);
  R.count(std::string("roundtrips_") + origin);
  if (flags > 1)
    R.count("roundtrips_flags_other_bits");
  if (R.want_sample(8) && r.chance(1, 512))
    R.sample("round trip: " + witness);
  // what the independent recogniser reads from the injected carrier (judged only if the round trip passes)
  Rec wire;
  if (p == kJaeger)
    wire = rec_jaeger(c.has(kUber), c.value(kUber));
  else
  {
    B3In in;
    if (c.has(kB3))
      in.b3 = Opt(c.value(kB3));
    if (c.has(kXTid))
      in.tid = Opt(c.value(kXTid));
    if (c.has(kXSid))
      in.sid = Opt(c.value(kXSid));
    if (c.has(kXSam))
      in.sam = Opt(c.value(kXSam));
    wire = rec_b3(in);
  }
  Caller caller = make_caller(r, -1, &sc);
  context_api::Context out = extract_stable(propagator(p), c, caller, "roundtrip:" + cls, witness);
  c.kill(r.coin());
  Outcome o = judge_returned(caller, out, "roundtrip:" + cls, witness);
  bool ok   = false;
  if (!o.installed)
    R.violation("roundtrip-refused", cls, "Extract refused what Inject wrote; " + witness);
  else if (o.valid)
  {
    ok = true;
    if (tid_hex(o.sc) != want_t || sid_hex(o.sc) != want_s)
    {
      ok = false;
      R.violation("roundtrip-ids", cls, "got " + show_sc(o.sc) + "; " + witness);
    }
    if (o.sc.IsSampled() != want_sampled)
    {
      ok = false;
      R.violation("roundtrip-sampled", cls,
                  std::string("extracted ") + (o.sc.IsSampled() ? "sampled" : "not sampled") + ", injected " +
                      (want_sampled ? "sampled" : "not sampled") + "; " + witness);
    }
    if (!o.sc.IsRemote())
    {
      ok = false;
      R.violation("roundtrip-remote", cls, "extracted context is not marked remote; " + witness);
    }
  }
  if (!ok)
    return;
  // compensating encode/decode errors: the wire form, read by the model, must say the same
  if (!wire.accept)
  {
    R.count("inject_wire_undocumented_form");
    return;
  }
  R.count("inject_wire_judged");
  if (wire.tid != want_t || wire.sid != want_s || wire.sampled != want_sampled)
    R.violation("inject-wire-values", cls,
                "the header decodes (by the documented format) to tid=" + wire.tid + " sid=" + wire.sid +
                    (wire.sampled ? " sampled" : " not sampled") + "; " + witness);
}

// ------------------------------------------------------------------------------------------
// enumerated block
// ------------------------------------------------------------------------------------------
static const uint64_t kKinds  = 12;
static const uint64_t kStride = 72;  // 0..67 substitute, 68 append, 69 prepend, 70 cuts, 71 flags sweep

struct Base
{
  int format;  // 0 b3 single, 1 jaeger, 2 multi
  std::string header;
  std::string tid, sid;  // raw bytes
  bool canonical;        // the 51-byte b3 / 54-byte uber-trace-id form
};

static std::string one_digit_id(Rng &r, size_t nbytes)
{
  std::string b(nbytes, '\0');
  b[r.below(nbytes)] = static_cast<char>(r.coin() ? (1 + r.below(15)) : ((1 + r.below(15)) << 4));
  return b;
}

static Base make_base(uint64_t run_seed, uint64_t b)
{
  Rng r(vf::mix(vf::mix(run_seed, 0xC16BA5Eull), b));
  Base base;
  unsigned kind = static_cast<unsigned>(b % kKinds);
  base.tid      = r.anybytes(16);
  base.sid      = r.anybytes(8);
  base.tid[0] |= 0x10;
  base.tid[8] |= 0x10;
  base.sid[0] |= 0x10;
  if (kind == 2 || kind == 7)
  {
    base.tid = one_digit_id(r, 16);
    base.sid = one_digit_id(r, 8);
  }
  std::string t32 = vf::hexs(base.tid.data(), 16), t16 = t32.substr(16), s16 = vf::hexs(base.sid.data(), 8);
  std::string parent = vf::hexs(r.anybytes(8).data(), 8);
  base.canonical     = false;
  base.format        = kind < 6 ? 0 : kind < 11 ? 1 : 2;
  switch (kind)
  {
    case 0:
      base.header    = t32 + "-" + s16 + "-1";
      base.canonical = true;
      break;
    case 1:
      base.header    = t32 + "-" + s16 + "-d";
      base.canonical = true;
      break;
    case 2:
      base.header    = t32 + "-" + s16 + "-0";
      base.canonical = true;
      break;
    case 3:
      base.header = t16 + "-" + s16 + "-1";
      break;
    case 4:
      base.header = t32 + "-" + s16 + "-" + (r.coin() ? "1" : "d") + "-" + parent;
      break;
    case 5:
      base.header = t32 + "-" + s16;
      break;
    case 6:
      base.header    = t32 + ":" + s16 + ":0:01";
      base.canonical = true;
      break;
    case 7:
      base.header    = t32 + ":" + s16 + ":0:00";
      base.canonical = true;
      break;
    case 8:
      base.header    = t32 + ":" + s16 + ":0:" + hex_byte(static_cast<uint8_t>(r.below(256)));
      base.canonical = true;
      break;
    case 9:
      base.header = t16 + ":" + s16 + ":0:" + (r.coin() ? "1" : "3");
      break;
    case 10:
      base.header = t32 + ":" + s16 + ":" + parent + ":1";
      break;
    default:
      base.header = t32 + s16;  // multi: the two id fields laid side by side
  }
  return base;
}

static void extract_multi(Rng &r, const std::string &tid, const std::string &sid, const Opt &sam, const char *origin, uint64_t *hash)
{
  B3In in;
  in.tid = Opt(tid);
  in.sid = Opt(sid);
  in.sam = sam;
  extract_b3(r, in, origin, hash);
}

static void enum_case(uint64_t run_seed, uint64_t b, uint64_t slot, uint64_t case_seed)
{
  auto &R = vf::report();
  Rng r(case_seed);
  Base base      = make_base(run_seed, b);
  const size_t n = base.header.size();
  uint64_t h     = vf::mix(b, slot);
  auto run       = [&](const std::string &m, const char *origin) {
    if (base.format == 0)
      extract_b3_single(r, m, origin, &h);
    else if (base.format == 1)
      extract_jaeger(r, true, m, origin, &h);
    else
      extract_multi(r, m.substr(0, std::min<size_t>(32, m.size())), m.size() > 32 ? m.substr(32) : "", r.coin() ? Opt("1") : Opt(),
                    origin, &h);
  };
  if (slot < 68)
  {
    if (slot >= n && !(base.format == 2 && slot == 48))
      return;
    if (base.format == 2 && slot == 48)
    {
      // X-B3-Sampled: absent, empty, every single byte, and the legacy spellings
      std::string t32 = base.header.substr(0, 32), s16 = base.header.substr(32);
      extract_multi(r, t32, s16, Opt(), "enum_substitute", &h);
      extract_multi(r, t32, s16, Opt(""), "enum_substitute", &h);
      for (unsigned v = 0; v < 256; ++v)
        extract_multi(r, t32, s16, Opt(std::string(1, static_cast<char>(v))), "enum_substitute", &h);
      for (const char *s : {"true", "false", "01", "00", "1 ", " 1", "11", "dd", "TRUE", "10"})
        extract_multi(r, t32, s16, Opt(s), "enum_substitute", &h);
      R.count("enum_multi_sampled_values", 268);
      R.nontrivial(h);
      return;
    }
    for (unsigned v = 0; v < 256; ++v)
    {
      std::string m = base.header;
      m[slot]       = static_cast<char>(v);
      run(m, "enum_substitute");
    }
    if (base.format == 0)
      R.count(base.canonical ? "enum_b3_single_byte_mutants_51" : "enum_b3_single_byte_mutants_other_forms", 256);
    else if (base.format == 1)
      R.count(base.canonical ? "enum_jaeger_single_byte_mutants_54" : "enum_jaeger_single_byte_mutants_other_forms", 256);
    else
      R.count("enum_multi_id_single_byte_mutants", 256);
  }
  else if (slot == 68 || slot == 69)
  {
    if (base.format == 2)
      return;
    for (unsigned v = 0; v < 256; ++v)
      run(slot == 68 ? base.header + std::string(1, static_cast<char>(v)) : std::string(1, static_cast<char>(v)) + base.header,
          "enum_extend");
    R.count("enum_one_byte_extensions", 256);
  }
  else if (slot == 70)
  {
    if (base.format == 2)
      return;
    for (size_t k = 0; k < n; ++k)
    {
      run(base.header.substr(0, k), "enum_cut");
      run(base.header.substr(n - k), "enum_cut");
      run(base.header.substr(0, k) + base.header.substr(k + 1), "enum_cut");
      run(base.header.substr(0, k + 1) + base.header.substr(k), "enum_cut");
      R.count("enum_cuts", 4);
    }
  }
  else
  {
    for (int p = 0; p < 3; ++p)
      for (unsigned f = 0; f < 256; ++f)
        roundtrip(r, p, base.tid, base.sid, static_cast<uint8_t>(f), "flag_sweep");
    R.count("enum_flag_bytes_x_propagators", 768);
  }
  R.nontrivial(h);
}

// ------------------------------------------------------------------------------------------
// seeded variants
// ------------------------------------------------------------------------------------------
static std::string lhex_id(Rng &r, size_t nbytes)
{
  std::string b = gen_id(r, nbytes);
  return vf::hexs(b.data(), nbytes);
}

// an id field that is not of the documented shape
static std::string odd_id(Rng &r, size_t full)
{
  switch (r.below(10))
  {
    case 0:
      return "";
    case 1:
      return std::string(full, '0');
    case 2:
      return r.bytes(full + static_cast<size_t>(r.range(1, 8)), "0123456789abcdef");
    case 3:
      return r.bytes(full * 2, "0123456789abcdef");
    case 4:
      return r.bytes(static_cast<size_t>(r.range(1, static_cast<int64_t>(full) - 1)), "0123456789abcdef");
    case 5:
      return upper(r.bytes(full, "abcdef0123456789"));
    case 6:
    {
      std::string s = r.bytes(full, "0123456789abcdef");
      s[r.below(full)] = r.pick(std::vector<char>{'g', 'G', ' ', '\0', '-', ':', '\xff', 'x', '+', '.'});
      return s;
    }
    case 7:
      return r.anybytes(full);
    case 8:
      return std::string(full - 1, '0') + "1";
    default:
      return r.bytes(full - 1, "0123456789abcdef");  // odd length
  }
}

static void b3_variant(Rng &r, uint64_t *hash)
{
  B3In in;
  std::string tid = r.chance(1, 3) ? lhex_id(r, 8) : lhex_id(r, 16), sid = lhex_id(r, 8);
  std::string sam = r.pick(std::vector<std::string>{"0", "1", "d", "1", "d"});
  auto single = [&](bool with_s, bool with_parent) {
    return tid + "-" + sid + (with_s ? "-" + sam : "") + (with_s && with_parent ? "-" + lhex_id(r, 8) : "");
  };
  const char *origin = "variant";
  unsigned op        = static_cast<unsigned>(r.below(36));
  switch (op)
  {
    case 0:
    case 1:
    case 2:  // documented single-header forms
      in.b3 = Opt(single(!r.chance(1, 4), r.chance(1, 3)));
      break;
    case 3:
    case 4:
    case 5:  // documented multi-header forms
      in.tid = Opt(tid);
      in.sid = Opt(sid);
      if (!r.chance(1, 3))
        in.sam = Opt(r.coin() ? "1" : "0");
      if (r.chance(1, 4))
        in.par = Opt(lhex_id(r, 8));
      break;
    case 6:
    case 7:
    case 8:  // both: the single header wins
      in.b3  = Opt(single(!r.chance(1, 4), r.chance(1, 4)));
      in.tid = Opt(r.chance(1, 6) ? tid : lhex_id(r, 16));
      in.sid = Opt(r.chance(1, 6) ? sid : lhex_id(r, 8));
      if (!r.chance(1, 4))
        in.sam = Opt(r.coin() ? "1" : "0");
      break;
    case 9:  // malformed single header next to good multi headers (not decided)
      in.b3  = Opt(r.coin() ? odd_id(r, 32) + "-" + sid + "-1" : r.bytes(static_cast<size_t>(r.range(1, 8)), "0-1dxyz"));
      in.tid = Opt(tid);
      in.sid = Opt(sid);
      in.sam = Opt("1");
      break;
    case 10:  // empty single header next to multi headers
      in.b3  = Opt("");
      in.tid = Opt(tid);
      in.sid = Opt(sid);
      break;
    case 11:  // sampling-only single header ("deny"/"accept"/"debug" without ids)
      in.b3 = Opt(r.pick(std::vector<std::string>{"0", "1", "d"}));
      break;
    case 12:  // unusual trace id
      in.b3 = Opt(odd_id(r, 32) + "-" + sid + "-" + sam);
      break;
    case 13:  // unusual span id
      in.b3 = Opt(tid + "-" + odd_id(r, 16) + "-" + sam);
      break;
    case 14:  // unusual sampling state
      in.b3 = Opt(tid + "-" + sid + "-" +
                  r.pick(std::vector<std::string>{"", "D", "2", "11", "true", "false", "1 ", " 1", "01", std::string(1, '\0'), "\xff", "dd"}));
      break;
    case 15:  // truncated
    {
      std::string s = single(true, r.coin());
      in.b3         = Opt(s.substr(0, static_cast<size_t>(r.below(s.size()))));
      break;
    }
    case 16:  // extended
    {
      std::string s = single(true, r.coin());
      in.b3         = Opt(s + (r.coin() ? r.anybytes(static_cast<size_t>(r.range(1, 4))) : r.bytes(static_cast<size_t>(r.range(1, 20)), "0123456789abcdef-")));
      break;
    }
    case 17:  // one or two bytes substituted
    {
      std::string s     = single(true, r.coin());
      s[r.below(s.size())] = static_cast<char>(r.below(256));
      if (r.coin())
        s[r.below(s.size())] = r.pick(std::vector<char>{'-', '0', 'g', 'D', ' ', '\0', 'f', 'F', '\xff', ':'});
      in.b3 = Opt(s);
      break;
    }
    case 18:  // separators: missing fields, extra dashes, other separators
      in.b3 = Opt(r.pick(std::vector<std::string>{tid + "-", "-" + sid, "-", "--", "---", "----", tid, tid + sid, tid + ":" + sid + ":1",
                                                   tid + "--" + sid, tid + "-" + sid + "-", tid + "-" + sid + "--", tid + "-" + sid + "-1-",
                                                   tid + "-" + sid + "-1-" + sid + "-" + sid, "-" + tid + "-" + sid, tid + "_" + sid + "_1"}));
      break;
    case 19:  // whitespace and NUL around / inside
    {
      std::string s = single(true, false);
      unsigned k    = static_cast<unsigned>(r.below(5));
      if (k == 0)
        s = " " + s;
      else if (k == 1)
        s += r.coin() ? " " : "\t";
      else if (k == 2)
        s.push_back('\0');
      else if (k == 3)
        s.insert(static_cast<size_t>(r.below(s.size())), 1, r.coin() ? ' ' : '\0');
      else
        s = "\r\n" + s;
      in.b3 = Opt(s);
      break;
    }
    case 20:  // uppercase
      in.b3 = Opt(upper(tid) + "-" + (r.coin() ? upper(sid) : sid) + "-" + sam);
      break;
    case 21:  // zero ids, single
    {
      unsigned k = static_cast<unsigned>(r.below(3));
      in.b3      = Opt((k != 1 ? std::string(tid.size(), '0') : tid) + "-" + (k != 0 ? std::string(16, '0') : sid) + "-" + sam);
      break;
    }
    case 22:  // zero ids, multi
    {
      unsigned k = static_cast<unsigned>(r.below(3));
      in.tid     = Opt(k != 1 ? std::string(tid.size(), '0') : tid);
      in.sid     = Opt(k != 0 ? std::string(16, '0') : sid);
      in.sam     = Opt("1");
      break;
    }
    case 23:  // multi: unusual ids
      in.tid = Opt(r.coin() ? odd_id(r, 32) : tid);
      in.sid = Opt(r.coin() ? odd_id(r, 16) : sid);
      in.sam = Opt("1");
      break;
    case 24:  // multi: unusual sampling values
      in.tid = Opt(tid);
      in.sid = Opt(sid);
      in.sam = Opt(r.pick(std::vector<std::string>{"", "d", "D", "2", "true", "false", "TRUE", "01", "1 ", "11", std::string(1, '\0'), "\xff"}));
      break;
    case 25:  // multi: a header missing
    {
      unsigned k = static_cast<unsigned>(r.below(3));
      if (k != 0)
        in.tid = Opt(tid);
      if (k != 1)
        in.sid = Opt(sid);
      if (k == 2 || r.coin())
        in.sam = Opt("1");
      if (k == 2)
      {
        in.tid = Opt();
        in.sid = Opt();
      }
      break;
    }
    case 26:  // nothing at all
      break;
    case 27:
    case 28:
    case 29:  // random bytes
    {
      size_t n   = r.chance(1, 3) ? 51 : static_cast<size_t>(r.range(0, 100));
      unsigned k = static_cast<unsigned>(r.below(3));
      in.b3      = Opt(k == 0 ? r.anybytes(n) : k == 1 ? r.bytes(n, "0123456789abcdef-") : r.bytes(n, "0-1d"));
      origin     = "random_bytes";
      break;
    }
    case 30:  // very long
      in.b3 = Opt(r.bytes(static_cast<size_t>(r.range(200, 5000)), r.coin() ? "0123456789abcdef" : "0123456789abcdef-"));
      break;
    case 31:  // random bytes in the multi headers
      in.tid = Opt(r.coin() ? r.anybytes(static_cast<size_t>(r.range(0, 40))) : r.bytes(static_cast<size_t>(r.range(0, 70)), "0123456789abcdefABCDEF"));
      in.sid = Opt(r.coin() ? r.anybytes(static_cast<size_t>(r.range(0, 20))) : r.bytes(static_cast<size_t>(r.range(0, 36)), "0123456789abcdefABCDEF"));
      if (r.coin())
        in.sam = Opt(r.anybytes(static_cast<size_t>(r.range(0, 3))));
      origin = "random_bytes";
      break;
    case 32:  // 64-bit trace id, multi
      in.tid = Opt(lhex_id(r, 8));
      in.sid = Opt(sid);
      if (r.coin())
        in.sam = Opt("1");
      break;
    case 33:  // 64-bit trace id, single, every sampling state
      in.b3 = Opt(lhex_id(r, 8) + "-" + sid + r.pick(std::vector<std::string>{"", "-0", "-1", "-d"}));
      break;
    case 34:  // 128-bit trace id with a zero upper half written in full
      in.b3 = Opt(std::string(16, '0') + lhex_id(r, 8) + "-" + sid + "-" + sam);
      break;
    default:  // odd-length and short hex everywhere
      in.b3 = Opt(r.bytes(static_cast<size_t>(r.range(1, 33)), "0123456789abcdef") + "-" +
                  r.bytes(static_cast<size_t>(r.range(1, 17)), "0123456789abcdef") + "-1");
  }
  extract_b3(r, in, origin, hash);
}

static void jaeger_variant(Rng &r, uint64_t *hash)
{
  std::string tid = r.chance(1, 3) ? lhex_id(r, 8) : lhex_id(r, 16), sid = lhex_id(r, 8);
  std::string parent = r.pick(std::vector<std::string>{"0", "0", "", lhex_id(r, 8)});
  std::string flags  = r.pick(std::vector<std::string>{"0", "1", "00", "01", "2", "3", "03", "ff", "fe", "10", "11", "7", "a", "0b"});
  bool present       = true;
  std::string v      = tid + ":" + sid + ":" + parent + ":" + flags;
  const char *origin = "variant";
  switch (r.below(24))
  {
    case 0:
    case 1:
    case 2:
    case 3:
      break;  // documented
    case 4:
      v = tid + ":" + sid + ":" + parent + ":" + hex_byte(static_cast<uint8_t>(r.below(256)));
      break;
    case 5:  // unusual flags
      v = tid + ":" + sid + ":" + parent + ":" +
          r.pick(std::vector<std::string>{"", "100", "001", "g", "1 ", " 1", "-1", "0x1", "A", "F", "1\n", std::string(1, '\0'), "\xff", "0001"});
      break;
    case 6:
      v = odd_id(r, 32) + ":" + sid + ":" + parent + ":" + flags;
      break;
    case 7:
      v = tid + ":" + odd_id(r, 16) + ":" + parent + ":" + flags;
      break;
    case 8:  // unusual parent
      v = tid + ":" + sid + ":" + r.pick(std::vector<std::string>{"00", "1", "xyz", upper(lhex_id(r, 8)), r.anybytes(5), std::string(17, 'a')}) + ":" + flags;
      break;
    case 9:  // field count
      v = r.pick(std::vector<std::string>{tid + ":" + sid + ":" + flags, tid + ":" + sid, tid, tid + ":" + sid + ":0:1:extra",
                                           tid + ":" + sid + ":0:1:", ":::", "::::", ":", tid + "::" + sid + ":0:1", ":" + tid + ":" + sid + ":0:1",
                                           tid + "%3A" + sid + "%3A0%3A1", tid + "-" + sid + "-1"});
      break;
    case 10:  // truncated
      v = v.substr(0, static_cast<size_t>(r.below(v.size())));
      break;
    case 11:  // extended
      v += r.coin() ? r.anybytes(static_cast<size_t>(r.range(1, 4))) : r.bytes(static_cast<size_t>(r.range(1, 20)), "0123456789abcdef:");
      break;
    case 12:  // substituted bytes
      v[r.below(v.size())] = static_cast<char>(r.below(256));
      if (r.coin())
        v[r.below(v.size())] = r.pick(std::vector<char>{':', '0', 'g', 'D', ' ', '\0', 'f', 'F', '\xff', '-'});
      break;
    case 13:  // zero ids
    {
      unsigned k = static_cast<unsigned>(r.below(3));
      v          = (k != 1 ? std::string(tid.size(), '0') : tid) + ":" + (k != 0 ? std::string(16, '0') : sid) + ":0:1";
      break;
    }
    case 14:  // uppercase
      v = upper(tid) + ":" + (r.coin() ? upper(sid) : sid) + ":0:" + flags;
      break;
    case 15:  // whitespace / NUL
    {
      unsigned k = static_cast<unsigned>(r.below(4));
      if (k == 0)
        v = " " + v;
      else if (k == 1)
        v += " ";
      else if (k == 2)
        v.push_back('\0');
      else
        v.insert(static_cast<size_t>(r.below(v.size())), 1, r.coin() ? ' ' : '\0');
      break;
    }
    case 16:
      present = false;
      break;
    case 17:
      v.clear();
      break;
    case 18:
    case 19:
    case 20:
    {
      size_t n   = r.chance(1, 3) ? 54 : static_cast<size_t>(r.range(0, 100));
      unsigned k = static_cast<unsigned>(r.below(3));
      v          = k == 0 ? r.anybytes(n) : k == 1 ? r.bytes(n, "0123456789abcdef:") : r.bytes(n, "0:1");
      origin     = "random_bytes";
      break;
    }
    case 21:  // very long
      v = r.bytes(static_cast<size_t>(r.range(200, 5000)), r.coin() ? "0123456789abcdef" : "0123456789abcdef:");
      break;
    case 22:  // short / odd-length ids (leading zeros dropped, as some Jaeger clients do)
      v = r.bytes(static_cast<size_t>(r.range(1, 33)), "0123456789abcdef") + ":" + r.bytes(static_cast<size_t>(r.range(1, 17)), "0123456789abcdef") + ":0:1";
      break;
    default:  // 64-bit trace id written with the zero upper half
      v = std::string(16, '0') + lhex_id(r, 8) + ":" + sid + ":0:" + flags;
  }
  extract_jaeger(r, present, v, origin, hash);
}

static void random_case(uint64_t seed, uint64_t variants)
{
  auto &R = vf::report();
  Rng r(seed);
  uint64_t h = seed;
  // round trips: one per propagator
  for (int p = 0; p < 3; ++p)
  {
    std::string tid = gen_id(r, 16), sid = gen_id(r, 8);
    uint8_t flags;
    switch (r.below(6))
    {
      case 0:
        flags = 0;
        break;
      case 1:
        flags = 1;
        break;
      case 2:
        flags = static_cast<uint8_t>(r.pick(std::vector<int>{2, 3, 0x0d, 0xd1, 0xab, 0xff, 0xf0, 0x0f, 0x81, 0xfe, 0x11, 0x10}));
        break;
      default:
        flags = static_cast<uint8_t>(r.below(256));
    }
    roundtrip(r, p, tid, sid, flags, "random");
  }
  for (uint64_t k = 0; k < variants; ++k)
    (k % 3 == 2) ? jaeger_variant(r, &h) : b3_variant(r, &h);
  R.nontrivial(h);
}

// Case layout (independent of tier and of the total case count, so any case replays alone):
// every kEnumEvery-th case is the next slot of the enumerated block (base = e / kStride,
// slot = e % kStride with e = i / kEnumEvery); every other case is a seeded random case.
// kEnumEvery is coprime with the shard counts so the enumerated cases spread over all shards.
static const uint64_t kEnumEvery = 25;

int main(int argc, char **argv)
{
  auto &R = vf::report();
  R.init("C16", argc, argv);
  uint64_t variants = static_cast<uint64_t>(R.opt.param("variants_per_case", 6));
  R.run_cases([&](uint64_t i) {
    if (i % kEnumEvery == 0)
      enum_case(R.opt.seed, (i / kEnumEvery) / kStride, (i / kEnumEvery) % kStride, R.case_seed(i));
    else
      random_case(R.case_seed(i), variants);
  });
  return R.finish();
}
