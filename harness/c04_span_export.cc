// C04 — an exported span carries exactly what the application recorded before End.
//
// mode=seq  (flavours asan, asan-abi2), engine E1: generated span programs are applied in lock-step to
//           the real SDK (TracerProvider -> MultiSpanProcessor -> 1..4 processors of mixed kind: simple,
//           batch, a custom processor with a logging recordable) and to a model span; every copy that
//           reaches a processor's exporter is deep-copied through the SpanData getters at Export time
//           and compared field by field with the model.  Every caller buffer is an exact-size heap
//           block that is scribbled or freed right after the call returns.  In a share of the cases
//           with a batch processor and two tracers the case ends with a few more spans (of every
//           tracer) that are NOT flushed: the application drops all span and tracer handles and
//           destroys the provider without ForceFlush/Shutdown, so the exporter sees (and reads the
//           resource and instrumentation scope of) those spans during the tear-down drain.  In a third of
//           the cases one or two more processors are added to the provider while spans are open.
// mode=conc (flavour tsan + perturbation shim), engine E2: 2..4 threads mutate one span while 1..2
//           threads end it; call/return stamps from one logical clock decide which operations must be
//           present, must be absent, or are free.
#include <thread>

#include "opentelemetry/context/context.h"
#include "opentelemetry/sdk/common/global_log_handler.h"
#include "opentelemetry/sdk/trace/batch_span_processor.h"
#include "opentelemetry/sdk/trace/batch_span_processor_options.h"
#include "opentelemetry/sdk/trace/simple_processor.h"
#include "opentelemetry/sdk/trace/tracer.h"
#include "opentelemetry/sdk/trace/tracer_provider.h"
#include "opentelemetry/trace/span.h"
#include "opentelemetry/trace/span_context_kv_iterable_view.h"
#include "opentelemetry/trace/span_startoptions.h"
#include "opentelemetry/trace/tracer.h"

#include "vf_c04_model.h"

#ifdef OTEL_VERIF_SHIM
#  include "vf_runtime.h"
#endif

using namespace c04;
using vf::Rng;
namespace sdklog = opentelemetry::sdk::common::internal_log;

static void shim_arm(uint64_t seed)
{
#ifdef OTEL_VERIF_SHIM
  vf_configure(seed, 30000, 5000, 0, 0, 200);
#else
  (void)seed;
#endif
}
static void shim_disarm()
{
#ifdef OTEL_VERIF_SHIM
  vf_configure(0, 0, 0, 0, 0, 0);
#endif
}

// ------------------------------------------------------------------------------------------
// SDK diagnostics: counted, never printed
// ------------------------------------------------------------------------------------------
class SilentLog final : public sdklog::LogHandler
{
public:
  void Handle(sdklog::LogLevel, const char *, int, const char *,
              const opentelemetry::sdk::common::AttributeMap &) noexcept override
  {
    n.fetch_add(1, std::memory_order_relaxed);
  }
  vf::raw_atomic<uint64_t> n{0};
};

// ------------------------------------------------------------------------------------------
// environment of one case: provider with 1..4 processors, 1..2 tracers
// ------------------------------------------------------------------------------------------
struct TracerInfo
{
  nostd::shared_ptr<trace_api::Tracer> tracer;
  std::string name, version, schema;
  const void *scope = nullptr;
};

struct Env
{
  std::vector<std::shared_ptr<ProcState>> procs;
  std::shared_ptr<sdktrace::TracerProvider> provider;
  std::vector<TracerInfo> tracers;
  int64_t marker = 0;
  bool any_batch = false;
  bool patient   = false;   // batch processors of this case are built patient (see make_processor)
  size_t base_procs = 0;    // processors configured before the first span (the rest: added while spans were open)
  std::string desc;
};

// patient: a batch processor that exports when told to (ForceFlush / Shutdown / destructor) or after 3 s,
// so that spans ended shortly before the provider's tear-down are as good as always still queued (a copy
// exported by the timer instead is judged the same way and only counted: teardown_spans_exported_early)
static std::unique_ptr<sdktrace::SpanProcessor> make_processor(Rng &r, const std::shared_ptr<ProcState> &st, bool patient = false)
{
  switch (st->kind)
  {
    case kSimple:
      return std::unique_ptr<sdktrace::SpanProcessor>(
          new sdktrace::SimpleSpanProcessor(std::unique_ptr<sdktrace::SpanExporter>(new RecExporter(st))));
    case kBatch: {
      sdktrace::BatchSpanProcessorOptions o;
      static const size_t queues[] = {4, 8, 16, 64};
      static const int delays[]    = {1, 2, 5, 20};
      o.max_queue_size             = r.pick(queues);
      o.max_export_batch_size      = static_cast<size_t>(r.range(1, static_cast<int64_t>(o.max_queue_size)));
      o.schedule_delay_millis      = std::chrono::milliseconds(r.pick(delays));
      if (patient)
      {
        o.max_queue_size        = 64;
        o.max_export_batch_size = std::max<size_t>(o.max_export_batch_size, 16);
        // not longer: BatchSpanProcessor::ForceFlush can miss the worker's notification (it is sent without
        // force_flush_cv_m held) and then sleeps one full schedule delay before it re-checks; with an hour here a
        // thorough run stalled in exactly that state
        o.schedule_delay_millis = std::chrono::milliseconds(3000);
      }
      return std::unique_ptr<sdktrace::SpanProcessor>(
          new sdktrace::BatchSpanProcessor(std::unique_ptr<sdktrace::SpanExporter>(new RecExporter(st)), o));
    }
    default:
      return std::unique_ptr<sdktrace::SpanProcessor>(new LogProcessor(st));
  }
}

static void build_env(Env &e, Rng &r, int max_procs, int ntracers, bool patient_batch = false)
{
  unsigned c = static_cast<unsigned>(r.below(100));
  int nproc  = c < 30 ? 1 : c < 65 ? 2 : c < 85 ? 3 : 4;
  if (nproc > max_procs)
    nproc = max_procs;
  std::vector<std::unique_ptr<sdktrace::SpanProcessor>> ctor, later;
  std::vector<std::shared_ptr<ProcState>> ctor_st, later_st;
  for (int i = 0; i < nproc; ++i)
  {
    auto st    = std::make_shared<ProcState>();
    st->kind   = static_cast<int>(r.below(3));
    st->retain = st->kind == kCustom || r.coin();
    e.any_batch |= st->kind == kBatch;
    auto p = make_processor(r, st, patient_batch);
    // the first processor always goes through the constructor; others may be added afterwards
    if (i == 0 || r.chance(3, 4))
    {
      ctor.push_back(std::move(p));
      ctor_st.push_back(st);
    }
    else
    {
      later.push_back(std::move(p));
      later_st.push_back(st);
    }
  }
  // AddProcessor appends: e.procs is kept in the order the provider holds them
  e.procs = ctor_st;
  e.procs.insert(e.procs.end(), later_st.begin(), later_st.end());
  e.base_procs = e.procs.size();
  e.patient    = patient_batch;
  for (size_t i = 0; i < e.procs.size(); ++i)
    e.desc += std::string(i ? "+" : "") + kProcName[e.procs[i]->kind] + (i >= ctor_st.size() ? "(added)" : "");
  e.marker = static_cast<int64_t>(r.next() >> 1);
  sdkres::ResourceAttributes ra;
  ra.SetAttribute("vf.case", e.marker);
  auto resource = sdkres::Resource::Create(ra);
  e.provider    = std::make_shared<sdktrace::TracerProvider>(std::move(ctor), resource);
  for (auto &p : later)
    e.provider->AddProcessor(std::move(p));
  for (int t = 0; t < ntracers; ++t)
  {
    TracerInfo ti;
    ti.name    = "t" + std::to_string(t) + gen_string(r, true);
    ti.version = r.coin() ? "" : gen_string(r, true);
    ti.schema  = r.coin() ? "" : "https://" + gen_string(r, false);
    Backing bk;
    auto nv   = bk.view(ti.name);
    auto vv   = bk.view(ti.version);
    auto sv   = bk.view(ti.schema);
    ti.tracer = e.provider->GetTracer(nv, vv, sv);
    bk.kill(r.coin());
    ti.scope = &static_cast<sdktrace::Tracer *>(ti.tracer.get())->GetInstrumentationScope();
    e.tracers.push_back(ti);
  }
}

// ------------------------------------------------------------------------------------------
// generators for keys, containers, contexts
// ------------------------------------------------------------------------------------------
struct Gen
{
  Rng &r;
  std::vector<std::string> keys;
  StrClassCounts cc;
  bool allow_large;
  explicit Gen(Rng &rr) : r(rr)
  {
    allow_large = true;
    size_t nk   = static_cast<size_t>(r.range(2, 6));
    for (size_t i = 0; i < nk; ++i)
    {
      std::string k;
      switch (r.below(8))
      {
        case 0:
          k = std::string("a") + std::string(1, '\0') + "b" + std::to_string(i);  // embedded NUL
          break;
        case 1:
          k = !keys.empty() ? keys[r.below(keys.size())] + "x" : "kx";  // extension of another key
          break;
        case 2:
          k = "k\xc3\xa9\xff" + std::to_string(i);
          break;
        case 3:
          k = "key." + r.bytes(180, "abcdefghij.");
          break;
        default:
          k = "k" + std::to_string(i);
      }
      keys.push_back(k);
    }
  }
  std::string key() { return r.chance(9, 10) ? r.pick(keys) : "u" + std::to_string(r.below(1000)); }
  MV value() { return gen_value(r, -1, allow_large, &cc); }
  // small values for containers of events and links
  MV small_value()
  {
    MV v = gen_value(r, -1, false, &cc);
    return v;
  }
  Items items(size_t maxn)
  {
    Items it;
    unsigned c = static_cast<unsigned>(r.below(10));
    size_t n   = c < 2 ? 0 : c < 5 ? 1 : static_cast<size_t>(r.range(2, static_cast<int64_t>(maxn)));
    for (size_t i = 0; i < n; ++i)
      it.emplace_back(key(), small_value());
    return it;
  }
  MCtx ctx()
  {
    MCtx c;
    c.trace_id = r.anybytes(16);
    c.span_id  = r.anybytes(8);
    c.trace_id[0] |= 1;  // valid (non-zero) ids
    c.span_id[0] |= 1;
    c.flags  = static_cast<uint8_t>(r.coin() ? 1 : 0);
    c.remote = r.coin();
    if (r.chance(1, 3))
      c.tracestate = "k" + std::to_string(r.below(10)) + "=v" + std::to_string(r.below(100)) +
                     (r.coin() ? ",z@s=1" : "");
    return c;
  }
  std::string name() { return gen_string(r, true, &cc); }
};

struct LinkSpec
{
  MCtx ctx;
  Items items;
};

// application-written link iterable
class HeapLinks final : public trace_api::SpanContextKeyValueIterable
{
public:
  std::vector<trace_api::SpanContext> ctxs;
  std::vector<nostd::span<const KV>> kvs;
  bool ForEachKeyValue(nostd::function_ref<bool(trace_api::SpanContext, const common::KeyValueIterable &)> cb)
      const noexcept override
  {
    for (size_t i = 0; i < ctxs.size(); ++i)
    {
      HeapKV kv(kvs[i]);
      if (!cb(ctxs[i], kv))
        return false;
    }
    return true;
  }
  size_t size() const noexcept override { return ctxs.size(); }
};

// ------------------------------------------------------------------------------------------
// one span of a sequential program
// ------------------------------------------------------------------------------------------
enum EndMode
{
  kEndPlain = 0,
  kEndOptions,
  kEndImplicit
};

// a start given on one clock only
enum HalfStart
{
  kHalfNone = 0,
  kHalfSystem,  // start_system_time only
  kHalfSteady   // start_steady_time only
};
static const char *const kHalfName[3] = {"", "system-only", "steady-only"};

struct SpanRun
{
  MSpan m;
  nostd::shared_ptr<trace_api::Span> sp;
  std::string span_id;
  MCtx ctx;
  int tracer   = 0;
  int half      = kHalfNone;
  int64_t given = 0;  // the one start clock that was given (half != kHalfNone)
  // processors the provider held at StartSpan / at End: [0,nprocs_start) must receive the span,
  // [nprocs_start,nprocs_end) were added while it was open (free), the rest after its End (nothing)
  size_t nprocs_start = 0, nprocs_end = 0;
  int pre_left = 0, post_left = 0, post_total = 0;
  int end_mode    = kEndPlain;
  bool second_end = false;
  int state       = 0;  // 0 not started, 1 live, 2 ended, 3 released
  bool matched    = false;
  std::string trace;
  uint64_t hash = 0;
  uint64_t late_seen = 0;
  std::vector<size_t> base;  // notifications per processor right after End (judged there, not again)
  void log(const std::string &s)
  {
    hash = vf::mix(hash, vf::fnv1a(s));
    if (trace.size() < 500)
      trace += s + " ";
  }
};

static std::string short_items(const Items &it)
{
  std::string s = "{";
  for (size_t i = 0; i < it.size() && i < 4; ++i)
    s += vf::show(it[i].first, 8) + ":" + kAltName[it[i].second.alt] + ",";
  return s + "}" + std::to_string(it.size());
}

static int64_t gen_start_sys(Rng &r)
{
  int64_t v;
  switch (r.below(5))
  {
    case 0:
      return sys_now() - r.range(0, 1000000000);
    case 1:
      return r.range(1, 1000);
    case 2:
      return -r.range(1, 1000000);
    case 3:
      return r.coin() ? std::numeric_limits<int64_t>::max() : std::numeric_limits<int64_t>::min();
    default:
      v = static_cast<int64_t>(r.next());
      return v == 0 ? 1 : v;
  }
}

static int64_t gen_start_steady(Rng &r)
{
  int64_t v;
  switch (r.below(3))
  {
    case 0:
      v = steady_now() - r.range(0, 1000000000);
      return v <= 0 ? 1 : v;
    case 1:
      return r.range(1, 1000);
    default:
      return static_cast<int64_t>(r.next() >> 3) | 1;  // < 2^61
  }
}

static void start_span(Env &e, Gen &g, SpanRun &s, int use_tracer = -1)
{
  Rng &r        = g.r;
  auto &R       = vf::report();
  s.tracer      = use_tracer >= 0 ? use_tracer : static_cast<int>(r.below(e.tracers.size()));
  TracerInfo &t = e.tracers[static_cast<size_t>(s.tracer)];
  MSpan &m      = s.m;
  m.name        = g.name();
  m.resource    = &e.provider->GetResource();
  m.resource_marker = e.marker;
  m.scope           = t.scope;
  m.scope_name      = t.name;
  m.scope_version   = t.version;
  m.scope_schema    = t.schema;

  trace_api::StartSpanOptions opts;
  if (r.chance(2, 3))
  {
    m.kind    = static_cast<int>(r.below(5));
    opts.kind = static_cast<trace_api::SpanKind>(m.kind);
  }
  unsigned sm = static_cast<unsigned>(r.below(100));
  if (sm < 40)
  {
    // both clocks given, as the API requires for an explicit start
    m.start_explicit = true;
    m.start_sys      = gen_start_sys(r);
    m.start_steady   = gen_start_steady(r);
    opts.start_system_time = common::SystemTimestamp(std::chrono::nanoseconds(m.start_sys));
    opts.start_steady_time = common::SteadyTimestamp(std::chrono::nanoseconds(m.start_steady));
    R.count("start_explicit");
  }
  else if (sm < 50)
  {
    // only one of the two clocks: that one is taken as given, the other is read during StartSpan.
    // check_copy knows the two as a pair only (judge_start = false); judged by check_half_start.
    m.judge_start = false;
    if (r.coin())
    {
      s.half                 = kHalfSystem;
      s.given                = gen_start_sys(r);
      opts.start_system_time = common::SystemTimestamp(std::chrono::nanoseconds(s.given));
      R.count("start_system_only");
    }
    else
    {
      // back-dated, tiny, far in the future, or slightly ahead of the clock
      s.half                 = kHalfSteady;
      s.given                = r.chance(1, 4) ? steady_now() + r.range(1, 1000000000) : gen_start_steady(r);
      opts.start_steady_time = common::SteadyTimestamp(std::chrono::nanoseconds(s.given));
      R.count("start_steady_only");
    }
  }
  unsigned pm = static_cast<unsigned>(r.below(100));
  if (pm < 25)
    opts.parent = make_ctx(g.ctx());
  else if (pm < 35)
  {
    opentelemetry::context::Context root;
    opts.parent = root.SetValue(trace_api::kIsRootSpanKey, true);
  }

  Items attrs;
  if (r.chance(1, 2))
  {
    size_t n = static_cast<size_t>(r.range(0, 6));
    for (size_t i = 0; i < n; ++i)
      attrs.emplace_back(g.key(), g.value());
  }
  std::vector<LinkSpec> links;
  if (r.chance(1, 3))
  {
    size_t n = static_cast<size_t>(r.range(1, 4));
    for (size_t i = 0; i < n; ++i)
      links.push_back(LinkSpec{g.ctx(), g.items(4)});
  }
  for (auto &a : attrs)
    model_set(m.attrs, a.first, a.second);
  for (auto &l : links)
    m.links.push_back(MLink{l.ctx, model_of(l.items)});

  Backing bk;
  nostd::string_view name = bk.view(m.name);
  auto attr_block         = kv_block(attrs, bk);
  m.start_lo              = sys_now();
  m.sst_lo                = steady_now();
  int path;
  if (attrs.empty() && links.empty() && r.coin())
  {
    path = 0;
    s.sp = t.tracer->StartSpan(name, opts);
  }
  else if (links.empty() && r.coin())
  {
    if (r.coin())
    {
      path = 1;
      HeapKV kv(attr_block);
      s.sp = t.tracer->StartSpan(name, kv, opts);
    }
    else
    {
      path = 2;
      s.sp = t.tracer->StartSpan(name, attr_block, opts);
    }
  }
  else if (r.coin())
  {
    path = 3;
    HeapKV kv(attr_block);
    std::unique_ptr<HeapLinks> hl(new HeapLinks);
    for (auto &l : links)
    {
      hl->ctxs.push_back(make_ctx(l.ctx));
      hl->kvs.push_back(kv_block(l.items, bk));
    }
    s.sp = t.tracer->StartSpan(name, kv, *hl, opts);
    hl.reset();  // the application's containers die with the call
  }
  else
  {
    path = 4;
    typedef std::vector<std::pair<trace_api::SpanContext, nostd::span<const KV>>> LinkVec;
    std::unique_ptr<LinkVec> lv(new LinkVec);
    lv->reserve(links.size());
    for (auto &l : links)
      lv->emplace_back(make_ctx(l.ctx), kv_block(l.items, bk));
    s.sp = t.tracer->StartSpan(name, attr_block, *lv, opts);
    lv.reset();
  }
  m.sst_hi   = steady_now();
  m.start_hi = sys_now();
  bk.kill(r.coin());
  s.state        = 1;
  s.nprocs_start = e.procs.size();
  s.ctx          = ctx_of(s.sp->GetContext());
  s.span_id = s.ctx.span_id;
  s.log("Start[" + std::to_string(path) + "](" + vf::show(m.name, 12) + ",kind=" + std::to_string(m.kind) +
        (m.start_explicit ? ",t0" : s.half ? std::string(",t0:") + kHalfName[s.half] : "") + "," + short_items(attrs) + ",links=" + std::to_string(links.size()) + ")");
  R.count("spans_started");
  if (!links.empty())
    R.count("spans_with_start_links");
}

// one mutator call; the model is updated only while the span has not ended
static std::string mutate(Env &e, Gen &g, SpanRun &s, bool model)
{
  (void)e;
  Rng &r      = g.r;
  auto &R     = vf::report();
  MSpan &m    = s.m;
  unsigned c  = static_cast<unsigned>(r.below(100));
  bool kill   = r.coin();
  Backing bk;
  std::string op;
#if OPENTELEMETRY_ABI_VERSION_NO >= 2
  if (c >= 88)
  {
    if (c < 94)
    {
      op = "AddLink";
      LinkSpec l{g.ctx(), g.items(4)};
      auto blk = kv_block(l.items, bk);
      {
        std::unique_ptr<trace_api::SpanContext> ctx(new trace_api::SpanContext(make_ctx(l.ctx)));
        if (r.coin())
        {
          HeapKV kv(blk);
          s.sp->AddLink(*ctx, kv);
        }
        else
          s.sp->AddLink(*ctx, blk);
      }
      bk.kill(kill);
      if (model)
      {
        m.links.push_back(MLink{l.ctx, model_of(l.items)});
        R.count("links_added_after_start");
      }
      s.log(op + "(" + short_items(l.items) + ")");
    }
    else
    {
      op       = "AddLinks";
      size_t n = static_cast<size_t>(r.range(0, 3));
      std::vector<LinkSpec> ls;
      for (size_t i = 0; i < n; ++i)
        ls.push_back(LinkSpec{g.ctx(), g.items(3)});
      std::unique_ptr<HeapLinks> hl(new HeapLinks);
      for (auto &l : ls)
      {
        hl->ctxs.push_back(make_ctx(l.ctx));
        hl->kvs.push_back(kv_block(l.items, bk));
      }
      s.sp->AddLinks(*hl);
      hl.reset();
      bk.kill(kill);
      if (model)
        for (auto &l : ls)
        {
          m.links.push_back(MLink{l.ctx, model_of(l.items)});
          R.count("links_added_after_start");
        }
      s.log(op + "(" + std::to_string(n) + ")");
    }
    return op;
  }
#endif
  if (c < 46)
  {
    op            = "SetAttribute";
    std::string k = g.key();
    MV v          = g.value();
    auto kv       = bk.view(k);
    auto av       = materialise(v, bk);
    s.sp->SetAttribute(kv, av);
    bk.kill(kill);
    if (model)
      model_set(m.attrs, k, v);
    s.log("Set(" + vf::show(k, 8) + "," + kAltName[v.alt] + ")");
  }
  else if (c < 54)
  {
    op = "AddEvent(name)";
    MEvent ev;
    ev.name = g.name();
    auto nv = bk.view(ev.name);
    ev.lo   = sys_now();
    s.sp->AddEvent(nv);
    ev.hi = sys_now();
    bk.kill(kill);
    if (model)
      m.events.push_back(ev);
    s.log("Ev(" + vf::show(ev.name, 8) + ")");
  }
  else if (c < 62)
  {
    op = "AddEvent(name,ts)";
    MEvent ev;
    ev.name        = g.name();
    ev.ts_explicit = true;
    ev.ts          = r.chance(1, 6) ? 0 : r.coin() ? sys_now() - r.range(0, 1000000) : static_cast<int64_t>(r.next());
    auto nv        = bk.view(ev.name);
    s.sp->AddEvent(nv, common::SystemTimestamp(std::chrono::nanoseconds(ev.ts)));
    bk.kill(kill);
    if (model)
      m.events.push_back(ev);
    s.log("EvT(" + vf::show(ev.name, 8) + ")");
  }
  else if (c < 72)
  {
    op = "AddEvent(name,attrs)";
    MEvent ev;
    ev.name  = g.name();
    Items it = g.items(5);
    ev.attrs = model_of(it);
    auto nv  = bk.view(ev.name);
    auto blk = kv_block(it, bk);
    ev.lo    = sys_now();
    if (r.coin())
    {
      HeapKV kv(blk);
      s.sp->AddEvent(nv, kv);
    }
    else
      s.sp->AddEvent(nv, blk);  // API helper template -> KeyValueIterableView
    ev.hi = sys_now();
    bk.kill(kill);
    if (model)
      m.events.push_back(ev);
    s.log("EvA(" + vf::show(ev.name, 8) + "," + short_items(it) + ")");
  }
  else if (c < 82)
  {
    op = "AddEvent(name,ts,attrs)";
    MEvent ev;
    ev.name        = g.name();
    ev.ts_explicit = true;
    ev.ts          = r.coin() ? sys_now() + r.range(-1000000, 1000000) : static_cast<int64_t>(r.next());
    Items it       = g.items(5);
    ev.attrs       = model_of(it);
    auto nv        = bk.view(ev.name);
    auto blk       = kv_block(it, bk);
    common::SystemTimestamp ts{std::chrono::nanoseconds(ev.ts)};
    if (r.coin())
    {
      HeapKV kv(blk);
      s.sp->AddEvent(nv, ts, kv);
    }
    else
      s.sp->AddEvent(nv, ts, blk);
    bk.kill(kill);
    if (model)
      m.events.push_back(ev);
    s.log("EvTA(" + vf::show(ev.name, 8) + "," + short_items(it) + ")");
  }
  else if (c < 91)
  {
    op               = "SetStatus";
    int code         = static_cast<int>(r.below(3));
    std::string desc = r.chance(1, 4) ? "" : g.name();
    auto dv          = bk.view(desc);
    if (desc.empty() && r.coin())
      s.sp->SetStatus(static_cast<trace_api::StatusCode>(code));  // default description
    else
      s.sp->SetStatus(static_cast<trace_api::StatusCode>(code), dv);
    bk.kill(kill);
    if (model)
    {
      if (m.status_code == 1 && code != 1)
        R.count("status_changed_after_ok");
      m.status_code = code;
      m.status_desc = desc;
    }
    s.log(std::string("Status(") + kStatusName[code] + "," + vf::show(desc, 8) + ")");
  }
  else
  {
    op            = "UpdateName";
    std::string n = g.name();
    auto nv       = bk.view(n);
    s.sp->UpdateName(nv);
    bk.kill(kill);
    if (model)
    {
      m.name    = n;
      m.renamed = true;
    }
    s.log("Name(" + vf::show(n, 8) + ")");
  }
  return op;
}

static void end_span(Gen &g, SpanRun &s, bool first)
{
  Rng &r   = g.r;
  MSpan &m = s.m;
  trace_api::EndSpanOptions eo;
  bool with_options = first ? s.end_mode == kEndOptions : r.coin();
  int64_t e         = 0;
  if (with_options)
  {
    if (m.start_explicit || s.half == kHalfSteady)
    {
      int64_t st   = m.start_explicit ? m.start_steady : s.given;
      int64_t room = std::numeric_limits<int64_t>::max() / 2 - st;
      int64_t d    = r.chance(1, 5) ? 0 : r.chance(1, 4) ? 1 : r.range(2, int64_t(1) << 40);
      e            = st + (d < room ? d : 0);
    }
    else
      e = steady_now() + r.range(0, 1000000000);
    if (e == 0)
      e = 1;
    eo.end_steady_time = common::SteadyTimestamp(std::chrono::nanoseconds(e));
  }
  int64_t lo = steady_now();
  if (with_options)
    s.sp->End(eo);
  else if (r.coin())
    s.sp->End();
  else
    s.sp->End({});
  int64_t hi = steady_now();
  if (first)
  {
    m.end_explicit = with_options;
    m.end_steady   = e;
    m.est_lo       = lo;
    m.est_hi       = hi;
  }
  s.log(with_options ? "End(t1)" : "End()");
}

static const char *count_class(size_t n)
{
  return n == 0 ? "none" : n == 2 ? "twice" : "many";
}

// all deliveries of one span at one processor
static std::vector<Obs> deliveries_of(ProcState &p, const std::string &span_id)
{
  std::vector<Obs> out;
  std::lock_guard<std::mutex> g(p.mu);
  for (auto &o : p.deliveries)
    if (o.ctx.span_id == span_id)
      out.push_back(o);
  return out;
}

static std::string where(Env &e, size_t p, const SpanRun &s)
{
  return "processor " + std::to_string(p + 1) + "/" + std::to_string(e.procs.size()) + " [" + e.desc +
         "]; program: " + s.trace;
}

// Start given on one clock only (seeded change C04-w4-1): each clock is "the given value, else now"
// on its own (sdk/src/trace/span.cc, NowOr).  The given clock is exact; the other one was read between
// the harness' reads right before and right after StartSpan; a default end between the reads around End.
// Only the order of clock reads is used, no tolerance.
static bool check_half_start(const SpanRun &s, const Obs &o, Verdicts &V)
{
  const MSpan &m    = s.m;
  unsigned before   = V.reported;
  std::string smode = kHalfName[s.half];
  bool steady       = s.half == kHalfSteady;
  if (!steady)
  {
    if (o.start != s.given)
      V.fail("start-time", smode, "got " + std::to_string(o.start) + " want the given " + std::to_string(s.given));
  }
  else if (o.start < m.start_lo || o.start > m.start_hi)
    V.fail("start-time", smode,
           "got " + std::to_string(o.start) + " want within [" + std::to_string(m.start_lo) + "," +
               std::to_string(m.start_hi) + "] (system clock read before/after StartSpan)");
  int64_t s_lo = steady ? s.given : m.sst_lo, s_hi = steady ? s.given : m.sst_hi;
  int64_t e_lo = m.end_explicit ? m.end_steady : m.est_lo, e_hi = m.end_explicit ? m.end_steady : m.est_hi;
  int64_t d_lo = e_lo - s_hi, d_hi = e_hi - s_lo;
  if (o.duration < d_lo || o.duration > d_hi)
    V.fail("duration", smode + "-start:" + (m.end_explicit ? "explicit" : "default") + "-end",
           "got " + std::to_string(o.duration) + " want within [" + std::to_string(d_lo) + "," + std::to_string(d_hi) +
               "] = end " + (m.end_explicit ? "(given) " : "(steady clock read before/after End) ") + "- start " +
               (steady ? "(given " + std::to_string(s.given) + ")" : "(steady clock read before/after StartSpan)"));
  return V.reported == before;
}

// at_teardown: the span was ended without a flush and the provider has been destroyed since (no
// ForceFlush, no Shutdown): what the exporters hold now was exported at End (simple, custom) or during
// the tear-down drain (batch).  Same oracle; a missing/duplicate copy gets its own input class.
static void verify_span(Env &e, SpanRun &s, uint64_t *dontcare_desc, bool at_teardown = false)
{
  auto &R = vf::report();
  if (e.any_batch && !at_teardown)
    e.provider->ForceFlush();
  s.nprocs_end = e.procs.size();  // nothing is added between End and this call
  std::vector<Obs> copies;
  bool all_ok = true;
  for (size_t p = 0; p < e.procs.size(); ++p)
  {
    ProcState &ps = *e.procs[p];
    auto d        = deliveries_of(ps, s.span_id);
    s.base.push_back(d.size());
    if (p >= s.nprocs_start)
    {
      // added while this span was open: whether it sees the span is free (not judged)
      R.count(d.empty() ? "open_span_not_seen_by_added_processor_dontcare" : "open_span_seen_by_added_processor_dontcare");
      continue;
    }
    if (d.size() != 1)
    {
      R.violation("notify-once", std::string(kProcName[ps.kind]) + ":" + count_class(d.size()) + (at_teardown ? ":provider-teardown" : ""),
                  std::to_string(d.size()) +
                      (at_teardown ? " notifications after End + destruction of the provider (no flush, no shutdown) @ "
                                   : " notifications after End (+ForceFlush) @ ") +
                      where(e, p, s));
      all_ok = false;
      if (d.empty())
        continue;
    }
    Verdicts V;
    V.where = where(e, p, s);
    bool ok = check_copy(s.m, d[0], V, p == 0 ? dontcare_desc : nullptr);
    if (s.half != kHalfNone)
      ok &= check_half_start(s, d[0], V);
    if (!(d[0].ctx == s.ctx))
    {
      V.fail("identity", "span-context", "exported context " + d[0].ctx.show() + " but GetContext() " + s.ctx.show());
      ok = false;
    }
    all_ok &= ok;
    copies.push_back(d[0]);
  }
  if (all_ok && copies.size() == s.nprocs_start)
  {
    for (size_t p = 1; p < copies.size(); ++p)
    {
      std::string f = first_diff(copies[0], copies[p]);
      if (!f.empty())
        R.violation("copies-identical", f,
                    std::string(kProcName[e.procs[0]->kind]) + " vs " + kProcName[e.procs[p]->kind] + " @ " +
                        where(e, p, s));
      for (size_t q = 0; q < p; ++q)
        if (copies[q].object == copies[p].object)
          R.violation("own-copy", "shared-recordable", "two processors were given the same object @ " + where(e, p, s));
    }
    s.matched = true;
    // coverage (counted once per verified span)
    R.count("spans_verified");
    for (auto &kv : s.m.attrs)
    {
      R.count(std::string("alt_exported_") + kAltName[kv.second.v.alt]);
      if (kv.second.type_changes)
        R.count("dupkey_type_change", kv.second.type_changes);
      if (kv.second.writes > 1)
        R.count("dupkey_overwrites", kv.second.writes - 1);
      const MV &v = kv.second.v;
      if (alt_is_array(v.alt))
      {
        size_t n = v.alt == A_SPAN_SV ? v.strs.size() : v.nums.size();
        if (n == 0)
          R.count("empty_arrays_exported");
        if (n >= 4096)
          R.count("large_arrays_exported");
      }
      else if (v.alt == A_SV || v.alt == A_CSTR)
      {
        if (v.str.empty())
          R.count("empty_strings_exported");
        if (v.str.find('\0') != std::string::npos)
          R.count("embedded_nul_strings_exported");
      }
    }
    R.count("events_exported", s.m.events.size());
    R.count("links_exported", s.m.links.size());
    if (s.m.renamed)
      R.count("spans_renamed");
    if (s.m.end_explicit)
      R.count("end_explicit");
    if (s.half != kHalfNone)
      R.count(std::string("verified_start_") + (s.half == kHalfSystem ? "system" : "steady") + "_only_" +
              (s.m.end_explicit ? "explicit" : "default") + "_end");
    if (s.nprocs_end > s.nprocs_start)
      R.count("spans_verified_open_across_add_processor");
    if (s.nprocs_start > e.base_procs)
      R.count("spans_verified_started_after_add_processor");
    R.maxi("max_attributes_per_span", s.m.attrs.size());
    R.maxi("max_events_per_span", s.m.events.size());
  }
}

// after an operation on an ended span: nothing may have reached any processor
static void check_after_end(Env &e, SpanRun &s, const std::string &op)
{
  auto &R = vf::report();
  for (size_t p = 0; p < e.procs.size(); ++p)
  {
    ProcState &ps = *e.procs[p];
    if (ps.kind == kBatch)
      continue;  // asynchronous: judged at the end of the case
    size_t n;
    uint64_t late;
    std::string names;
    {
      std::lock_guard<std::mutex> g(ps.mu);
      n = 0;
      for (auto &o : ps.deliveries)
        n += o.ctx.span_id == s.span_id;
      late  = ps.late_calls;
      names = ps.late_call_names;
    }
    if (n > (p < s.base.size() ? s.base[p] : 0))  // no entry: processor added after this span's End
    {
      R.violation("after-end-ignored", op,
                  std::string(kProcName[ps.kind]) + " processor was notified " + std::to_string(n) + " times @ " +
                      where(e, p, s));
      if (p < s.base.size())
        s.base[p] = n;
    }
    if (late > s.late_seen)
    {
      R.violation("after-end-ignored", op, "recordable received " + names + "after OnEnd @ " + where(e, p, s));
      s.late_seen = late;
    }
  }
}

// tail != nullptr: spans that were ended but not flushed; the pipeline is then torn down by the
// destructors alone, with these spans still queued in the batch processor(s), and they are verified
// afterwards
static void final_checks(Env &e, std::vector<SpanRun> &spans, Rng &r, std::vector<SpanRun> *tail = nullptr,
                         uint64_t *dontcare_desc = nullptr)
{
  auto &R = vf::report();
  if (!tail)
    e.provider->ForceFlush();
  // retained recordables must still read as they did at Export time
  for (size_t p = 0; p < e.procs.size(); ++p)
  {
    ProcState &ps = *e.procs[p];
    std::lock_guard<std::mutex> g(ps.mu);
    for (auto &rt : ps.retained)
    {
      if (ps.kind == kCustom)
        continue;
      Obs now       = snapshot(*static_cast<sdktrace::SpanData *>(rt.rec.get()));
      std::string f = first_diff(ps.deliveries[rt.delivery], now);
      R.count("retained_rechecked");
      if (!f.empty())
        R.violation("changed-after-end", f,
                    std::string(kProcName[ps.kind]) + " processor's recordable changed after it was exported @ [" +
                        e.desc + "]");
    }
    if (ps.kind == kCustom && ps.late_calls)
    {
      uint64_t seen = 0;
      for (auto &s : spans)
        seen += s.late_seen;
      if (ps.late_calls > seen)
        R.violation("after-end-ignored", "any", "recordable received " + ps.late_call_names + "after OnEnd");
    }
  }
  if (tail)
  {
    // which copies are still queued right before the tear-down (a batch processor may have been woken early)
    std::vector<std::vector<bool>> queued(tail->size(), std::vector<bool>(e.procs.size(), false));
    bool any_queued = false;
    for (size_t i = 0; i < tail->size(); ++i)
      for (size_t p = 0; p < e.procs.size(); ++p)
        if (e.procs[p]->kind == kBatch)
        {
          queued[i][p] = deliveries_of(*e.procs[p], (*tail)[i].span_id).empty();
          any_queued |= queued[i][p];
          R.count(queued[i][p] ? "spans_queued_at_provider_teardown" : "teardown_spans_exported_early");
        }
    // the application lets go of everything (all span handles are gone already) and destroys the
    // provider: no ForceFlush, no Shutdown
    e.tracers.clear();
    e.provider.reset();
    R.count("provider_teardowns");
    if (any_queued)
      R.count("provider_teardowns_with_queued_spans");
    for (size_t i = 0; i < tail->size(); ++i)
    {
      SpanRun &s = (*tail)[i];
      verify_span(e, s, dontcare_desc, true);
      for (size_t p = 0; p < e.procs.size(); ++p)
        if (queued[i][p] && !deliveries_of(*e.procs[p], s.span_id).empty())
        {
          R.count("spans_exported_at_provider_teardown");
          R.count("spans_exported_at_provider_teardown_tracer" + std::to_string(s.tracer));
        }
    }
  }
  else
  {
    // shut the pipeline down (explicitly or through the destructors), then count notifications once more
    if (r.coin())
      e.provider->Shutdown();
    e.tracers.clear();
    e.provider.reset();
  }
  for (size_t p = 0; p < e.procs.size(); ++p)
  {
    ProcState &ps = *e.procs[p];
    for (auto &s : spans)
    {
      if (s.state == 0)
        continue;
      auto d = deliveries_of(ps, s.span_id);
      if (p >= s.nprocs_start)
      {
        // added while the span was open: free; added after its End: the span is none of its business
        if (p >= s.nprocs_end && !d.empty())
          R.violation("notify-once", std::string(kProcName[ps.kind]) + ":added-after-end",
                      std::to_string(d.size()) + " notifications at a processor added after the span's End @ " +
                          where(e, p, s));
        continue;
      }
      if (d.size() != 1)
        R.violation("notify-once", std::string(kProcName[ps.kind]) + ":" + count_class(d.size()),
                    std::to_string(d.size()) + " notifications by the end of the case @ " + where(e, p, s));
    }
    std::lock_guard<std::mutex> g(ps.mu);
    if (ps.null_recordables)
      R.violation("notify-once", std::string(kProcName[ps.kind]) + ":null-recordable",
                  "processor/exporter was handed a null recordable");
  }
}

// TracerProvider::AddProcessor while spans are open (seeded change C04-w4-2: a path chosen by the current
// number of processors, per call).  Every processor configured when a span was started must still get
// that span exactly once and complete; the new processor must get every span started from now on.
static void add_processor_while_open(Env &e, Rng &ar, std::vector<SpanRun> &spans)
{
  auto &R    = vf::report();
  auto st    = std::make_shared<ProcState>();
  st->kind   = static_cast<int>(ar.below(3));
  st->retain = st->kind == kCustom || ar.coin();
  auto p     = make_processor(ar, st, e.patient);
  R.count("processors_added_while_span_open");
  if (e.procs.size() == 1)
    R.count("processors_added_while_span_open_to_single");
  e.provider->AddProcessor(std::move(p));
  e.procs.push_back(st);
  e.any_batch |= st->kind == kBatch;
  e.desc += std::string("+") + kProcName[st->kind] + "(added-while-open)";
  for (auto &s : spans)
    if (s.state == 1)
    {
      s.log(std::string("AddProcessor(") + kProcName[st->kind] + ")");
      R.count("spans_open_at_add_processor");
    }
}

static void seq_case(uint64_t seed)
{
  auto &R = vf::report();
  Rng r(seed);
  // tear-down with queued spans: wished for by half of the cases (own generator), possible when the case
  // has two tracers (always different scope names, mostly different versions/schemas) and a batch processor
  Rng tr(vf::mix(seed, vf::fnv1a("provider-teardown")));
  const bool teardown_wish = tr.chance(1, 2);
  Env e;
  const int ntracers = r.chance(1, 3) ? 2 : 1;
  build_env(e, r, 4, ntracers, teardown_wish && ntracers >= 2);
  const bool teardown = teardown_wish && e.tracers.size() >= 2 && e.any_batch;
  // processors added while spans are open: wished for by a third of the cases (own generator: the span
  // programs stay what they are)
  Rng ar(vf::mix(seed, vf::fnv1a("add-processor-while-open")));
  int adds_left = ar.chance(1, 3) ? (ar.chance(1, 4) ? 2 : 1) : 0;
  Gen g(r);
  unsigned sc   = static_cast<unsigned>(r.below(10));
  size_t nspans = sc < 7 ? 1 : sc < 9 ? 2 : 3;
  std::vector<SpanRun> spans(nspans);
  for (auto &s : spans)
  {
    unsigned c = static_cast<unsigned>(r.below(10));
    s.pre_left = c < 1 ? 0 : c < 7 ? static_cast<int>(r.range(1, 12)) : static_cast<int>(r.range(13, 40));
    unsigned em = static_cast<unsigned>(r.below(10));
    s.end_mode  = em < 4 ? kEndPlain : em < 8 ? kEndOptions : kEndImplicit;
    if (s.end_mode != kEndImplicit && r.coin())
    {
      s.post_left  = static_cast<int>(r.range(1, 8));
      s.post_total = s.post_left;
    }
  }
  uint64_t dontcare_desc = 0;
  bool ops_after_end     = false;
  size_t done            = 0;
  while (done < spans.size())
  {
    if (adds_left > 0)
    {
      bool open = false;
      for (auto &x : spans)
        open |= x.state == 1;
      if (open && ar.chance(1, 3))
      {
        --adds_left;
        add_processor_while_open(e, ar, spans);
      }
    }
    // interleave the spans of the case
    size_t i = static_cast<size_t>(r.below(spans.size()));
    while (spans[i].state == 3)
      i = (i + 1) % spans.size();
    SpanRun &s = spans[i];
    if (s.state == 0)
      start_span(e, g, s);
    else if (s.state == 1 && s.pre_left > 0)
    {
      --s.pre_left;
      mutate(e, g, s, true);
    }
    else if (s.state == 1)
    {
      if (s.end_mode == kEndImplicit)
      {
        // dropping the last reference ends the span
        s.m.est_lo = steady_now();
        s.sp       = nostd::shared_ptr<trace_api::Span>();
        s.m.est_hi = steady_now();
        s.log("Release(implicit End)");
        R.count("implicit_end");
      }
      else
        end_span(g, s, true);
      s.state = 2;
      verify_span(e, s, &dontcare_desc);
    }
    else if (s.state == 2 && s.post_left > 0)
    {
      --s.post_left;
      ops_after_end = true;
      std::string op;
      if (r.chance(1, 4))
      {
        op = "End";
        end_span(g, s, false);
        R.count("second_end");
      }
      else
        op = mutate(e, g, s, false);
      R.count("ops_after_end");
      check_after_end(e, s, op);
    }
    else
    {
      if (s.sp)
        s.sp = nostd::shared_ptr<trace_api::Span>();
      if (s.state == 2 && s.post_total)
        check_after_end(e, s, "Release");
      s.state = 3;
      ++done;
    }
  }
  // the last few spans of a tear-down case: at least one per tracer, ended and released, never flushed
  std::vector<SpanRun> tail;
  if (teardown)
  {
    size_t per = static_cast<size_t>(tr.range(1, 2));
    tail.resize(per * e.tracers.size());
    for (size_t i = 0; i < tail.size(); ++i)
    {
      SpanRun &s = tail[i];
      start_span(e, g, s, static_cast<int>(i % e.tracers.size()));
      for (int n = static_cast<int>(tr.range(0, 6)); n > 0; --n)
        mutate(e, g, s, true);
      unsigned em = static_cast<unsigned>(tr.below(10));
      s.end_mode  = em < 4 ? kEndPlain : em < 8 ? kEndOptions : kEndImplicit;
      if (s.end_mode == kEndImplicit)
      {
        s.m.est_lo = steady_now();
        s.sp       = nostd::shared_ptr<trace_api::Span>();
        s.m.est_hi = steady_now();
        s.log("Release(implicit End)");
      }
      else
      {
        end_span(g, s, true);
        s.sp = nostd::shared_ptr<trace_api::Span>();  // an ended span still holds its tracer
      }
      s.log("[queued at provider tear-down]");
      s.state = 3;
    }
  }
  size_t nprocs = e.base_procs;  // configured before the first span
  bool batch    = e.any_batch;
  std::string desc = e.desc;
  if (teardown)
  {
    final_checks(e, spans, r, &tail, &dontcare_desc);
    R.count("programs_provider_teardown");
    for (auto &s : tail)
      spans.push_back(s);  // hash / non-trivial below
  }
  else
    final_checks(e, spans, r);
  R.count("programs");
  if (ops_after_end)
    R.count("programs_ops_after_end");
  if (nprocs >= 2)
    R.count("programs_ge2_processors");
  if (batch)
    R.count("programs_with_batch");
  if (spans.size() > 1)
    R.count("programs_interleaved_spans");
  R.count("status_description_dontcare", dontcare_desc);
  R.count("strings_empty_generated", g.cc.empty);
  R.count("strings_embedded_nul_generated", g.cc.nul);
  uint64_t h = vf::fnv1a(desc);
  bool nontrivial = false;
  for (auto &s : spans)
  {
    h = vf::mix(h, s.hash);
    nontrivial |= s.matched;
  }
  if (nontrivial)
    R.nontrivial(h);
  if (R.want_sample(5) && r.chance(1, 20))
    R.sample("[" + desc + "] " + spans[0].trace);
}

// ------------------------------------------------------------------------------------------
// concurrency clause (mode=conc, TSan + shim): 2..4 threads mutate one span while 1..2 threads end it
// ------------------------------------------------------------------------------------------
enum COpKind
{
  C_ATTR = 0,
  C_EVENT,
  C_EVENT_ATTRS,
  C_NAME,
  C_STATUS
};
static const char *const kCOpName[5] = {"SetAttribute", "AddEvent", "AddEvent+attrs", "UpdateName", "SetStatus"};

struct COp
{
  int kind = C_ATTR;
  std::string text;  // attribute key / event name / new span name / status description
  MV val;
  Items items;
  int code      = 0;
  uint64_t call = 0, ret = 0;
};

struct CEnd
{
  uint64_t trigger = 0;
  bool options     = false;
  uint64_t call = 0, ret = 0;
};

struct CShared
{
  vf::raw_atomic<uint64_t> clock{1};
  vf::raw_atomic<uint64_t> done{0};
  vf::raw_atomic<int> go{0};
};

static void conc_mutator(trace_api::Span *sp, std::vector<COp> *ops, CShared *sh, uint64_t seed)
{
  Rng lr(seed);
  while (!sh->go.load(std::memory_order_acquire))
    std::this_thread::yield();
  for (auto &op : *ops)
  {
    Backing bk;
    bool kill = lr.coin();
    auto tv   = bk.view(op.text);
    switch (op.kind)
    {
      case C_ATTR: {
        auto av = materialise(op.val, bk);
        op.call = sh->clock.fetch_add(1);
        sp->SetAttribute(tv, av);
        op.ret = sh->clock.fetch_add(1);
        break;
      }
      case C_EVENT:
        op.call = sh->clock.fetch_add(1);
        sp->AddEvent(tv);
        op.ret = sh->clock.fetch_add(1);
        break;
      case C_EVENT_ATTRS: {
        auto blk = kv_block(op.items, bk);
        HeapKV kv(blk);
        op.call = sh->clock.fetch_add(1);
        sp->AddEvent(tv, kv);
        op.ret = sh->clock.fetch_add(1);
        break;
      }
      case C_NAME:
        op.call = sh->clock.fetch_add(1);
        sp->UpdateName(tv);
        op.ret = sh->clock.fetch_add(1);
        break;
      default:
        op.call = sh->clock.fetch_add(1);
        sp->SetStatus(static_cast<trace_api::StatusCode>(op.code), tv);
        op.ret = sh->clock.fetch_add(1);
    }
    bk.kill(kill);
    sh->done.fetch_add(1);
  }
}

static void conc_ender(trace_api::Span *sp, CEnd *e, CShared *sh)
{
  while (!sh->go.load(std::memory_order_acquire))
    std::this_thread::yield();
  while (sh->done.load() < e->trigger)
    std::this_thread::yield();
  trace_api::EndSpanOptions eo;
  if (e->options)
    eo.end_steady_time = common::SteadyTimestamp(std::chrono::nanoseconds(steady_now() + 1000));
  e->call = sh->clock.fetch_add(1);
  sp->End(eo);
  e->ret = sh->clock.fetch_add(1);
}

struct CProj
{
  OAttrs attrs;
  std::vector<std::pair<std::string, OAttrs>> events;
  bool operator==(const CProj &o) const { return attrs == o.attrs && events == o.events; }
};

static CProj conc_expected(const std::vector<COp> &ops, size_t prefix)
{
  CProj p;
  for (size_t i = 0; i < prefix; ++i)
  {
    const COp &op = ops[i];
    if (op.kind == C_ATTR)
      p.attrs[op.text] = op.val.canon();
    else if (op.kind == C_EVENT || op.kind == C_EVENT_ATTRS)
    {
      OAttrs a;
      for (auto &kv : op.items)
        a[kv.first] = kv.second.canon();
      p.events.emplace_back(op.text, a);
    }
  }
  return p;
}

static void conc_case(uint64_t seed)
{
  auto &R = vf::report();
  Rng r(seed);
  shim_arm(seed);
  Env e;
  build_env(e, r, 3, 1);
  Gen g(r);
  g.allow_large = false;
  size_t nmut   = static_cast<size_t>(r.range(2, 4));
  size_t nend   = r.chance(1, 3) ? 2 : 1;
  std::vector<std::vector<COp>> threads(nmut);
  size_t total = 0;
  for (size_t t = 0; t < nmut; ++t)
  {
    size_t n = static_cast<size_t>(r.range(4, 30));
    for (size_t j = 0; j < n; ++j)
    {
      COp op;
      unsigned c = static_cast<unsigned>(r.below(100));
      if (c < 50)
      {
        op.kind = C_ATTR;
        op.text = "m" + std::to_string(t) + "." + std::to_string(r.below(4));
        op.val  = g.small_value();
      }
      else if (c < 65)
      {
        op.kind = C_EVENT;
        op.text = "e" + std::to_string(t) + "." + std::to_string(j);
      }
      else if (c < 78)
      {
        op.kind  = C_EVENT_ATTRS;
        op.text  = "e" + std::to_string(t) + "." + std::to_string(j);
        Items it = g.items(3);
        // unique keys inside one container keep the expected map independent of iteration details
        std::set<std::string> seen;
        for (auto &kv : it)
          if (seen.insert(kv.first).second)
            op.items.push_back(kv);
      }
      else if (c < 89)
      {
        op.kind = C_NAME;
        op.text = "n" + std::to_string(t) + "." + std::to_string(j);
      }
      else
      {
        op.kind = C_STATUS;
        op.code = r.coin() ? 2 : 1;
        op.text = "d" + std::to_string(t) + "." + std::to_string(j);
      }
      threads[t].push_back(op);
    }
    total += n;
  }
  std::vector<CEnd> ends(nend);
  for (auto &en : ends)
  {
    en.trigger = static_cast<uint64_t>(r.range(0, static_cast<int64_t>(total)));
    en.options = r.coin();
  }

  // the span, started on this thread with a few attributes of its own
  TracerInfo &t = e.tracers[0];
  Items start_attrs;
  size_t ns = static_cast<size_t>(r.range(0, 3));
  for (size_t j = 0; j < ns; ++j)
    start_attrs.emplace_back("s" + std::to_string(j), g.small_value());
  nostd::shared_ptr<trace_api::Span> sp;
  {
    Backing bk;
    auto nv  = bk.view("n-initial");
    auto blk = kv_block(start_attrs, bk);
    sp       = t.tracer->StartSpan(nv, blk);
    bk.kill(r.coin());
  }
  MCtx ctx = ctx_of(sp->GetContext());

  CShared sh;
  std::vector<std::thread> th;
  for (size_t i = 0; i < nmut; ++i)
    th.emplace_back(conc_mutator, sp.get(), &threads[i], &sh, vf::mix(seed, i + 1));
  for (size_t i = 0; i < nend; ++i)
    th.emplace_back(conc_ender, sp.get(), &ends[i], &sh);
  sh.go.store(1, std::memory_order_release);
  for (auto &x : th)
    x.join();
  e.provider->ForceFlush();
  shim_disarm();

  uint64_t end_call = ~0ull, end_ret = ~0ull;
  for (auto &en : ends)
  {
    end_call = std::min(end_call, en.call);
    end_ret  = std::min(end_ret, en.ret);
  }
  std::string summary = "[" + e.desc + "] mutators=" + std::to_string(nmut) + " enders=" + std::to_string(nend) +
                        " ops=" + std::to_string(total) + " End called@" + std::to_string(end_call) + " returned@" +
                        std::to_string(end_ret);

  // per-thread admissible prefix lengths [lo, hi]
  std::vector<size_t> lo(nmut), hi(nmut);
  uint64_t n_before = 0, n_after = 0, n_overlap = 0;
  for (size_t i = 0; i < nmut; ++i)
  {
    auto &ops = threads[i];
    size_t l = 0, h = ops.size();
    while (l < ops.size() && ops[l].ret < end_call)
      ++l;
    for (size_t j = 0; j < ops.size(); ++j)
      if (ops[j].call > end_ret)
      {
        h = j;
        break;
      }
    lo[i] = l;
    hi[i] = h;
    n_before += l;
    n_after += ops.size() - h;
    n_overlap += h - l;
  }
  R.count("conc_cases");
  R.count("conc_ops_before_end", n_before);
  R.count("conc_ops_after_end", n_after);
  R.count("conc_ops_overlapping_end", n_overlap);
  R.count("conc_mutator_threads", nmut);
  if (nend > 1)
    R.count("conc_two_enders");
  if (n_before && n_after)
    R.count("conc_cases_with_before_and_after");

  std::vector<Obs> copies;
  bool all_ok = true;
  for (size_t p = 0; p < e.procs.size(); ++p)
  {
    ProcState &ps = *e.procs[p];
    auto d        = deliveries_of(ps, ctx.span_id);
    std::string w = "processor " + std::to_string(p + 1) + " " + summary;
    if (d.size() != 1)
    {
      R.violation("notify-once", std::string(kProcName[ps.kind]) + ":" + count_class(d.size()),
                  std::to_string(d.size()) + " notifications after concurrent End @ " + w);
      all_ok = false;
      if (d.empty())
        continue;
    }
    const Obs &o = d[0];
    copies.push_back(o);
    auto fail = [&](const std::string &a, const std::string &cls, const std::string &detail) {
      all_ok = false;
      R.violation(a, cls, detail + " @ " + w);
    };
    // start attributes and everything that is not a mutator's
    std::vector<CProj> proj(nmut);
    for (auto &kv : o.attrs)
    {
      const std::string &k = kv.first;
      if (k.size() >= 3 && k[0] == 'm' && k[2] == '.' && static_cast<size_t>(k[1] - '0') < nmut)
        proj[static_cast<size_t>(k[1] - '0')].attrs[k] = kv.second;
      else if (k.size() >= 2 && k[0] == 's')
      {
        bool found = false;
        for (auto &sa : start_attrs)
          found |= sa.first == k;
        if (!found)
          fail("conc-unexpected", "attribute", "key " + vf::show(k, 20) + " was never set");
      }
      else
        fail("conc-unexpected", "attribute", "key " + vf::show(k, 20) + " was never set");
    }
    {
      MAttrs sm = model_of(start_attrs);
      for (auto &kv : sm)
      {
        auto it = o.attrs.find(kv.first);
        if (it == o.attrs.end() || it->second != kv.second.canon)
          fail("conc-start-attribute", kAltName[kv.second.v.alt], "start attribute " + kv.first + " lost or changed");
      }
    }
    // position of every event in the exported list, for the cross-thread order check
    struct Pos
    {
      uint64_t call, ret;
      std::string name;
    };
    std::vector<Pos> positions;
    for (auto &ev : o.events)
    {
      const std::string &n = ev.name;
      bool known           = false;
      if (n.size() >= 3 && n[0] == 'e' && n[2] == '.' && static_cast<size_t>(n[1] - '0') < nmut)
      {
        size_t ti = static_cast<size_t>(n[1] - '0');
        proj[ti].events.emplace_back(n, ev.attrs);
        for (auto &op : threads[ti])
          if ((op.kind == C_EVENT || op.kind == C_EVENT_ATTRS) && op.text == n)
          {
            positions.push_back(Pos{op.call, op.ret, n});
            known = true;
            break;
          }
      }
      if (!known)
        fail("conc-unexpected", "event", "event " + vf::show(n, 20) + " was never added");
    }
    for (size_t i = 0; i < positions.size(); ++i)
      for (size_t j = i + 1; j < positions.size(); ++j)
        if (positions[j].ret < positions[i].call)
        {
          fail("conc-event-order", positions[i].name[1] == positions[j].name[1] ? "same-thread" : "cross-thread",
               "event " + positions[j].name + " returned before " + positions[i].name +
                   " was called but is exported after it");
          i = positions.size();
          break;
        }
    // each thread's visible effects must be those of a prefix of its calls, of admissible length
    std::vector<std::vector<size_t>> matching(nmut);
    for (size_t ti = 0; ti < nmut; ++ti)
    {
      auto &ops = threads[ti];
      for (size_t P = lo[ti]; P <= hi[ti]; ++P)
        if (conc_expected(ops, P) == proj[ti])
          matching[ti].push_back(P);
      if (!matching[ti].empty())
        continue;
      // classify by the clause of the property that is broken
      bool classified = false;
      for (size_t j = 0; j < ops.size() && !classified; ++j)
      {
        const COp &op = ops[j];
        if (op.kind == C_NAME || op.kind == C_STATUS)
          continue;
        bool is_attr = op.kind == C_ATTR;
        bool visible;
        if (is_attr)
          visible = proj[ti].attrs.count(op.text) != 0;
        else
        {
          visible = false;
          for (auto &ev : proj[ti].events)
            visible |= ev.first == op.text;
        }
        if (j < lo[ti] && !visible)
        {
          fail("conc-present-before-end", kCOpName[op.kind],
               op.text + " returned@" + std::to_string(op.ret) + " before End was called but is not exported");
          classified = true;
        }
        else if (j >= hi[ti] && !is_attr && visible)
        {
          fail("conc-absent-after-end", kCOpName[op.kind],
               op.text + " called@" + std::to_string(op.call) + " after End returned but is exported");
          classified = true;
        }
      }
      if (!classified)
      {
        // attributes: value of a call made after End returned, or a wrong value altogether
        CProj atlo = conc_expected(ops, lo[ti]), athi = conc_expected(ops, hi[ti]), all = conc_expected(ops, ops.size());
        for (auto &kv : proj[ti].attrs)
        {
          bool some = false;
          int alt   = 0;
          for (auto &op : ops)
            if (op.kind == C_ATTR && op.text == kv.first)
            {
              alt = op.val.alt;
              some |= op.val.canon() == kv.second;
            }
          if (!some)
          {
            // class = logical type of what was exported (the key is reused with several alternatives)
            (void)alt;
            fail("conc-attr-value", tag_name(kv.second.empty() ? '?' : kv.second[0]),
                 "key " + kv.first + " exported as " + vf::show(kv.second, 60) + ", a value no call ever passed");
            classified = true;
            break;
          }
          auto ih = athi.attrs.find(kv.first);
          auto ia = all.attrs.find(kv.first);
          if (ih == athi.attrs.end() || (ih->second != kv.second && ia != all.attrs.end() && ia->second == kv.second &&
                                         hi[ti] < ops.size()))
          {
            bool later_only = true;
            for (size_t j = 0; j < hi[ti]; ++j)
              if (ops[j].kind == C_ATTR && ops[j].text == kv.first && ops[j].val.canon() == kv.second)
                later_only = false;
            if (later_only)
            {
              fail("conc-absent-after-end", kCOpName[C_ATTR],
                   "key " + kv.first + " carries a value that was only set after End returned");
              classified = true;
              break;
            }
          }
        }
        (void)atlo;
      }
      if (!classified)
        fail("conc-thread-prefix", "effects-not-a-prefix",
             "effects of mutator " + std::to_string(ti) + " are not those of any admissible prefix [" +
                 std::to_string(lo[ti]) + "," + std::to_string(hi[ti]) + "] of its " + std::to_string(ops.size()) +
                 " calls");
    }
    // name and status: the winner is the last applied call of some thread, not overwritten by a call that
    // was applied and began after it returned
    bool prefixes_ok = true;
    for (size_t ti = 0; ti < nmut; ++ti)
      prefixes_ok &= !matching[ti].empty();
    if (prefixes_ok)
    {
      for (int what = C_NAME; what <= C_STATUS; ++what)
      {
        // candidates under the most permissive admissible prefixes
        std::vector<const COp *> applied_min, cands;
        bool none_required = true;  // no call of this kind is certainly applied
        for (size_t ti = 0; ti < nmut; ++ti)
        {
          size_t pmin = matching[ti].front(), pmax = matching[ti].back();
          for (size_t j = 0; j < pmax; ++j)
            if (threads[ti][j].kind == what)
            {
              cands.push_back(&threads[ti][j]);
              if (j < pmin)
              {
                applied_min.push_back(&threads[ti][j]);
                none_required = false;
              }
            }
        }
        auto superseded = [&](const COp *x) {
          for (auto *z : applied_min)
            if (z != x && x->ret < z->call)
              return true;
          // a later call of the same thread that is certainly applied also supersedes it
          return false;
        };
        bool ok = false;
        std::string got;
        if (what == C_NAME)
        {
          got = o.name;
          if (o.name == "n-initial")
            ok = none_required;
          for (auto *c : cands)
            if (c->text == o.name && !superseded(c))
              ok = true;
        }
        else
        {
          got = std::string(kStatusName[o.status < 3 && o.status >= 0 ? o.status : 0]) + "," + o.desc;
          if (o.status == 0)
            ok = none_required;
          for (auto *c : cands)
            if (c->code == o.status && !superseded(c) && (o.status != 2 || c->text == o.desc))
              ok = true;
        }
        if (!ok)
          fail(what == C_NAME ? "conc-name" : "conc-status", "not-a-possible-last-call",
               "exported " + vf::show(got, 40) + " cannot be the last " + kCOpName[what] + " applied before End");
      }
    }
    if (!(o.ctx == ctx))
      fail("identity", "span-context", "exported context differs from GetContext()");
    if (o.resource != &e.provider->GetResource() || o.resource_marker != e.marker)
      fail("resource", "provider-resource", "resource differs");
    if (o.scope != t.scope)
      fail("scope", "tracer-scope", "scope differs");
  }
  if (all_ok && copies.size() == e.procs.size())
  {
    for (size_t p = 1; p < copies.size(); ++p)
    {
      std::string f = first_diff(copies[0], copies[p]);
      if (!f.empty())
        R.violation("copies-identical", f,
                    std::string(kProcName[e.procs[0]->kind]) + " vs " + kProcName[e.procs[p]->kind] + " @ " + summary);
    }
    R.count("conc_spans_verified");
    if (e.procs.size() >= 2)
      R.count("conc_cases_ge2_processors");
    uint64_t sig = 0;
    for (size_t ti = 0; ti < nmut; ++ti)
      sig = vf::mix(sig, lo[ti] * 64 + hi[ti]);
    R.signature(vf::mix(sig, seed));
    R.nontrivial(vf::mix(seed, 0xc04c));
  }
  // operations after End from this thread, then the pipeline goes away
  SpanRun fake;
  fake.sp      = sp;
  fake.span_id = ctx.span_id;
  fake.state   = 2;
  fake.trace   = summary;
  fake.nprocs_start = fake.nprocs_end = e.procs.size();
  for (auto &ps : e.procs)
    fake.base.push_back(deliveries_of(*ps, ctx.span_id).size());
  size_t post  = static_cast<size_t>(r.range(0, 4));
  for (size_t i = 0; i < post; ++i)
  {
    std::string op;
    if (r.chance(1, 3))
    {
      op = "End";
      sp->End();
    }
    else
      op = mutate(e, g, fake, false);
    check_after_end(e, fake, op);
  }
  sp      = nostd::shared_ptr<trace_api::Span>();
  fake.sp = nostd::shared_ptr<trace_api::Span>();
  std::vector<SpanRun> one;
  one.push_back(fake);
  final_checks(e, one, r);
  if (R.want_sample(3) && r.chance(1, 10))
    R.sample("conc: " + summary + " admissible prefixes t0=[" + std::to_string(lo[0]) + "," + std::to_string(hi[0]) + "]");
}

int main(int argc, char **argv)
{
  auto &R = vf::report();
  R.init("C04", argc, argv);
  auto silent = nostd::shared_ptr<sdklog::LogHandler>(new SilentLog);
  sdklog::GlobalLogHandler::SetLogHandler(silent);
  std::string mode = R.opt.sparam("mode", "seq");
  R.maxi("attribute_value_alternatives", nostd::variant_size<common::AttributeValue>::value);
  R.run_cases([&](uint64_t i) {
    if (mode == "conc")
      conc_case(R.case_seed(i));
    else
      seq_case(R.case_seed(i));
  });
  R.count("sdk_log_messages", static_cast<SilentLog *>(silent.get())->n.load());
  return R.finish();
}
