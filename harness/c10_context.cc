// C10 — contexts are immutable values; the runtime context is a per-thread stack.
// Engine E1: generated SetValue/SetValues/GetValue/Attach/Detach/Scope programs applied in
// lock-step to the real header-only API and to a reference model (flat key->value-id map per
// context with parent link; runtime stack with the documented Detach semantics).  Every context
// ever created in a program is kept and re-queried every 16 steps and at the end.
// Modes (--param mode=...):
//   seq      (asan)  one program per case, mostly on a fresh thread so the thread_local stack
//                    starts at capacity 0 and deep programs cross every internal Resize
//   nullkey  (asan, nonnull-attribute in recover mode) as seq, plus the inputs that make the
//                    implementation hand a null pointer to memcmp/memcpy: SetValues/Context of an
//                    empty collection and the empty key as a default-constructed string_view
//   mt       (tsan + shim) 2..8 threads, each running an independent program against its own
//                    model, started together, with seeded yields/sleeps between operations
#include "opentelemetry/baggage/baggage.h"
#include "opentelemetry/context/context.h"
#include "opentelemetry/context/runtime_context.h"
#include "opentelemetry/trace/context.h"
#include "opentelemetry/trace/default_span.h"
#include "opentelemetry/trace/scope.h"
#include "opentelemetry/trace/span_context.h"
#include "opentelemetry/trace/span_metadata.h"
#include "opentelemetry/trace/tracer.h"

#include <memory>
#include <thread>

#include "vf_core.h"
#ifdef VF_SHIM_H
#  include "vf_runtime.h"
#endif

namespace ctx   = opentelemetry::context;
namespace trace = opentelemetry::trace;
namespace nostd = opentelemetry::nostd;
using vf::Rng;

typedef nostd::shared_ptr<trace::Span> SpanPtr;
typedef nostd::shared_ptr<trace::SpanContext> SpanCtxPtr;
typedef nostd::shared_ptr<opentelemetry::baggage::Baggage> BaggagePtr;

enum Mode
{
  kSeq,
  kNullKey,
  kMt
};

// ------------------------------------------------------------------------------------------
// value identity
// ------------------------------------------------------------------------------------------
static bool same(const ctx::ContextValue &a, const ctx::ContextValue &b)
{
  if (a.index() != b.index())
    return false;
  switch (a.index())
  {
    case 0:
      return true;
    case 1:
      return nostd::get<bool>(a) == nostd::get<bool>(b);
    case 2:
      return nostd::get<int64_t>(a) == nostd::get<int64_t>(b);
    case 3:
      return nostd::get<uint64_t>(a) == nostd::get<uint64_t>(b);
    case 4:
    {
      double x = nostd::get<double>(a), y = nostd::get<double>(b);
      return memcmp(&x, &y, sizeof x) == 0;
    }
    case 5:
      return nostd::get<SpanPtr>(a).get() == nostd::get<SpanPtr>(b).get();
    case 6:
      return nostd::get<SpanCtxPtr>(a).get() == nostd::get<SpanCtxPtr>(b).get();
    case 7:
      return nostd::get<BaggagePtr>(a).get() == nostd::get<BaggagePtr>(b).get();
  }
  return false;
}

static std::string show_value(const ctx::ContextValue &a)
{
  char b[64];
  switch (a.index())
  {
    case 0:
      return "monostate";
    case 1:
      return nostd::get<bool>(a) ? "bool:true" : "bool:false";
    case 2:
      snprintf(b, sizeof b, "int64:%" PRId64, nostd::get<int64_t>(a));
      return b;
    case 3:
      snprintf(b, sizeof b, "uint64:%" PRIu64, nostd::get<uint64_t>(a));
      return b;
    case 4:
      snprintf(b, sizeof b, "double:%.17g", nostd::get<double>(a));
      return b;
    case 5:
      snprintf(b, sizeof b, "span@%p", static_cast<void *>(nostd::get<SpanPtr>(a).get()));
      return b;
    case 6:
      snprintf(b, sizeof b, "spanctx@%p", static_cast<void *>(nostd::get<SpanCtxPtr>(a).get()));
      return b;
    case 7:
      snprintf(b, sizeof b, "baggage@%p", static_cast<void *>(nostd::get<BaggagePtr>(a).get()));
      return b;
  }
  return "?";
}

static std::string key_class(const std::string &k)
{
  if (k.empty())
    return "empty-key";
  if (k.find('\0') != std::string::npos)
    return "nul-key";
  return "plain-key";
}

// ------------------------------------------------------------------------------------------
// reference model of one context
// ------------------------------------------------------------------------------------------
struct MCtx
{
  int parent = -1;                                  // family index of the context it was derived from
  std::vector<std::pair<std::string, int>> added;   // (key, value-id) this creation added
  std::map<std::string, int> flat;                  // all visible bindings: parent's overlaid with added
  bool keyless_node = false;                        // this or an ancestor came from an empty collection
  const char *origin = "empty";
  std::vector<ctx::ContextValue> first_seen;        // answers to the query set recorded at creation
  std::vector<char> first_has;
};

struct LocalCounters
{
  std::map<std::string, uint64_t> c;
  void operator()(const char *name, uint64_t n = 1) { c[name] += n; }
  void flush()
  {
    auto &R = vf::report();
    for (auto &kv : c)
      R.count(kv.first, kv.second);
    c.clear();
  }
};

static inline void perturb(bool mt)
{
#ifdef VF_SHIM_H
  if (mt)
    vf_point(0);
#else
  (void)mt;
#endif
}

// shared, immutable base contexts of a multi-thread case (created before the threads start)
struct SharedBase
{
  std::vector<ctx::Context> real;
  std::vector<std::map<std::string, int>> flat;  // value ids refer to `vals`
  std::vector<ctx::ContextValue> vals;            // id 0 = monostate
};

// ------------------------------------------------------------------------------------------
// one program
// ------------------------------------------------------------------------------------------
struct Prog
{
  Rng r;
  Mode mode;
  int tid;
  bool fresh_thread;
  LocalCounters count;
  std::vector<ctx::ContextValue> vals;  // value-id -> value; id 0 = monostate (absent)
  std::vector<int> span_vals;           // value ids holding a span
  std::vector<std::string> pool, Q;     // keys used for bindings; fixed query set (pool + near misses)
  size_t q_span = 0;                    // index of the span key in Q
  std::vector<ctx::Context> real;       // every context ever created, never dropped
  std::vector<MCtx> model;
  std::vector<int> stack;               // model of the thread's runtime stack: family indices
  struct Tok
  {
    nostd::unique_ptr<ctx::Token> t;
    int ci;
  };
  struct Sc
  {
    std::unique_ptr<trace::Scope> s;
    int ci;
  };
  std::vector<Tok> toks;
  std::vector<Sc> scopes;
  bool lost_sync = false;  // the real stack no longer follows the model: stop judging stack ops
  size_t capacity_model = 0;  // only to count/classify attaches that make the real stack grow
  size_t max_depth = 0;
  bool did_double_attach_detach = false;
  uint64_t chash = 0;
  bool nontrivial = false;
  std::string trace_txt;

  Prog(uint64_t seed, Mode m, int t, bool fresh) : r(seed), mode(m), tid(t), fresh_thread(fresh)
  {
    vals.emplace_back();  // id 0
  }

  void note(const std::string &s)
  {
    if (trace_txt.size() < 400)
      trace_txt += s + " ";
  }

  // ---- keys ----------------------------------------------------------------------------
  void make_keys()
  {
    static const std::vector<std::string> fixed = {
        std::string(),
        "a",
        "ab",
        "abc",
        std::string("k\0x", 3),
        std::string("k\0y", 3),
        "k",
        std::string(1, '\0'),
        std::string(2, '\0'),
        trace::kSpanKey,
        trace::kIsRootSpanKey,
        "active_spa",
        "active_span2",
        std::string("active_span\0", 12),
    };
    size_t n = static_cast<size_t>(r.range(2, 9));
    std::set<std::string> seen;
    auto add = [&](const std::string &k) {
      if (seen.insert(k).second)
        pool.push_back(k);
    };
    if (mode == kNullKey || r.chance(1, 2))
      add(std::string());
    if (r.chance(2, 3))
      add(trace::kSpanKey);
    while (pool.size() < n)
    {
      unsigned c = static_cast<unsigned>(r.below(10));
      if (c < 5)
        add(r.pick(fixed));
      else if (c < 7)
        add(r.anybytes(static_cast<size_t>(r.range(1, 8))));
      else if (c < 8)
        add(r.bytes(static_cast<size_t>(r.range(60, 200)), "abcdefgh"));
      else
        add(r.bytes(static_cast<size_t>(r.range(1, 4)), std::string("ab\0", 3)));
    }
    // query set: the pool plus near misses of pool keys
    Q = pool;
    std::set<std::string> qs(pool.begin(), pool.end());
    auto addq = [&](const std::string &k) {
      if (Q.size() < 18 && qs.insert(k).second)
        Q.push_back(k);
    };
    for (size_t i = 0; i < pool.size() && Q.size() < 18; ++i)
    {
      const std::string &k = pool[i];
      switch (r.below(5))
      {
        case 0:
          if (!k.empty())
            addq(k.substr(0, k.size() - 1));
          break;
        case 1:
          addq(k + std::string(1, static_cast<char>(r.below(256))));
          break;
        case 2:
          addq(std::string(k.c_str()));  // what a C-string reader would see
          break;
        case 3:
          addq(k + std::string(1, '\0'));
          break;
        default:
          addq(r.anybytes(static_cast<size_t>(r.range(0, 6))));
      }
    }
    addq(std::string());
    if (!qs.count(trace::kSpanKey))
      Q.push_back(trace::kSpanKey);
    q_span = static_cast<size_t>(std::find(Q.begin(), Q.end(), std::string(trace::kSpanKey)) - Q.begin());
  }

  // hands `k` to f as an exact-size, unterminated view and kills the storage afterwards
  template <class F>
  auto with_key(const std::string &k, F &&f) -> decltype(f(nostd::string_view()))
  {
    if (mode == kNullKey && k.empty() && r.coin())
    {
      count("null_view_keys");
      return f(nostd::string_view());  // empty key as {nullptr, 0}
    }
    vf::Buf b(k);
    auto res = f(nostd::string_view(b.data(), b.size()));
    if (r.coin())
      b.scribble();
    else
      b.release();
    return res;
  }

  // ---- values --------------------------------------------------------------------------
  int new_value()
  {
    int id     = static_cast<int>(vals.size());
    unsigned c = static_cast<unsigned>(r.below(100));
    uint64_t u = (static_cast<uint64_t>(tid) << 40) | (static_cast<uint64_t>(id) << 8) | r.below(256);
    if (c < 6)
      vals.emplace_back(r.coin());
    else if (c < 36)
      vals.emplace_back(static_cast<int64_t>(r.chance(1, 20) ? (r.coin() ? INT64_MIN : INT64_MAX) : static_cast<int64_t>(u)));
    else if (c < 50)
      vals.emplace_back(static_cast<uint64_t>(r.chance(1, 20) ? UINT64_MAX : u));
    else if (c < 60)
      vals.emplace_back(r.chance(1, 10) ? -0.0 : static_cast<double>(u) + 0.5);
    else if (c < 80)
      return new_span_value();
    else if (c < 88)
      vals.emplace_back(SpanCtxPtr(new trace::SpanContext(false, r.coin())));
    else if (c < 96)
      vals.emplace_back(BaggagePtr(new opentelemetry::baggage::Baggage()));
    else
      vals.emplace_back(nostd::monostate{});  // an explicit binding to monostate
    return id;
  }

  int new_span_value()
  {
    int id = static_cast<int>(vals.size());
    uint8_t t[16], s[8];
    for (auto &x : t)
      x = static_cast<uint8_t>(r.below(256));
    t[0] |= 1;
    uint64_t sid = (static_cast<uint64_t>(tid + 1) << 32) | static_cast<uint64_t>(id);
    memcpy(s, &sid, 8);
    trace::SpanContext sc(trace::TraceId(t), trace::SpanId(s), trace::TraceFlags(static_cast<uint8_t>(r.below(4))),
                          r.coin());
    vals.emplace_back(SpanPtr(new trace::DefaultSpan(sc)));
    span_vals.push_back(id);
    return id;
  }

  // ---- model helpers -------------------------------------------------------------------
  int want_id(int ci, const std::string &k) const
  {
    auto it = model[ci].flat.find(k);
    return it == model[ci].flat.end() ? 0 : it->second;
  }

  std::string answer_class(int ci, const std::string &k) const
  {
    std::string c = key_class(k);
    // a node built from an empty collection has no key; only the empty key can be confused with it
    if (k.empty() && model[ci].keyless_node)
      c += "-below-empty-collection";
    return c;
  }

  std::string describe(int ci) const
  {
    std::string s = std::string(model[ci].origin) + "#" + std::to_string(ci) + "{";
    size_t n      = 0;
    for (int c = ci; c >= 0 && n < 12; c = model[c].parent)
    {
      if (model[c].added.empty() && c != 0)
        s += "<empty collection>;";
      for (auto &kv : model[c].added)
      {
        s += vf::show(kv.first, 24) + "=" + show_value(vals[kv.second]) + ";";
        ++n;
      }
    }
    return s + (n >= 12 ? "...}" : "}");
  }

  int add_model(int parent, std::vector<std::pair<std::string, int>> added, const char *origin, bool keyless)
  {
    MCtx m;
    m.parent = parent;
    if (parent >= 0)
    {
      m.flat         = model[parent].flat;
      m.keyless_node = model[parent].keyless_node;
    }
    for (auto &kv : added)
      m.flat[kv.first] = kv.second;
    m.added        = std::move(added);
    m.origin       = origin;
    m.keyless_node = m.keyless_node || keyless;
    model.push_back(std::move(m));
    return static_cast<int>(model.size()) - 1;
  }

  // a context just came into existence as real[ci]/model[ci]: it must answer every query key with
  // the most recent binding; the answers are remembered for the immutability re-checks
  void check_new(int ci)
  {
    auto &R  = vf::report();
    MCtx &m  = model[ci];
    m.first_seen.resize(Q.size());
    m.first_has.resize(Q.size());
    for (size_t q = 0; q < Q.size(); ++q)
    {
      const std::string &k = Q[q];
      ctx::ContextValue got =
          with_key(k, [&](nostd::string_view kv) { return static_cast<const ctx::Context &>(real[ci]).GetValue(kv); });
      bool has = with_key(k, [&](nostd::string_view kv) { return static_cast<const ctx::Context &>(real[ci]).HasKey(kv); });
      const ctx::ContextValue &want = vals[want_id(ci, k)];
      count("context_queries");
      if (!same(got, want))
        R.violation("getvalue-most-recent", answer_class(ci, k),
                    "GetValue(" + vf::show(k, 40) + ") on new context " + describe(ci) + " gave " + show_value(got) +
                        " want " + show_value(want));
      // HasKey is "GetValue is not monostate"; a wrong GetValue was reported above, so HasKey is only
      // judged for agreeing with what GetValue just answered.  A key explicitly bound to monostate: don't-care.
      if (want_id(ci, k) != 0 && want.index() == 0)
        count("haskey_monostate_binding_dontcare");
      else if (has != (got.index() != 0))
        R.violation("haskey-consistent", answer_class(ci, k),
                    "HasKey(" + vf::show(k, 40) + ") on new context " + describe(ci) + " gave " + (has ? "true" : "false") +
                        " but GetValue gave " + show_value(got));
      m.first_seen[q] = got;
      m.first_has[q]  = has;
    }
  }

  // immutability: an older context keeps answering exactly as when it was created
  void recheck(int ci, bool full, const char *when)
  {
    auto &R   = vf::report();
    MCtx &m   = model[ci];
    size_t nq = full ? Q.size() : 3;
    for (size_t j = 0; j < nq; ++j)
    {
      size_t q             = full ? j : static_cast<size_t>(r.below(Q.size()));
      const std::string &k = Q[q];
      ctx::ContextValue got;
      if (r.chance(1, 4))
      {
        ctx::Context copy = real[ci];
        got = with_key(k, [&](nostd::string_view kv) { return ctx::RuntimeContext::GetValue(kv, &copy); });
      }
      else
        got = with_key(k, [&](nostd::string_view kv) { return static_cast<const ctx::Context &>(real[ci]).GetValue(kv); });
      count("recheck_queries");
      if (!same(got, m.first_seen[q]))
        R.violation("old-context-unchanged", key_class(k),
                    "GetValue(" + vf::show(k, 40) + ") on " + describe(ci) + " answered " + show_value(m.first_seen[q]) +
                        " when created and " + show_value(got) + " at the " + when + " (" +
                        std::to_string(real.size() - 1 - ci) + " contexts created since)");
      if (full || r.chance(1, 3))
      {
        bool has = with_key(k, [&](nostd::string_view kv) { return static_cast<const ctx::Context &>(real[ci]).HasKey(kv); });
        if (has != static_cast<bool>(m.first_has[q]))
          R.violation("old-context-unchanged", key_class(k),
                      "HasKey(" + vf::show(k, 40) + ") on " + describe(ci) + " changed between creation and the " + when);
      }
    }
  }

  void recheck_all(bool full, const char *when)
  {
    for (size_t ci = 0; ci < real.size(); ++ci)
      recheck(static_cast<int>(ci), full, when);
  }

  int pick_ctx()
  {
    size_t n = real.size();
    if (r.chance(1, 2))
      return static_cast<int>(n - 1 - r.below(std::min<size_t>(n, 4)));
    return static_cast<int>(r.below(n));
  }

  // ---- context-creating operations -------------------------------------------------------
  void op_setvalue()
  {
    std::string k = r.pick(pool);
    int vid       = new_value();
    int src;
    ctx::Context nc;
    unsigned how = static_cast<unsigned>(r.below(10));
    if (lost_sync && how >= 9)
      how = 0;
    if (how < 7)
    {
      src = pick_ctx();
      nc  = with_key(k, [&](nostd::string_view kv) { return real[src].SetValue(kv, vals[vid]); });
    }
    else if (how < 9)
    {
      src               = pick_ctx();
      ctx::Context copy = real[src];
      nc = with_key(k, [&](nostd::string_view kv) { return ctx::RuntimeContext::SetValue(kv, vals[vid], &copy); });
    }
    else
    {
      // derived from whatever is current on this thread; the current context must not change
      src = stack.empty() ? 0 : stack.back();
      nc  = with_key(k, [&](nostd::string_view kv) { return ctx::RuntimeContext::SetValue(kv, vals[vid]); });
      check_current("runtime-setvalue");
    }
    real.push_back(nc);
    int ci = add_model(src, {{k, vid}}, "setvalue", false);
    count("contexts_created");
    if (model[src].flat.count(k))
      count("setvalue_shadowing");
    check_new(ci);
    chash      = vf::mix(chash, vf::fnv1a(k) ^ static_cast<uint64_t>(src) * 31 ^ vals[vid].index());
    nontrivial = true;
    note("SetValue(#" + std::to_string(src) + "," + vf::show(k, 12) + ")");
  }

  void op_setvalues(bool as_ctor)
  {
    size_t lo = mode == kNullKey ? 0 : 1;
    size_t n  = static_cast<size_t>(r.range(static_cast<int64_t>(lo), 5));
    if (mode == kNullKey && r.chance(1, 3))
      n = 0;
    n = std::min(n, pool.size());
    // distinct keys (which of two equal keys inside ONE collection wins is outside the statement)
    std::vector<std::string> keys = pool;
    for (size_t i = 0; i < n; ++i)
      std::swap(keys[i], keys[i + r.below(keys.size() - i)]);
    keys.resize(n);
    std::vector<std::pair<std::string, int>> added;
    for (auto &k : keys)
      added.emplace_back(k, new_value());
    int src = as_ctor ? -1 : pick_ctx();
    ctx::Context nc;
    if (r.chance(2, 3))
    {
      // exact-size unterminated key views, killed after the call
      std::vector<vf::Buf> bufs;
      for (auto &kv : added)
        bufs.emplace_back(kv.first);
      std::vector<std::pair<nostd::string_view, ctx::ContextValue>> coll;
      for (size_t i = 0; i < n; ++i)
        coll.emplace_back(nostd::string_view(bufs[i].data(), bufs[i].size()), vals[added[i].second]);
      nc = as_ctor ? ctx::Context(coll) : real[src].SetValues(coll);
      for (auto &b : bufs)
        r.coin() ? b.scribble() : b.release();
    }
    else
    {
      std::map<std::string, ctx::ContextValue> coll;
      for (auto &kv : added)
        coll[kv.first] = vals[kv.second];
      nc = as_ctor ? ctx::Context(coll) : real[src].SetValues(coll);
      coll.clear();
    }
    real.push_back(nc);
    if (n == 0)
      count("empty_collections");
    int ci = add_model(src, added, as_ctor ? "ctor-collection" : "setvalues", n == 0);
    count("contexts_created");
    check_new(ci);
    chash = vf::mix(chash, 0x5e7 ^ static_cast<uint64_t>(src + 1) * 131 ^ n);
    for (auto &kv : added)
      chash = vf::mix(chash, vf::fnv1a(kv.first));
    nontrivial = true;
    note(std::string(as_ctor ? "Context(coll" : "SetValues(#") + (as_ctor ? "" : std::to_string(src)) + ",n=" +
         std::to_string(n) + ")");
  }

  void op_ctor_kv()
  {
    std::string k = r.pick(pool);
    int vid       = new_value();
    ctx::Context nc = with_key(k, [&](nostd::string_view kv) { return ctx::Context(kv, vals[vid]); });
    real.push_back(nc);
    int ci = add_model(-1, {{k, vid}}, "ctor-kv", false);
    count("contexts_created");
    check_new(ci);
    chash      = vf::mix(chash, vf::fnv1a(k) ^ 0xc7);
    nontrivial = true;
    note("Context(" + vf::show(k, 12) + ")");
  }

  void op_query()
  {
    recheck(pick_ctx(), false, "random-requery");
  }

  // ---- runtime stack ---------------------------------------------------------------------
  enum DetachKind
  {
    kTop,
    kOutOfOrder,
    kForeign,
    kEmptyOnEmpty
  };

  // the documented semantics: equality is context identity
  bool model_detach(int ci, DetachKind *kind, bool *doubled)
  {
    size_t occurrences = 0;
    for (int s : stack)
      occurrences += s == ci;
    *doubled = occurrences >= 2;
    if (stack.empty())
    {
      // the top of an empty stack is the empty context
      *kind = ci == 0 ? kEmptyOnEmpty : kForeign;
      return ci == 0;
    }
    if (stack.back() == ci)
    {
      stack.pop_back();
      *kind = kTop;
      return true;
    }
    for (size_t pos = stack.size(); pos > 0; --pos)
      if (stack[pos - 1] == ci)
      {
        stack.resize(pos - 1);  // everything above the most recent match, and the match itself
        *kind = kOutOfOrder;
        return true;
      }
    *kind = kForeign;
    return false;
  }

  static const char *kind_name(DetachKind k)
  {
    switch (k)
    {
      case kTop:
        return "top";
      case kOutOfOrder:
        return "out-of-order";
      case kForeign:
        return "foreign";
      default:
        return "empty-on-empty";
    }
  }

  void count_detach(DetachKind k, bool doubled)
  {
    switch (k)
    {
      case kTop:
        count("detach_top");
        break;
      case kOutOfOrder:
        count("detach_out_of_order");
        break;
      case kForeign:
        count("detach_foreign");
        break;
      default:
        count("detach_empty_on_empty");
    }
    if (doubled)
    {
      count("detach_of_double_attached");
      did_double_attach_detach = true;
    }
  }

  std::string show_stack() const
  {
    std::string s = "[";
    size_t from   = stack.size() > 10 ? stack.size() - 10 : 0;
    if (from)
      s += "...,";
    for (size_t i = from; i < stack.size(); ++i)
      s += "#" + std::to_string(stack[i]) + (i + 1 < stack.size() ? "," : "");
    return s + "](depth " + std::to_string(stack.size()) + ")";
  }

  // in a multi-thread case: a current context this thread never created, derived or adopted can
  // only be another thread's attachment
  bool foreign_owner(const ctx::Context &c)
  {
    if (mode != kMt)
      return false;
    for (auto &mine : real)
      if (mine == c)
        return false;
    return true;
  }

  // GetCurrent() must be the model's top (identity and observable answers), GetCurrentSpan() the
  // span bound in it.  Returns false (and stops judging the stack) after a mismatch.
  bool check_current(const std::string &op, const std::string &detail = std::string())
  {
    if (lost_sync)
      return false;
    auto &R          = vf::report();
    int want         = stack.empty() ? 0 : stack.back();
    ctx::Context cur = ctx::RuntimeContext::GetCurrent();
    count("getcurrent_checks");
    std::string cls = "after-" + op + (detail.empty() ? "" : "-" + detail);
    bool ok         = cur == real[want];
    std::string why;
    if (!ok)
      why = "GetCurrent() is not the context the model has on top";
    // the identity operator is the implementation's; also compare observable answers
    for (int j = 0; ok && j < 2; ++j)
    {
      size_t q             = static_cast<size_t>(r.below(Q.size()));
      const std::string &k = Q[q];
      ctx::ContextValue got = with_key(k, [&](nostd::string_view kv) { return ctx::RuntimeContext::GetValue(kv); });
      // (answers of the top context itself were judged against the model when it was created)
      if (!same(got, model[want].first_seen[q]))
      {
        ok  = false;
        why = "RuntimeContext::GetValue(" + vf::show(k, 40) + ") gave " + show_value(got) + ", the model's top answers " +
              show_value(vals[want_id(want, k)]);
      }
    }
    if (!ok)
    {
      bool foreign = foreign_owner(cur);
      R.violation(foreign ? "thread-isolation" : "getcurrent-is-model-top", foreign ? "foreign-context-after-" + op : cls,
                  why + "; model stack " + show_stack() + " want " + describe(want) + "; thread " + std::to_string(tid) +
                      (fresh_thread ? " (fresh thread)" : " (main thread)") + "; ops: " + trace_txt);
      lost_sync = true;
      return false;
    }
    // active span; not judged again if this context's own answer for the span key was already reported wrong
    int sv = want_id(want, trace::kSpanKey);
    if (!same(model[want].first_seen[q_span], vals[sv]))
      return true;
    SpanPtr span = trace::Tracer::GetCurrentSpan();
    count("current_span_checks");
    if (vals[sv].index() == 5)
    {
      count("current_span_bound");
      if (span.get() != nostd::get<SpanPtr>(vals[sv]).get())
      {
        R.violation("current-span", "span-bound-after-" + op,
                    "GetCurrentSpan() gave " + show_value(ctx::ContextValue(span)) + " want " + show_value(vals[sv]) +
                        "; model stack " + show_stack());
        lost_sync = true;
        return false;
      }
    }
    else
    {
      bool is_ours = false;
      for (int id : span_vals)
        is_ours |= nostd::get<SpanPtr>(vals[id]).get() == span.get();
      if (!span || is_ours || span->GetContext().IsValid())
      {
        R.violation("current-span", std::string(sv == 0 ? "no-span-after-" : "non-span-value-after-") + op,
                    "GetCurrentSpan() gave " + show_value(ctx::ContextValue(span)) +
                        " although no span is bound in the current context; model stack " + show_stack());
        lost_sync = true;
        return false;
      }
    }
    return true;
  }

  bool grows_on_push() const { return stack.size() + 1 > capacity_model; }
  void model_push(int ci)
  {
    stack.push_back(ci);
    if (stack.size() > capacity_model)
    {
      capacity_model = stack.size() * 2;
      if (fresh_thread)
        count("attaches_growing_the_stack");
    }
    max_depth = std::max(max_depth, stack.size());
  }

  void op_attach(bool prefer_dup)
  {
    if (lost_sync)
      return;
    int ci = pick_ctx();
    if (prefer_dup && !stack.empty())
      ci = stack[r.below(stack.size())];
    else if (r.chance(1, 12))
      ci = 0;
    // Whether the result of SetValues/Context of an EMPTY collection is a new context or the same one
    // as its source is not fixed by the statement: such a context is never attached itself (contexts
    // derived from it are).
    if (ci != 0 && model[ci].added.empty())
    {
      count("attach_skipped_identity_dontcare");
      ci = 0;
    }
    bool dup    = std::find(stack.begin(), stack.end(), ci) != stack.end();
    bool growth = fresh_thread && grows_on_push();
    nostd::unique_ptr<ctx::Token> t;
    if (r.chance(1, 4))
    {
      ctx::Context copy = real[ci];  // a copy is the same context
      t                 = ctx::RuntimeContext::Attach(copy);
    }
    else
      t = ctx::RuntimeContext::Attach(real[ci]);
    model_push(ci);
    count("attaches");
    if (dup)
      count("attaches_of_attached_context");
    if (!t)
    {
      vf::report().violation("attach-returns-token", "null-token", "Attach returned a null token");
      lost_sync = true;
      return;
    }
    if (!(*t == real[ci]))
      vf::report().violation("attach-returns-token", "token-not-equal-context", "token != attached context " + describe(ci));
    toks.push_back({std::move(t), ci});
    check_current("attach", growth ? "at-growth" : "");
    chash      = vf::mix(chash, 0xa77ac ^ static_cast<uint64_t>(ci) * 7);
    nontrivial = true;
    note("Attach(#" + std::to_string(ci) + ")");
  }

  // stale tokens pile up (Detach does not consume its token); half of the time aim at a token whose
  // context is still attached, usually near the top
  size_t pick_token()
  {
    if (!stack.empty() && r.coin())
    {
      size_t pos = r.chance(2, 3) ? stack.size() - 1 - r.below(std::min<size_t>(stack.size(), 4)) : r.below(stack.size());
      for (size_t i = toks.size(); i > 0; --i)
        if (toks[i - 1].ci == stack[pos])
          return i - 1;
    }
    return r.chance(1, 3) ? toks.size() - 1 - r.below(std::min<size_t>(toks.size(), 3)) : r.below(toks.size());
  }

  void op_detach()
  {
    if (lost_sync || toks.empty())
      return;
    size_t i = pick_token();
    int ci   = toks[i].ci;
    DetachKind kind;
    bool doubled;
    std::string before = show_stack();
    bool want          = model_detach(ci, &kind, &doubled);
    bool got           = ctx::RuntimeContext::Detach(*toks[i].t);
    count_detach(kind, doubled);
    std::string cls = std::string(kind_name(kind)) + (doubled ? "-double-attached" : "");
    if (got != want)
      vf::report().violation("detach-result", cls,
                             "Detach(token of #" + std::to_string(ci) + ") on " + before + " returned " +
                                 (got ? "true" : "false") + " want " + (want ? "true" : "false"));
    check_current("detach", cls);
    chash = vf::mix(chash, 0xde7ac ^ static_cast<uint64_t>(i) * 13);
    note("Detach(tok#" + std::to_string(ci) + ":" + kind_name(kind) + ")");
  }

  void op_drop_token()
  {
    if (lost_sync || toks.empty())
      return;
    size_t i = pick_token();
    int ci   = toks[i].ci;
    DetachKind kind;
    bool doubled;
    model_detach(ci, &kind, &doubled);
    toks[i].t.reset();  // ~Token is a second Detach
    toks.erase(toks.begin() + static_cast<long>(i));
    count_detach(kind, doubled);
    count("token_drops");
    check_current("token-drop", std::string(kind_name(kind)) + (doubled ? "-double-attached" : ""));
    chash = vf::mix(chash, 0xd409 ^ static_cast<uint64_t>(i) * 17);
    note("drop(tok#" + std::to_string(ci) + ":" + kind_name(kind) + ")");
  }

  void op_scope_create()
  {
    if (lost_sync)
      return;
    int sv = (!span_vals.empty() && r.chance(1, 3)) ? r.pick(span_vals) : new_span_value();
    int parent = stack.empty() ? 0 : stack.back();
    bool growth = fresh_thread && grows_on_push();
    std::unique_ptr<trace::Scope> s(new trace::Scope(nostd::get<SpanPtr>(vals[sv])));
    // the scope attached GetCurrent().SetValue(kSpanKey, span): a new context we adopt into the family
    real.push_back(ctx::RuntimeContext::GetCurrent());
    int ci = add_model(parent, {{trace::kSpanKey, sv}}, "scope", false);
    model_push(ci);
    count("scope_creates");
    count("contexts_created");
    scopes.push_back({std::move(s), ci});
    SpanPtr cur = trace::Tracer::GetCurrentSpan();
    if (cur.get() != nostd::get<SpanPtr>(vals[sv]).get())
    {
      vf::report().violation("current-span", "span-bound-after-scope-create",
                             "Scope(span) did not make the span current: got " + show_value(ctx::ContextValue(cur)) +
                                 " want " + show_value(vals[sv]) + "; model stack " + show_stack());
      // what GetCurrent() returned is not the scope's context; do not judge it as a context
      model[ci].first_seen.clear();
      lost_sync = true;
      // keep the family consistent for the re-checks
      check_new_silent(ci);
      return;
    }
    check_new(ci);
    check_current("scope-create", growth ? "at-growth" : "");
    chash      = vf::mix(chash, 0x5c09e ^ static_cast<uint64_t>(parent) * 3);
    nontrivial = true;
    note("Scope(span)");
  }

  // record the answers of real[ci] without judging them (after a mismatch that was already reported)
  void check_new_silent(int ci)
  {
    MCtx &m = model[ci];
    m.first_seen.resize(Q.size());
    m.first_has.resize(Q.size());
    for (size_t q = 0; q < Q.size(); ++q)
    {
      m.first_seen[q] = static_cast<const ctx::Context &>(real[ci]).GetValue(Q[q]);
      m.first_has[q]  = static_cast<const ctx::Context &>(real[ci]).HasKey(Q[q]);
    }
  }

  void op_scope_destroy()
  {
    if (lost_sync || scopes.empty())
      return;
    size_t i = r.chance(1, 2) ? scopes.size() - 1 : r.below(scopes.size());
    int ci   = scopes[i].ci;
    DetachKind kind;
    bool doubled;
    model_detach(ci, &kind, &doubled);
    scopes[i].s.reset();
    scopes.erase(scopes.begin() + static_cast<long>(i));
    count_detach(kind, doubled);
    count("scope_destroys");
    if (kind != kTop)
      count("scope_destroys_not_on_top");
    check_current("scope-destroy", kind_name(kind));
    chash = vf::mix(chash, 0x5cde5 ^ static_cast<uint64_t>(i) * 19);
    note(std::string("~Scope(") + kind_name(kind) + ")");
  }

  // ---- driver ------------------------------------------------------------------------------
  void step()
  {
    unsigned c = static_cast<unsigned>(r.below(100));
    if (c < 16)
      op_setvalue();
    else if (c < 24)
      op_setvalues(false);
    else if (c < 27)
    {
      if (r.coin())
        op_ctor_kv();
      else
        op_setvalues(true);
    }
    else if (c < 37)
      op_query();
    else if (c < 55)
      op_attach(r.chance(1, 4));
    else if (c < 68)
      op_detach();
    else if (c < 77)
      op_drop_token();
    else if (c < 89)
      op_scope_create();
    else
      op_scope_destroy();
  }

  void run(const SharedBase *base)
  {
    auto &R = vf::report();
    make_keys();
    // family member 0: the empty context
    real.emplace_back();
    model.emplace_back();
    check_new(0);
    if (base)
    {
      // copies of the case's shared immutable contexts
      std::vector<int> remap(base->vals.size(), 0);
      for (size_t i = 1; i < base->vals.size(); ++i)
      {
        remap[i] = static_cast<int>(vals.size());
        vals.push_back(base->vals[i]);
      }
      for (size_t b = 0; b < base->real.size(); ++b)
      {
        real.push_back(base->real[b]);
        MCtx m;
        m.origin = "shared-base";
        for (auto &kv : base->flat[b])
        {
          m.flat[kv.first] = remap[kv.second];
          m.added.emplace_back(kv.first, remap[kv.second]);
        }
        model.push_back(std::move(m));
        check_new(static_cast<int>(model.size()) - 1);
      }
    }
    // the thread starts with an empty stack
    check_current("thread-start");

    bool deep   = r.chance(3, 10);
    size_t nops = static_cast<size_t>(r.range(0, mode == kMt ? 160 : 300));
    size_t climb_to = 0;
    if (deep)
    {
      static const size_t edges[] = {30, 31, 32, 62, 63, 64, 126, 127, 128};
      climb_to = r.chance(1, 3) ? r.pick(edges) + 3 : static_cast<size_t>(r.range(33, 200));
    }
    size_t warm      = static_cast<size_t>(r.range(0, 6));
    size_t climb_end = climb_to * 11 / 10 + warm + 10;
    if (deep)
      nops = climb_end + static_cast<size_t>(r.range(10, 70));
    for (size_t op = 0; op < nops; ++op)
    {
      perturb(mode == kMt);
      if (op < warm && !pool.empty())
        r.coin() ? op_setvalue() : op_setvalues(false);
      else if (deep && stack.size() < climb_to && op < climb_end && !lost_sync)
      {
        unsigned c = static_cast<unsigned>(r.below(40));
        if (c < 24)
          op_attach(r.chance(1, 5));
        else if (c < 38)
          op_scope_create();
        else if (c < 39)
          op_setvalue();
        else
          op_query();
      }
      else
        step();
      if ((op & 15) == 15)
        recheck_all(false, "later-recheck");
    }
    // release everything in arbitrary order; the model follows
    while (!lost_sync && (!toks.empty() || !scopes.empty()))
    {
      perturb(mode == kMt);
      if (scopes.empty() || (!toks.empty() && r.coin()))
        op_drop_token();
      else
        op_scope_destroy();
    }
    if (!lost_sync)
    {
      if (!stack.empty())
        R.violation("harness-self-check", "model-stack-not-empty", "model stack " + show_stack() + " after releasing everything");
      check_current("cleanup");
    }
    recheck_all(true, "final-recheck");
    if (lost_sync)
      force_unwind();
    count("programs");
    if (fresh_thread)
      count("programs_on_fresh_thread");
    if (max_depth > 32)
      count(fresh_thread ? "programs_deeper_than_32" : "programs_deeper_than_32_main_thread");
    if (max_depth > 126 && fresh_thread)
      count("programs_deeper_than_126");
    if (did_double_attach_detach)
      count("programs_double_attach");
    R.maxi("max_depth", max_depth);
    R.maxi("max_contexts_in_family", real.size());
    count.flush();
    if (nontrivial)
      R.nontrivial(chash);
    if (R.want_sample(5) && nontrivial && trace_txt.size() > 60)
      R.sample("program(" + std::to_string(nops) + " ops, max depth " + std::to_string(max_depth) + "): " + trace_txt);
  }

  // after a reported stack mismatch: release what we hold and pop whatever the implementation
  // still has, so that a defect does not cascade into the next program on this thread
  void force_unwind()
  {
    scopes.clear();
    toks.clear();
    int quiet = 0;
    for (int i = 0; i < 2000 && quiet < 4; ++i)
    {
      ctx::Context c = ctx::RuntimeContext::GetCurrent();
      bool empty     = c == ctx::Context();
      auto t         = ctx::RuntimeContext::Attach(c);
      ctx::RuntimeContext::Detach(*t);
      ctx::RuntimeContext::Detach(*t);  // a stale token pops the next equal context
      quiet = empty ? quiet + 1 : 0;
    }
  }
};

// ------------------------------------------------------------------------------------------
static void run_program(uint64_t seed, Mode mode, int tid, bool fresh, const SharedBase *base)
{
  Prog p(seed, mode, tid, fresh);
  p.run(base);
}

static void seq_case(uint64_t seed, Mode mode)
{
  Rng r(vf::mix(seed, 77));
  // most programs get a brand-new thread: its thread_local stack starts at capacity 0, so deep
  // programs cross every Resize, and the stack's destructor runs at thread exit
  if (r.chance(4, 5))
  {
    std::thread th([&] { run_program(seed, mode, 0, true, nullptr); });
    th.join();
  }
  else
    run_program(seed, mode, 0, false, nullptr);
}

static void mt_case(uint64_t seed)
{
  auto &R = vf::report();
  Rng r(vf::mix(seed, 99));
  int n = static_cast<int>(r.range(2, 8));
  // shared immutable bases: every thread derives from and attaches the very same list nodes
  SharedBase base;
  base.vals.emplace_back();
  size_t nb = static_cast<size_t>(r.range(1, 3));
  for (size_t b = 0; b < nb; ++b)
  {
    ctx::Context c;
    std::map<std::string, int> flat;
    if (b > 0 && r.coin())
    {
      c    = base.real[b - 1];
      flat = base.flat[b - 1];
    }
    size_t nk = static_cast<size_t>(r.range(1, 3));
    for (size_t j = 0; j < nk; ++j)
    {
      static const char *ks[] = {"a", "ab", "k", "active_span", "shared"};
      std::string k = r.pick(ks);
      base.vals.emplace_back(static_cast<int64_t>(900000 + b * 10 + j));
      c       = c.SetValue(k, base.vals.back());
      flat[k] = static_cast<int>(base.vals.size()) - 1;
    }
    base.real.push_back(c);
    base.flat.push_back(flat);
  }
#ifdef VF_SHIM_H
  vf_configure(seed, 30000, 5000, 0, 0, 200);
#endif
  vf::raw_atomic<int> ready{0};
  std::vector<std::thread> th;
  for (int t = 0; t < n; ++t)
    th.emplace_back([&, t] {
      ready.fetch_add(1);
      while (ready.load() < n)
        std::this_thread::yield();
      run_program(vf::mix(seed, 1000 + static_cast<uint64_t>(t)), kMt, t, true, &base);
    });
  for (auto &t : th)
    t.join();
#ifdef VF_SHIM_H
  vf_configure(0, 0, 0, 0, 0, 0);
#endif
  R.count("mt_cases");
  R.count("mt_threads", static_cast<uint64_t>(n));
  if (n >= 4)
    R.count("mt_cases_ge4_threads");
  // the main thread never attached anything in this case
  if (!(ctx::RuntimeContext::GetCurrent() == ctx::Context()))
    R.violation("thread-isolation", "main-thread-sees-attachment",
                "main thread's current context is not empty after " + std::to_string(n) + " worker threads ran");
}

int main(int argc, char **argv)
{
  auto &R = vf::report();
  R.init("C10", argc, argv);
  std::string m = R.opt.sparam("mode", "seq");
  Mode mode     = m == "mt" ? kMt : (m == "nullkey" ? kNullKey : kSeq);
  R.run_cases([&](uint64_t i) {
    uint64_t s = R.case_seed(i);
    if (mode == kMt)
      mt_case(s);
    else
      seq_case(vf::mix(s, mode == kNullKey ? 5 : 0), mode);
  });
#ifdef VF_SHIM_H
  vf_shim_counters sc;
  vf_counters(&sc);
  R.count("shim_yields", sc.yields);
  R.count("shim_sleeps", sc.sleeps);
#endif
  return R.finish();
}
