// C11 — the lock-free circular buffer and the spin-lock mutex under injected schedules.
//
// Serialised mode (asan/plain flavour, engine E3): the unmodified headers are compiled with the tokens
// `atomic` and `this_thread` renamed (vf_serial.h); every atomic operation is a scheduling point of a
// seeded baton scheduler, compare_exchange_weak fails spuriously; per-step invariants and an offline
// history check decide the property for each schedule.  A schedule replays exactly from its seed.
//
// Free-running mode (tsan flavour, -DOTEL_VERIF_SHIM, engine E2): real threads, perturbation shim,
// ThreadSanitizer; the same history check, plus a plain shared counter under the spin lock so that a
// missing acquire/release is a TSan report.
#ifdef OTEL_VERIF_SHIM
#  include "vf_runtime.h"
#  define VFS_POINT(k) ((void)0)
#else
#  include "vf_serial.h"
#  define atomic vfs_atomic
#  define this_thread vfs_this_thread
#  define VFS_POINT(k) ::vfs::point(k)
#endif

#include "opentelemetry/common/spin_lock_mutex.h"
#include "opentelemetry/sdk/common/atomic_unique_ptr.h"
#include "opentelemetry/sdk/common/circular_buffer.h"
#include "opentelemetry/sdk/common/circular_buffer_range.h"

#ifndef OTEL_VERIF_SHIM
#  undef atomic
#  undef this_thread
#endif

#include <thread>

#include "vf_core.h"
#include "vf_history.h"

using opentelemetry::common::SpinLockMutex;
using opentelemetry::sdk::common::AtomicUniquePtr;
using opentelemetry::sdk::common::CircularBuffer;
using opentelemetry::sdk::common::CircularBufferRange;
using vf::Rng;

// ---------------------------------------------------------------------------------------------
// instance-counted element
// ---------------------------------------------------------------------------------------------
static vf::raw_atomic<int64_t> g_live{0};
static vf::raw_atomic<int64_t> g_double_free{0};
// while the consumer is inside CircularBuffer::Clear(): the elements the buffer destroys are the ones it consumed
static thread_local std::vector<std::pair<uint32_t, uint32_t>> *g_clear_sink = nullptr;

struct Elem
{
  static constexpr uint32_t kMagic = 0xfeedc0de;
  uint32_t magic;
  uint32_t p, s;
  Elem(uint32_t pp, uint32_t ss) : magic(kMagic), p(pp), s(ss) { g_live.fetch_add(1, std::memory_order_relaxed); }
  ~Elem()
  {
    if (magic != kMagic)
      g_double_free.fetch_add(1, std::memory_order_relaxed);
    magic = 0xdeadbeef;
    g_live.fetch_sub(1, std::memory_order_relaxed);
    if (g_clear_sink)
      g_clear_sink->emplace_back(p, s);
  }
};

// ---------------------------------------------------------------------------------------------
// history of one schedule / run
// ---------------------------------------------------------------------------------------------
struct AddRec
{
  uint64_t call = 0, ret = 0;
  bool ok       = false;
  bool kept     = false;  // after a failed Add the caller's unique_ptr still held the element
  int consumed  = 0;
  uint64_t consumed_at = 0;   // stamp of the moment the consumer's callback took it out of its slot
};

struct QueueCfg
{
  size_t capacity = 1;
  int producers   = 1;
  std::vector<int> adds;  // per producer
  int policy = 0, pct_depth = 0;
  uint32_t spurious_ppm = 0;
  std::string describe() const
  {
    std::string s = "queue capacity=" + std::to_string(capacity) + " producers=" + std::to_string(producers) + " adds=[";
    for (size_t i = 0; i < adds.size(); ++i)
      s += (i ? "," : "") + std::to_string(adds[i]);
    s += "] policy=" + std::string(policy ? "pct" + std::to_string(pct_depth) : "uniform") +
         " spurious_ppm=" + std::to_string(spurious_ppm);
    return s;
  }
};

struct QueueHistory
{
  std::vector<std::vector<AddRec>> adds;               // [producer][seq]
  std::vector<std::pair<uint32_t, uint32_t>> consumed;  // in consumption order
  std::vector<uint64_t> consumed_stamp;                 // stamp of the callback taking the element
  std::vector<uint64_t> consume_calls;                  // call stamps of Consume calls
  uint64_t unknown_consumed = 0;
};

static void check_queue_history(const QueueCfg &c, QueueHistory &h, const std::string &mode)
{
  auto &R = vf::report();
  // exactly once + order
  std::vector<uint32_t> next(static_cast<size_t>(c.producers), 0);
  for (size_t i = 0; i < h.consumed.size(); ++i)
  {
    auto pr = h.consumed[i];
    if (pr.first >= h.adds.size() || pr.second >= h.adds[pr.first].size())
    {
      R.violation("consumed-exactly-once", mode + ":phantom", "consumer saw an element that was never added; " + c.describe());
      continue;
    }
    AddRec &a = h.adds[pr.first][pr.second];
    if (++a.consumed == 2)
      R.violation("consumed-exactly-once", mode + ":duplicate",
                  "element " + std::to_string(pr.first) + "." + std::to_string(pr.second) + " consumed twice; " + c.describe());
    a.consumed_at = h.consumed_stamp[i];
    if (pr.second < next[pr.first])
      R.violation("producer-order", mode,
                  "producer " + std::to_string(pr.first) + ": element " + std::to_string(pr.second) + " consumed after " +
                      std::to_string(next[pr.first] - 1) + "; " + c.describe());
    else
      next[pr.first] = pr.second + 1;
  }
  std::vector<uint64_t> ok_calls, consumed_rets;
  for (auto &pv : h.adds)
    for (auto &a : pv)
    {
      if (a.ok)
        ok_calls.push_back(a.call);
      if (a.ok && a.consumed)
        consumed_rets.push_back(a.consumed_at);
    }
  std::sort(ok_calls.begin(), ok_calls.end());
  std::sort(consumed_rets.begin(), consumed_rets.end());
  for (size_t p = 0; p < h.adds.size(); ++p)
    for (size_t s = 0; s < h.adds[p].size(); ++s)
    {
      AddRec &a = h.adds[p][s];
      if (a.ret == 0)
        continue;  // never returned (only when the run was declared stuck)
      std::string id = std::to_string(p) + "." + std::to_string(s);
      if (a.ok && a.consumed == 0)
        R.violation("consumed-exactly-once", mode + ":never",
                    "Add of " + id + " reported success but the consumer never saw it; " + c.describe());
      if (!a.ok && a.consumed)
        R.violation("failed-add-not-consumed", mode, "Add of " + id + " reported failure but it was consumed; " + c.describe());
      if (!a.ok && !a.kept)
        R.violation("failed-add-keeps-element", mode,
                    "Add of " + id + " reported failure and the caller's unique_ptr no longer held its element; " +
                        c.describe());
      if (!a.ok)
      {
        // legitimate only if (successful Adds started before this one finished) - (elements the consumer's
        // callback had taken before this one started) >= capacity
        uint64_t A = static_cast<uint64_t>(std::lower_bound(ok_calls.begin(), ok_calls.end(), a.ret) - ok_calls.begin());
        uint64_t C = static_cast<uint64_t>(std::lower_bound(consumed_rets.begin(), consumed_rets.end(), a.call) -
                                           consumed_rets.begin());
        R.count("legitimate_false_adds");
        if (A - C < c.capacity)
          R.violation("false-add-only-when-full", mode,
                      "Add of " + id + " reported failure although at most " + std::to_string(A - C) + " < capacity " +
                          std::to_string(c.capacity) + " elements could have been queued; " + c.describe());
      }
    }
}

#ifndef OTEL_VERIF_SHIM
// =============================================================================================
// serialised mode
// =============================================================================================
static uint64_t stamp()
{
  return vfs::sched().steps * 2 + 1;  // logical time = scheduler step (the running thread holds the baton)
}

struct QueueRun
{
  uint64_t steps  = 0;
  bool infeasible = false;
  std::vector<signed char> running;
  std::vector<unsigned char> live;
};

// Execute one schedule of configuration c.  script == nullptr: seeded random / PCT schedule; otherwise the
// scripted bounded-preemption policy with exactly these (step, thread) preemptions.
static QueueRun execute_queue(const QueueCfg &c, int consumer_style, uint64_t seed,
                              const std::vector<std::pair<uint64_t, int>> *script, const std::string &mode)
{
  auto &R = vf::report();
  int64_t live_before = g_live.load();
  QueueHistory h;
  h.adds.resize(static_cast<size_t>(c.producers));
  for (int p = 0; p < c.producers; ++p)
    h.adds[static_cast<size_t>(p)].resize(static_cast<size_t>(c.adds[static_cast<size_t>(p)]));
  int nthreads = c.producers + 1;
  auto &S      = vfs::sched();
  S.reset(nthreads, seed, script ? 2 : c.policy, c.pct_depth, c.spurious_ppm);
  if (script)
    S.script = *script;
  bool size_violation = false;
  S.on_stuck = [&] {
    R.violation("no-progress", "queue",
                "schedule did not finish within " + std::to_string(2 * S.max_steps) +
                    " steps (the second half under fair round-robin); " + c.describe());
    R.write_result(false);
    fflush(nullptr);
    _exit(70);
  };
  uint64_t max_size_seen = 0;
  {
    CircularBuffer<Elem> buf(c.capacity);
    vf::raw_atomic<int> producers_done{0};
    S.step_monitor = [&] {
      vfs::MonitorScope ms;
      uint64_t hd = buf.production_count(), tl = buf.consumption_count();
      if (hd < tl || hd - tl > c.capacity)
        size_violation = true;
      if (hd >= tl && hd - tl > max_size_seen)
        max_size_seen = hd - tl;
    };
    std::vector<std::thread> th;
    for (int p = 0; p < c.producers; ++p)
      th.emplace_back([&, p] {
        vfs::my_id() = p;
        S.begin(p);
        for (int s = 0; s < c.adds[static_cast<size_t>(p)] && !S.stuck; ++s)
        {
          std::unique_ptr<Elem> e(new Elem(static_cast<uint32_t>(p), static_cast<uint32_t>(s)));
          Elem *raw = e.get();
          AddRec &a = h.adds[static_cast<size_t>(p)][static_cast<size_t>(s)];
          a.call    = stamp();
          vfs::point(6);
          // both overloads: Add(unique_ptr&) leaves a rejected element with the caller, Add(unique_ptr&&) - the one
          // the batch processors use - destroys it; either way nothing may leak (instance accounting below)
          bool rvalue = ((seed >> (8 + (s & 15))) ^ static_cast<uint64_t>(p)) & 1;
          bool ok     = rvalue ? buf.Add(std::move(e)) : buf.Add(e);
          a.ok        = ok;
          a.kept      = !ok && (rvalue ? e == nullptr : e.get() == raw);
          if (ok && e)
            R.violation("successful-add-takes-element", mode, "Add succeeded but the caller still owns an element");
          a.ret = stamp() + 1;
          vfs::point(6);
        }
        producers_done.fetch_add(1, std::memory_order_relaxed);
        vfs::my_id() = -1;
        S.end(p);
      });
    th.emplace_back([&] {
      int me       = c.producers;
      vfs::my_id() = me;
      S.begin(me);
      Rng cr(seed ^ 0xc0ffee);
      while (!S.stuck)
      {
        size_t sz;
        {
          sz = buf.size();
        }
        if (sz == 0)
        {
          if (producers_done.load(std::memory_order_relaxed) == c.producers && buf.empty())
            break;
          vfs::point(7);
          continue;
        }
        size_t k = consumer_style == 0 ? sz : static_cast<size_t>(cr.range(1, static_cast<int64_t>(sz)));
        if (consumer_style == 2 && cr.chance(1, 4))
        {
          // Peek must show exactly the elements a following Consume delivers
          auto range = buf.Peek();
          if (range.size() < sz)
            R.violation("peek-consistent", mode, "Peek showed fewer elements than size() had reported; " + c.describe());
        }
        h.consume_calls.push_back(stamp());
        std::vector<std::pair<uint32_t, uint32_t>> got;
        std::vector<uint64_t> took;
        if (cr.chance(1, 8))
        {
          // Clear() is a consumer-side operation too (it may race with producers): what the buffer destroys inside
          // it counts as consumed - exactly once, nothing skipped, nothing left behind in a slot
          g_clear_sink = &got;
          buf.Clear();
          g_clear_sink = nullptr;
          uint64_t rs = stamp() + 1;
          for (auto &g : got)
          {
            h.consumed.push_back(g);
            h.consumed_stamp.push_back(rs);
          }
          R.count("queue_clear_calls");
          if (!got.empty())
            R.count("queue_clear_calls_nonempty");
          continue;
        }
        buf.Consume(k, [&](CircularBufferRange<AtomicUniquePtr<Elem>> range) noexcept {
          range.ForEach([&](AtomicUniquePtr<Elem> &ptr) noexcept {
            std::unique_ptr<Elem> out;
            ptr.Swap(out);
            // "consumed" = the moment the consumer's callback has taken the element out of its slot (the
            // statement's "what was consumed before it started"); the queue has published the new tail before it
            // hands the range to the callback, so an Add that starts later must see the room
            took.push_back(stamp() + 1);
            if (!out)
              got.emplace_back(~0u, ~0u);
            else
              got.emplace_back(out->p, out->s);
            return true;
          });
        });
        for (size_t gi = 0; gi < got.size(); ++gi)
        {
          h.consumed.push_back(got[gi]);
          h.consumed_stamp.push_back(took[gi]);
        }
      }
      vfs::my_id() = -1;
      S.end(me);
    });
    S.go();
    for (auto &t : th)
      t.join();
    S.step_monitor = nullptr;
  }
  // the buffer is destroyed: every element must have been destroyed exactly once
  int64_t live_after = g_live.load();
  if (!S.stuck)
  {
    if (live_after != live_before)
      R.violation("no-leak-no-double-free", live_after > live_before ? mode + ":leak" : mode + ":double-free",
                  "live element instances " + std::to_string(live_after - live_before) + " after the buffer was destroyed; " +
                      c.describe());
    if (g_double_free.load())
    {
      R.violation("no-leak-no-double-free", mode + ":double-free", "an element was destroyed twice; " + c.describe());
      g_double_free.store(0);
    }
    if (size_violation)
      R.violation("size-le-capacity", mode, "queued count exceeded the capacity at some step; " + c.describe());
    check_queue_history(c, h, mode);
  }
  QueueRun qr;
  qr.steps      = S.steps;
  qr.infeasible = S.script_infeasible;
  if (script)
  {
    qr.running = S.trace_running;
    qr.live    = S.trace_live;
    R.count("enum_runs");
    R.signature(S.hash ^ 0xe11);
    return qr;
  }
  if (S.steps > 5000)
    R.count("queue_schedules_over_5000_steps");
  R.count("queue_schedules");
  R.count("queue_steps", S.steps);
  R.maxi("max_steps_per_schedule", S.steps);
  R.count("spurious_cas_injected", S.spurious_taken);
  R.count("genuine_cas_failures", S.cas_fail_genuine);
  R.count("context_switches", S.switches);
  if (S.spurious_taken)
    R.count("schedules_with_injected_cas_failure");
  if (S.cas_fail_genuine)
    R.count("schedules_with_genuine_cas_failure");
  if (max_size_seen == c.capacity)
    R.count("schedules_reaching_full");
  R.signature(S.hash);
  if (S.switches > 0)
    R.nontrivial(vf::mix(S.hash, seed));
  if (R.want_sample(4))
    R.sample("schedule: " + c.describe() + " steps=" + std::to_string(S.steps) + " switches=" + std::to_string(S.switches) +
             " hash=" + std::to_string(S.hash));
  return qr;
}

static void run_queue_schedule(uint64_t seed)
{
  Rng r(seed);
  QueueCfg c;
  c.capacity  = static_cast<size_t>(r.range(1, 3));
  c.producers = static_cast<int>(r.range(1, 3));
  for (int p = 0; p < c.producers; ++p)
    c.adds.push_back(static_cast<int>(r.range(1, 6)));
  c.policy       = static_cast<int>(r.below(2));
  c.pct_depth    = c.policy ? static_cast<int>(r.range(1, 3)) : 0;
  static const uint32_t spur[] = {0, 125000, 500000};
  c.spurious_ppm = r.pick(spur);
  int consumer_style = static_cast<int>(r.below(3));
  execute_queue(c, consumer_style, seed, nullptr, "serial");
}

// ---------------------------------------------------------------------------------------------
// bounded-preemption enumeration: every schedule of a tiny configuration that can be produced by running
// threads to completion (or to a voluntary yield) plus at most K preemptions, each at any step to any other
// live thread.  Complete for that bound under sequential consistency; recorded as an exhaustive sub-space.
// ---------------------------------------------------------------------------------------------
static uint64_t enumerate_rec(const QueueCfg &c, int style, std::vector<std::pair<uint64_t, int>> &script,
                              uint64_t from_step, int depth, int K, uint64_t &budget, bool &capped)
{
  if (budget == 0)
  {
    capped = true;
    return 0;
  }
  --budget;
  QueueRun qr = execute_queue(c, style, 12345, &script, "enum");
  uint64_t runs = 1;
  if (qr.infeasible || depth == K)
    return runs;
  int nthreads = c.producers + 1;
  for (uint64_t s = std::max<uint64_t>(from_step, 1); s < qr.running.size(); ++s)
  {
    int me = qr.running[s];
    if (me < 0)
      continue;
    for (int t = 0; t < nthreads; ++t)
    {
      if (t == me || !(qr.live[s] & (1u << t)))
        continue;
      script.emplace_back(s, t);
      runs += enumerate_rec(c, style, script, s + 1, depth + 1, K, budget, capped);
      script.pop_back();
      if (capped)
        return runs;
    }
  }
  return runs;
}

static void run_queue_enumeration(uint64_t index, bool thorough)
{
  auto &R = vf::report();
  struct Tiny
  {
    size_t cap;
    std::vector<int> adds;
    int style;
  };
  static const std::vector<Tiny> tiny = {
      {1, {1, 1}, 0}, {1, {2}, 1}, {1, {2, 1}, 0}, {2, {2, 1}, 1}, {1, {1, 1, 1}, 0},
      {2, {2, 2}, 0}, {1, {3}, 2}, {2, {3, 1}, 2}, {1, {2, 2}, 1}, {3, {2, 2}, 0},
  };
  const Tiny &t = tiny[index % tiny.size()];
  QueueCfg c;
  c.capacity  = t.cap;
  c.producers = static_cast<int>(t.adds.size());
  c.adds      = t.adds;
  c.policy    = 2;
  int K       = thorough ? 3 : 2;
  uint64_t budget = thorough ? 80000 : 40000;
  bool capped     = false;
  std::vector<std::pair<uint64_t, int>> script;
  uint64_t runs = enumerate_rec(c, t.style, script, 1, 0, K, budget, capped);
  R.count("enum_configs");
  R.count(capped ? "enum_configs_capped" : "enum_configs_exhausted");
  R.maxi("enum_max_runs_per_config", runs);
  R.nontrivial(vf::mix(0xe11, index % tiny.size() + 100 * static_cast<uint64_t>(K)));
  if (R.want_sample(6))
    R.sample("enumeration: " + c.describe() + " consumer_style=" + std::to_string(t.style) + " preemption bound " +
             std::to_string(K) + ": " + std::to_string(runs) + " schedules" + (capped ? " (capped)" : " (complete)"));
}

// script == nullptr: seeded random / PCT schedule of a seeded configuration; otherwise configuration (n_fixed,
// ops_fixed) under the scripted bounded-preemption policy
static QueueRun run_lock_schedule(uint64_t seed, const std::vector<std::pair<uint64_t, int>> *script = nullptr,
                                  int n_fixed = 0, int ops_fixed = 0)
{
  auto &R = vf::report();
  Rng r(seed ^ 0x10c);
  int n         = static_cast<int>(r.range(2, 3));
  int ops       = static_cast<int>(r.range(1, 4));
  int policy    = static_cast<int>(r.below(2));
  if (script)
  {
    n      = n_fixed;
    ops    = ops_fixed;
    policy = 2;
  }
  const std::string mode = script ? "enum" : "serial";
  auto &S       = vfs::sched();
  S.reset(n, seed, policy, policy == 1 ? static_cast<int>(r.range(1, 3)) : 0, 0);
  if (script)
    S.script = *script;
  S.max_steps = 100000;
  SpinLockMutex mu;
  int occupancy = 0;  // only touched by the thread holding the baton
  bool held     = false;
  uint64_t both = 0, try_while_held = 0, acquisitions = 0, try_fail = 0;
  std::string desc = "lock threads=" + std::to_string(n) + " ops=" + std::to_string(ops) + " policy=" + std::to_string(policy);
  S.on_stuck = [&] {
    R.violation("no-progress", "lock",
                "a lock() did not return within " + std::to_string(2 * S.max_steps) +
                    " steps although the second half of the schedule was fair round-robin; " + desc);
    R.write_result(false);
    fflush(nullptr);
    _exit(70);
  };
  std::vector<std::thread> th;
  for (int t = 0; t < n; ++t)
    th.emplace_back([&, t] {
      vfs::my_id() = t;
      S.begin(t);
      Rng tr(seed + static_cast<uint64_t>(t) * 977);
      for (int k = 0; k < ops && !S.stuck; ++k)
      {
        bool got = false, by_try = false;
        if (tr.coin())
        {
          mu.lock();
          got = true;
        }
        else
        {
          by_try = true;
          got    = mu.try_lock();
          if (!got)
            ++try_fail;
        }
        if (got)
        {
          // `held` mirrors the lock exactly at every scheduling point: it is set right after an acquisition and
          // cleared right before unlock() with no scheduling point in between
          if (held)
            ++(by_try ? try_while_held : both);
          held = true;
          ++occupancy;
          ++acquisitions;
          if (occupancy > 1)
            ++both;
          vfs::point(8);  // inside the critical section
          vfs::point(8);
          --occupancy;
          held = false;
          mu.unlock();
        }
        vfs::point(8);
      }
      vfs::my_id() = -1;
      S.end(t);
    });
  S.go();
  for (auto &t : th)
    t.join();
  if (both)
    R.violation("mutual-exclusion", mode, "two holders inside the critical section; " + desc);
  if (try_while_held)
    R.violation("try-lock-only-when-free", mode, "try_lock succeeded while the lock was held; " + desc);
  QueueRun qr;
  qr.steps      = S.steps;
  qr.infeasible = S.script_infeasible;
  if (script)
  {
    qr.running  = S.trace_running;
    qr.live     = S.trace_live;
    S.max_steps = 200000;
    R.count("enum_lock_runs");
    R.signature(S.hash ^ 0xe12);
    return qr;
  }
  R.count("lock_schedules");
  R.count("lock_acquisitions", acquisitions);
  R.count("lock_try_lock_failures", try_fail);
  R.count("lock_steps", S.steps);
  S.max_steps = 200000;
  R.signature(S.hash ^ 0x10c);
  if (S.switches > 0)
    R.nontrivial(vf::mix(S.hash, seed ^ 0x10c));
  return qr;
}

static uint64_t enumerate_lock_rec(uint64_t seed, int n, int ops, std::vector<std::pair<uint64_t, int>> &script,
                                   uint64_t from_step, int depth, int K, uint64_t &budget, bool &capped)
{
  if (budget == 0)
  {
    capped = true;
    return 0;
  }
  --budget;
  QueueRun qr   = run_lock_schedule(seed, &script, n, ops);
  uint64_t runs = 1;
  if (qr.infeasible || depth == K)
    return runs;
  for (uint64_t s = std::max<uint64_t>(from_step, 1); s < qr.running.size(); ++s)
  {
    int me = qr.running[s];
    if (me < 0)
      continue;
    for (int t = 0; t < n; ++t)
    {
      if (t == me || !(qr.live[s] & (1u << t)))
        continue;
      script.emplace_back(s, t);
      runs += enumerate_lock_rec(seed, n, ops, script, s + 1, depth + 1, K, budget, capped);
      script.pop_back();
      if (capped)
        return runs;
    }
  }
  return runs;
}

// the per-thread lock()/try_lock() scripts derive from the seed: a handful of fixed seeds give different mixes
static void run_lock_enumeration(uint64_t index, bool thorough)
{
  auto &R = vf::report();
  static const uint64_t seeds[] = {11, 12, 13, 14, 15, 16};
  uint64_t seed = seeds[index % 6];
  int n         = (index % 6) < 4 ? 2 : 3;
  int ops       = (index % 6) < 2 ? 1 : 2;
  int K         = thorough ? 3 : 2;
  uint64_t budget = thorough ? 80000 : 30000;
  bool capped     = false;
  std::vector<std::pair<uint64_t, int>> script;
  uint64_t runs = enumerate_lock_rec(seed, n, ops, script, 1, 0, K, budget, capped);
  R.count("enum_lock_configs");
  R.count(capped ? "enum_lock_configs_capped" : "enum_lock_configs_exhausted");
  R.maxi("enum_lock_max_runs_per_config", runs);
  R.nontrivial(vf::mix(0xe12, index % 6 + 100 * static_cast<uint64_t>(K)));
  if (R.want_sample(7))
    R.sample("lock enumeration: threads=" + std::to_string(n) + " ops=" + std::to_string(ops) + " script seed " +
             std::to_string(seed) + " preemption bound " + std::to_string(K) + ": " + std::to_string(runs) + " schedules" +
             (capped ? " (capped)" : " (complete)"));
}

int main(int argc, char **argv)
{
  auto &R = vf::report();
  R.init("C11", argc, argv);
  R.run_cases([&](uint64_t i) {
    uint64_t enum_every = static_cast<uint64_t>(R.opt.param("enum_every", 2000));
    if (enum_every && i % enum_every == 7)
      run_queue_enumeration(i / enum_every, R.opt.thorough);
    else if (enum_every && i % enum_every == 1009)
      run_lock_enumeration(i / enum_every, R.opt.thorough);
    else if (i % 5 == 4)
      run_lock_schedule(R.case_seed(i));
    else
      run_queue_schedule(R.case_seed(i));
  });
  return R.finish();
}

#else
// =============================================================================================
// free-running mode: real threads, TSan, perturbation shim
// =============================================================================================
static void run_queue_free(uint64_t seed)
{
  auto &R = vf::report();
  Rng r(seed);
  QueueCfg c;
  c.capacity  = static_cast<size_t>(r.range(1, 8));
  c.producers = static_cast<int>(r.range(1, 4));
  for (int p = 0; p < c.producers; ++p)
    c.adds.push_back(static_cast<int>(r.range(20, 300)));
  unsigned rate = static_cast<unsigned>(r.below(3));
  vf_configure(seed, rate == 0 ? 0 : (rate == 1 ? 30000 : 120000), rate == 0 ? 0 : (rate == 1 ? 2000 : 10000),
               rate == 0 ? 0 : 250000, 0, 100);
  c.spurious_ppm = rate == 0 ? 0 : 250000;
  int64_t live_before = g_live.load();
  QueueHistory h;
  h.adds.resize(static_cast<size_t>(c.producers));
  for (int p = 0; p < c.producers; ++p)
    h.adds[static_cast<size_t>(p)].resize(static_cast<size_t>(c.adds[static_cast<size_t>(p)]));
  vf::raw_atomic<int> done{0};
  {
    vf::WatchdogScope wd("queue-free-running", 90);
    CircularBuffer<Elem> buf(c.capacity);
    std::vector<std::thread> th;
    for (int p = 0; p < c.producers; ++p)
      th.emplace_back([&, p] {
        for (int s = 0; s < c.adds[static_cast<size_t>(p)]; ++s)
        {
          std::unique_ptr<Elem> e(new Elem(static_cast<uint32_t>(p), static_cast<uint32_t>(s)));
          Elem *raw = e.get();
          AddRec &a = h.adds[static_cast<size_t>(p)][static_cast<size_t>(s)];
          a.call    = vf::EventLog::now();
          bool rvalue = ((seed >> (8 + (s & 15))) ^ static_cast<uint64_t>(p)) & 1;
          bool ok     = rvalue ? buf.Add(std::move(e)) : buf.Add(e);
          a.ret       = vf::EventLog::now();
          a.ok        = ok;
          a.kept      = !ok && (rvalue ? e == nullptr : e.get() == raw);
        }
        done.fetch_add(1, std::memory_order_relaxed);
      });
    th.emplace_back([&] {
      Rng cr(seed ^ 0xc0ffee);
      for (;;)
      {
        size_t sz = buf.size();
        if (sz == 0)
        {
          if (done.load(std::memory_order_relaxed) == c.producers && buf.empty())
            break;
          std::this_thread::yield();
          continue;
        }
        size_t k = static_cast<size_t>(cr.range(1, static_cast<int64_t>(sz)));
        std::vector<std::pair<uint32_t, uint32_t>> got;
        std::vector<uint64_t> took;
        if (cr.chance(1, 8))
        {
          g_clear_sink = &got;
          buf.Clear();
          g_clear_sink = nullptr;
          uint64_t rs = vf::EventLog::now();
          for (auto &g : got)
          {
            h.consumed.push_back(g);
            h.consumed_stamp.push_back(rs);
          }
          R.count("queue_free_clear_calls");
          continue;
        }
        buf.Consume(k, [&](CircularBufferRange<AtomicUniquePtr<Elem>> range) noexcept {
          range.ForEach([&](AtomicUniquePtr<Elem> &ptr) noexcept {
            std::unique_ptr<Elem> out;
            ptr.Swap(out);
            took.push_back(vf::EventLog::now());  // consumed = taken by the callback (see the serialised run)
            if (!out)
              got.emplace_back(~0u, ~0u);
            else
              got.emplace_back(out->p, out->s);
            return true;
          });
        });
        for (size_t gi = 0; gi < got.size(); ++gi)
        {
          h.consumed.push_back(got[gi]);
          h.consumed_stamp.push_back(took[gi]);
        }
      }
    });
    for (auto &t : th)
      t.join();
  }
  vf_configure(0, 0, 0, 0, 0, 0);
  int64_t live_after = g_live.load();
  if (live_after != live_before)
    R.violation("no-leak-no-double-free", live_after > live_before ? "free:leak" : "free:double-free",
                "live element instances " + std::to_string(live_after - live_before) + "; " + c.describe());
  if (g_double_free.load())
  {
    R.violation("no-leak-no-double-free", "free:double-free", "an element was destroyed twice; " + c.describe());
    g_double_free.store(0);
  }
  check_queue_history(c, h, "free");
  R.count("queue_free_histories");
  R.count("queue_free_elements_consumed", h.consumed.size());
  R.nontrivial(vf::mix(seed, h.consumed.size()));
  if (R.want_sample(3))
    R.sample("free-running: " + c.describe() + " consumed=" + std::to_string(h.consumed.size()));
}

static void run_lock_free(uint64_t seed)
{
  auto &R = vf::report();
  Rng r(seed ^ 0x10c);
  int n   = static_cast<int>(r.range(2, 4));
  int ops = static_cast<int>(r.range(200, 2000));
  vf_configure(seed, r.coin() ? 30000 : 0, r.coin() ? 2000 : 0, 0, 0, 100);
  SpinLockMutex mu;
  long plain_counter = 0;  // protected only by the spin lock: a missing acquire/release is a TSan report
  vf::raw_atomic<int> inside{0};
  vf::raw_atomic<uint64_t> both{0}, tries_ok{0};
  {
    vf::WatchdogScope wd("lock-free-running", 90);
    std::vector<std::thread> th;
    for (int t = 0; t < n; ++t)
      th.emplace_back([&, t] {
        Rng tr(seed + static_cast<uint64_t>(t));
        for (int k = 0; k < ops; ++k)
        {
          bool got = true;
          if (tr.chance(1, 3))
            got = mu.try_lock();
          else
            mu.lock();
          if (!got)
            continue;
          vf::EventLog::now();  // logical progress for the watchdog (relaxed: adds no happens-before edge)
          if (inside.fetch_add(1, std::memory_order_relaxed) != 0)
            both.fetch_add(1, std::memory_order_relaxed);
          ++plain_counter;
          inside.fetch_sub(1, std::memory_order_relaxed);
          tries_ok.fetch_add(1, std::memory_order_relaxed);
          mu.unlock();
        }
      });
    for (auto &t : th)
      t.join();
  }
  vf_configure(0, 0, 0, 0, 0, 0);
  if (both.load())
    R.violation("mutual-exclusion", "free", std::to_string(both.load()) + " entries found another holder inside");
  if (static_cast<uint64_t>(plain_counter) != tries_ok.load())
    R.violation("mutual-exclusion", "free:lost-update",
                "plain counter " + std::to_string(plain_counter) + " != acquisitions " + std::to_string(tries_ok.load()));
  R.count("lock_free_histories");
  R.count("lock_free_acquisitions", tries_ok.load());
  R.nontrivial(vf::mix(seed, tries_ok.load()));
}

int main(int argc, char **argv)
{
  auto &R = vf::report();
  R.init("C11", argc, argv);
  vf::Watchdog::get().start();
  R.run_cases([&](uint64_t i) {
    if (i % 4 == 3)
      run_lock_free(R.case_seed(i));
    else
      run_queue_free(R.case_seed(i));
  });
  vf_shim_counters sc;
  vf_counters(&sc);
  R.count("shim_spurious_cas", sc.spur_cas);
  R.count("shim_genuine_cas_failures", sc.cas_failed);
  R.count("shim_yields", sc.yields);
  return R.finish();
}
#endif
