// C19 (real-thread clause) — "requesting the same name/version/schema/attributes returns the same tracer,
// meter or logger" also when the first requests for a scope arrive concurrently from several threads.
// tsan flavour + perturbation shim.  A scope-configurator predicate that dawdles (seeded sleep) widens the
// window between a provider's lookup and its registration of a new scope object.  Added after the seeded
// change C19-3 (GetTracer builds the Tracer outside the lock and pushes it without re-checking) was missed by
// the sequential engines.
#include <thread>
#include <vector>

#include "opentelemetry/sdk/common/global_log_handler.h"
#include "opentelemetry/sdk/instrumentationscope/scope_configurator.h"
#include "opentelemetry/sdk/logs/logger_config.h"
#include "opentelemetry/sdk/logs/logger_provider.h"
#include "opentelemetry/sdk/logs/processor.h"
#include "opentelemetry/sdk/metrics/meter_config.h"
#include "opentelemetry/sdk/metrics/meter_provider.h"
#include "opentelemetry/sdk/metrics/view/view_registry.h"
#include "opentelemetry/sdk/resource/resource.h"
#include "opentelemetry/sdk/trace/processor.h"
#include "opentelemetry/sdk/trace/tracer_config.h"
#include "opentelemetry/sdk/trace/tracer_provider.h"

#include "vf_core.h"
#include "vf_history.h"
#include "vf_runtime.h"

namespace sdk       = opentelemetry::sdk;
namespace nostd     = opentelemetry::nostd;
namespace sdkcommon = opentelemetry::sdk::common;
using sdk::instrumentationscope::InstrumentationScope;
using sdk::instrumentationscope::ScopeConfigurator;
using vf::Rng;

class SilentHandler : public sdkcommon::internal_log::LogHandler
{
public:
  void Handle(sdkcommon::internal_log::LogLevel, const char *, int, const char *,
              const sdkcommon::AttributeMap &) noexcept override
  {}
};

struct Ident
{
  std::string name, version, schema;
  std::string str() const { return name + "|" + version + "|" + schema; }
};

template <class T>
static std::function<bool(const InstrumentationScope &)> dawdle(unsigned us)
{
  // a matcher that never matches but takes a while: the provider evaluates it while creating a scope object
  return [us](const InstrumentationScope &) {
    if (us)
      usleep(us);
    return false;
  };
}

static void one_case(uint64_t seed)
{
  auto &R = vf::report();
  Rng r(seed);
  int nthreads   = static_cast<int>(r.range(2, 8));
  int nscopes    = static_cast<int>(r.range(1, 5));
  int rounds     = static_cast<int>(r.range(1, 3));
  unsigned us    = static_cast<unsigned>(r.below(4) == 0 ? 0 : r.range(20, 250));
  int signal     = static_cast<int>(r.below(3));  // 0 traces 1 metrics 2 logs
  bool shim      = r.coin();
  vf_configure(seed, shim ? 60000 : 0, shim ? 6000 : 0, 0, 0, 150);

  std::vector<Ident> ids;
  for (int i = 0; i < nscopes; ++i)
  {
    Ident id;
    id.name    = "scope" + std::to_string(r.below(3));  // few names: identities differing only in version / schema
    id.version = r.coin() ? "" : "v" + std::to_string(r.below(2));
    id.schema  = r.coin() ? "" : "https://s/" + std::to_string(r.below(2));
    bool dup   = false;
    for (auto &o : ids)
      dup |= o.str() == id.str();
    if (!dup)
      ids.push_back(id);
  }
  nscopes = static_cast<int>(ids.size());

  static const char *signame[] = {"traces", "metrics", "logs"};
  std::unique_ptr<sdk::trace::TracerProvider> tp;
  std::unique_ptr<sdk::metrics::MeterProvider> mp;
  std::unique_ptr<sdk::logs::LoggerProvider> lp;
  auto res = sdk::resource::Resource::Create({});
  if (signal == 0)
  {
    auto cfg = std::make_unique<ScopeConfigurator<sdk::trace::TracerConfig>>(
        ScopeConfigurator<sdk::trace::TracerConfig>::Builder(sdk::trace::TracerConfig::Default())
            .AddCondition(dawdle<int>(us), sdk::trace::TracerConfig::Disabled())
            .Build());
    std::vector<std::unique_ptr<sdk::trace::SpanProcessor>> procs;
    tp.reset(new sdk::trace::TracerProvider(std::move(procs), res,
                                            std::unique_ptr<sdk::trace::Sampler>(new sdk::trace::AlwaysOnSampler),
                                            std::unique_ptr<sdk::trace::IdGenerator>(new sdk::trace::RandomIdGenerator()),
                                            std::move(cfg)));
  }
  else if (signal == 1)
  {
    auto cfg = std::make_unique<ScopeConfigurator<sdk::metrics::MeterConfig>>(
        ScopeConfigurator<sdk::metrics::MeterConfig>::Builder(sdk::metrics::MeterConfig::Default())
            .AddCondition(dawdle<int>(us), sdk::metrics::MeterConfig::Disabled())
            .Build());
    mp.reset(new sdk::metrics::MeterProvider(std::unique_ptr<sdk::metrics::ViewRegistry>(new sdk::metrics::ViewRegistry()), res,
                                             std::move(cfg)));
  }
  else
  {
    auto cfg = std::make_unique<ScopeConfigurator<sdk::logs::LoggerConfig>>(
        ScopeConfigurator<sdk::logs::LoggerConfig>::Builder(sdk::logs::LoggerConfig::Default())
            .AddCondition(dawdle<int>(us), sdk::logs::LoggerConfig::Disabled())
            .Build());
    std::vector<std::unique_ptr<sdk::logs::LogRecordProcessor>> procs;
    lp.reset(new sdk::logs::LoggerProvider(std::move(procs), res, std::move(cfg)));
  }

  // got[thread][round][scope] = object address
  std::vector<std::vector<std::vector<const void *>>> got(
      static_cast<size_t>(nthreads),
      std::vector<std::vector<const void *>>(static_cast<size_t>(rounds), std::vector<const void *>(static_cast<size_t>(nscopes))));
  // the returned handles are kept alive until everything was compared (addresses must not be recycled)
  std::vector<std::vector<nostd::shared_ptr<opentelemetry::trace::Tracer>>> keep_t(static_cast<size_t>(nthreads));
  std::vector<std::vector<nostd::shared_ptr<opentelemetry::metrics::Meter>>> keep_m(static_cast<size_t>(nthreads));
  std::vector<std::vector<nostd::shared_ptr<opentelemetry::logs::Logger>>> keep_l(static_cast<size_t>(nthreads));
  vf::raw_atomic<int> ready{0};
  vf::raw_atomic<int> go{0};
  {
    vf::WatchdogScope wd(std::string("concurrent-get:") + signame[signal], 120);
    std::vector<std::thread> th;
    for (int t = 0; t < nthreads; ++t)
      th.emplace_back([&, t] {
        Rng tr(seed + static_cast<uint64_t>(t) * 7919);
        ready.fetch_add(1, std::memory_order_relaxed);
        while (!go.load(std::memory_order_relaxed))
          ;  // start together (relaxed spin: no happens-before edge from the harness)
        for (int rd = 0; rd < rounds; ++rd)
        {
          // every thread walks the scopes in its own order
          std::vector<int> order(static_cast<size_t>(nscopes));
          for (int i = 0; i < nscopes; ++i)
            order[static_cast<size_t>(i)] = i;
          for (int i = nscopes - 1; i > 0; --i)
            std::swap(order[static_cast<size_t>(i)], order[tr.below(static_cast<uint64_t>(i) + 1)]);
          for (int k : order)
          {
            const Ident &id = ids[static_cast<size_t>(k)];
            vf::EventLog::now();
            const void *p = nullptr;
            if (signal == 0)
            {
              auto h = tp->GetTracer(id.name, id.version, id.schema);
              p      = h.get();
              keep_t[static_cast<size_t>(t)].push_back(h);
            }
            else if (signal == 1)
            {
              auto h = mp->GetMeter(id.name, id.version, id.schema);
              p      = h.get();
              keep_m[static_cast<size_t>(t)].push_back(h);
            }
            else
            {
              auto h = lp->GetLogger("logger-" + id.name, id.name, id.version, id.schema);
              p      = h.get();
              keep_l[static_cast<size_t>(t)].push_back(h);
            }
            got[static_cast<size_t>(t)][static_cast<size_t>(rd)][static_cast<size_t>(k)] = p;
          }
        }
      });
    while (ready.load(std::memory_order_relaxed) < nthreads)
      usleep(20);
    go.store(1, std::memory_order_relaxed);
    for (auto &t : th)
      t.join();
  }
  vf_configure(0, 0, 0, 0, 0, 0);

  // oracle: one object per identity, different identities -> different objects
  std::vector<const void *> canon(static_cast<size_t>(nscopes), nullptr);
  for (int k = 0; k < nscopes; ++k)
  {
    std::set<const void *> objs;
    for (int t = 0; t < nthreads; ++t)
      for (int rd = 0; rd < rounds; ++rd)
        objs.insert(got[static_cast<size_t>(t)][static_cast<size_t>(rd)][static_cast<size_t>(k)]);
    if (objs.count(nullptr))
      R.violation("get-returns-object", signame[signal], "null handle for scope " + ids[static_cast<size_t>(k)].str());
    if (objs.size() != 1)
      R.violation("same-identity-same-object", std::string(signame[signal]) + ":concurrent-first-request",
                  std::to_string(objs.size()) + " different objects for scope " + ids[static_cast<size_t>(k)].str() + " requested by " +
                      std::to_string(nthreads) + " threads x " + std::to_string(rounds) + " rounds (configurator dawdle " +
                      std::to_string(us) + " us)");
    canon[static_cast<size_t>(k)] = *objs.begin();
  }
  for (int a = 0; a < nscopes; ++a)
    for (int b = a + 1; b < nscopes; ++b)
      if (canon[static_cast<size_t>(a)] == canon[static_cast<size_t>(b)] && canon[static_cast<size_t>(a)])
        R.violation("different-identity-different-object", std::string(signame[signal]) + ":concurrent",
                    ids[static_cast<size_t>(a)].str() + " and " + ids[static_cast<size_t>(b)].str() + " share one object");
  keep_t.clear();
  keep_m.clear();
  keep_l.clear();
  tp.reset();
  mp.reset();
  lp.reset();
  R.count(std::string("concurrent_get_cases_") + signame[signal]);
  R.count("concurrent_get_requests", static_cast<uint64_t>(nthreads) * static_cast<uint64_t>(rounds) * static_cast<uint64_t>(nscopes));
  if (nthreads >= 4)
    R.count("concurrent_get_cases_ge4_threads");
  R.nontrivial(seed);
  if (R.want_sample(4))
    R.sample(std::string("concurrent ") + signame[signal] + ": " + std::to_string(nthreads) + " threads, " +
             std::to_string(nscopes) + " scopes, " + std::to_string(rounds) + " rounds, dawdle " + std::to_string(us) + " us");
}

int main(int argc, char **argv)
{
  auto &R = vf::report();
  R.init("C19", argc, argv);
  auto handler = nostd::shared_ptr<sdkcommon::internal_log::LogHandler>(new SilentHandler());
  sdkcommon::internal_log::GlobalLogHandler::SetLogHandler(handler);
  vf::Watchdog::get().start();
  R.run_cases([&](uint64_t i) { one_case(R.case_seed(i)); });
  return R.finish();
}
