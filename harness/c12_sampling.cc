// C12 — sampling is consistent: ratio sampling is a monotone function of the trace id and the
// ratio only; ParentBased follows a valid parent exactly and consults its root sampler only for
// spans without one; AlwaysOn/AlwaysOff are constant.
// Engine E1: the statement itself is the oracle.  A case is a set of 4 ratios (special values,
// 1..4-ulp neighbours) whose samplers are all asked about the same trace ids (random, extreme, and
// adversarial ids straddling each sampler's own threshold, found by bisection on the first 8 id
// bytes through the public ShouldSample); decisions must be 0 for ratio<=0, 1 for ratio>=1,
// non-decreasing along the sorted ratios, equal for equal ratios, and unchanged when parent / name /
// kind / attributes / links vary.  ParentBased is driven with a recording delegate; a real Tracer
// with a scripted id generator confirms that the sampled flag of started spans follows.
#include "opentelemetry/common/key_value_iterable_view.h"
#include "opentelemetry/sdk/common/global_log_handler.h"
#include "opentelemetry/sdk/resource/resource.h"
#include "opentelemetry/sdk/trace/id_generator.h"
#include "opentelemetry/sdk/trace/processor.h"
#include "opentelemetry/sdk/trace/sampler.h"
#include "opentelemetry/sdk/trace/samplers/always_off.h"
#include "opentelemetry/sdk/trace/samplers/always_off_factory.h"
#include "opentelemetry/sdk/trace/samplers/always_on.h"
#include "opentelemetry/sdk/trace/samplers/always_on_factory.h"
#include "opentelemetry/sdk/trace/samplers/parent.h"
#include "opentelemetry/sdk/trace/samplers/parent_factory.h"
#include "opentelemetry/sdk/trace/samplers/trace_id_ratio.h"
#include "opentelemetry/sdk/trace/samplers/trace_id_ratio_factory.h"
#include "opentelemetry/sdk/trace/span_data.h"
#include "opentelemetry/sdk/trace/tracer_provider.h"
#include "opentelemetry/trace/span_context.h"
#include "opentelemetry/trace/span_context_kv_iterable_view.h"
#include "opentelemetry/trace/span_startoptions.h"
#include "opentelemetry/trace/trace_state.h"
#include "opentelemetry/trace/scope.h"
#include "opentelemetry/trace/tracer.h"

#include <array>
#include <cfloat>
#include <cmath>
#include <limits>
#include <memory>

#include "vf_core.h"

namespace trace_api = opentelemetry::trace;
namespace trace_sdk = opentelemetry::sdk::trace;
namespace nostd     = opentelemetry::nostd;
namespace common    = opentelemetry::common;
using trace_sdk::Decision;
using vf::Rng;

// ------------------------------------------------------------------------------------------
// helpers
// ------------------------------------------------------------------------------------------
struct LocalCounters
{
  std::map<std::string, uint64_t> c;
  void operator()(const char *name, uint64_t n = 1) { c[name] += n; }
  void flush()
  {
    for (auto &kv : c)
      vf::report().count(kv.first, kv.second);
    c.clear();
  }
};
static LocalCounters count;

class SilentLog : public opentelemetry::sdk::common::internal_log::LogHandler
{
public:
  void Handle(opentelemetry::sdk::common::internal_log::LogLevel, const char *, int, const char *,
              const opentelemetry::sdk::common::AttributeMap &) noexcept override
  {
    count("sdk_log_messages");
  }
};

static trace_api::TraceId make_id(uint64_t head, uint64_t tail)
{
  uint8_t b[16];
  memcpy(b, &head, 8);  // the first 8 id bytes, in memory order
  memcpy(b + 8, &tail, 8);
  return trace_api::TraceId(b);
}

static std::string id_hex(const trace_api::TraceId &id)
{
  return vf::hexs(id.Id().data(), 16);
}

static std::string dbl(double v)
{
  char b[80];
  uint64_t u;
  memcpy(&u, &v, 8);
  snprintf(b, sizeof b, "%.17g(0x%016" PRIx64 ")", v, u);
  return b;
}

static double step_ulps(double x, int k)
{
  double to = k > 0 ? std::numeric_limits<double>::infinity() : -std::numeric_limits<double>::infinity();
  for (int i = 0; i < std::abs(k); ++i)
    x = std::nextafter(x, to);
  return x;
}

// distance in representable doubles (finite arguments); saturates
static uint64_t ulp_distance(double a, double b)
{
  auto ord = [](double d) {
    int64_t i;
    memcpy(&i, &d, 8);
    return i < 0 ? std::numeric_limits<int64_t>::min() - i : i;
  };
  __int128 d = static_cast<__int128>(ord(a)) - static_cast<__int128>(ord(b));
  if (d < 0)
    d = -d;
  return d > static_cast<__int128>(UINT64_MAX) ? UINT64_MAX : static_cast<uint64_t>(d);
}

// canonical class of a ratio, from its value only
static std::string ratio_class(double v)
{
  if (std::isnan(v))
    return "nan";
  if (std::isinf(v))
    return v < 0 ? "neg-inf" : "pos-inf";
  if (v < 0)
    return "negative";
  if (v == 0)
    return std::signbit(v) ? "neg-zero" : "zero";
  if (v < DBL_MIN)
    return "subnormal";
  if (v < std::ldexp(1.0, -53))
    return "below-2^-53";
  if (v < std::ldexp(1.0, -20))
    return "below-2^-20";
  if (v < 1.0 - std::ldexp(1.0, -40))
    return "mid";
  if (v < 1.0)
    return "near-one";
  if (v == 1.0)
    return "one";
  return "above-one";
}

static double gen_ratio(Rng &r)
{
  switch (r.below(26))
  {
    case 0:
      return 0.0;
    case 1:
      return -0.0;
    case 2:
    {
      static const double neg[] = {-1.0, -1e300, -0.5, -DBL_MIN, -4.9406564584124654e-324, -1e-9};
      return r.coin() ? r.pick(neg) : -r.unit();
    }
    case 3:
      return -std::numeric_limits<double>::infinity();
    case 4:
      return 4.9406564584124654e-324 * static_cast<double>(r.range(1, 1000));
    case 5:
      return step_ulps(DBL_MIN, static_cast<int>(r.range(-3, 3)));
    case 6:
      return std::ldexp(static_cast<double>(r.coin() ? r.range(1, 64) : r.range(1, 1 << 20)), -64);
    case 7:
      return step_ulps(std::ldexp(1.0, -53), static_cast<int>(r.range(-3, 3)));
    case 8:
    case 9:
      return std::ldexp(r.unit(), -static_cast<int>(r.range(0, 70)));
    case 10:
      return step_ulps(0.5, static_cast<int>(r.range(-3, 3)));
    case 11:
    case 12:
      // where UINT32_MAX * ratio crosses an integer (the hi/lo split of the threshold computation)
      return step_ulps(static_cast<double>(r.below(1ull << 32)) / 4294967295.0, static_cast<int>(r.range(-3, 3)));
    case 13:
      return step_ulps(1.0, -static_cast<int>(r.range(1, 4)));
    case 14:
      return 1.0 - std::ldexp(1.0, -static_cast<int>(r.range(1, 53)));
    case 15:
      return 1.0;
    case 16:
      return step_ulps(1.0, static_cast<int>(r.range(1, 4)));
    case 17:
    {
      static const double big[] = {2.0, 1.5, 1e308, DBL_MAX, 4294967296.0, 18446744073709551616.0};
      return r.pick(big);
    }
    case 18:
      return std::numeric_limits<double>::infinity();
    case 19:
      return r.coin() ? std::numeric_limits<double>::quiet_NaN() : -std::numeric_limits<double>::quiet_NaN();
    case 20:
      return std::ldexp(static_cast<double>(r.range(1, 1 << 20)), -static_cast<int>(r.range(20, 40)));
    default:
      return r.unit();
  }
}

static double gen_ratio_not_nan(Rng &r)
{
  for (;;)
  {
    double v = gen_ratio(r);
    if (!std::isnan(v))
      return v;
    count("nan_ratios_excluded");  // the statement gives no meaning to a NaN ratio
  }
}

static double neighbour(Rng &r, double v)
{
  if (std::isinf(v))
    return v;
  int k = static_cast<int>(r.range(1, 4));
  return step_ulps(v, r.coin() ? k : -k);
}

// ------------------------------------------------------------------------------------------
// arguments that must NOT influence the ratio sampler
// ------------------------------------------------------------------------------------------
static nostd::shared_ptr<trace_api::TraceState> gen_trace_state(Rng &r)
{
  switch (r.below(4))
  {
    case 0:
      return trace_api::TraceState::GetDefault();
    case 1:
      return trace_api::TraceState::FromHeader("vendor=v1");
    case 2:
      return trace_api::TraceState::FromHeader("a=1,b=2,rojo=00f067aa0ba902b7");
    default:
      return trace_api::TraceState::FromHeader("k" + std::to_string(r.below(1000)) + "=x" + std::to_string(r.below(1000)));
  }
}

struct Parent
{
  trace_api::SpanContext ctx{false, false};
  bool model_valid = false;  // non-zero trace id and non-zero span id, computed from the bytes
  bool sampled     = false;
  bool remote      = false;
  uint8_t flags    = 0;
  std::string ts_header;
  std::string invalid_kind;
};

static Parent gen_parent(Rng &r, const trace_api::TraceId &same_trace, int want_valid /* -1 any */, int flags_byte = -1)
{
  Parent p;
  uint8_t t[16], s[8];
  bool tz = false, sz = false;
  bool valid = want_valid < 0 ? r.chance(2, 3) : want_valid != 0;
  if (!valid)
  {
    unsigned k = static_cast<unsigned>(r.below(3));
    tz         = k != 1;
    sz         = k != 0;
  }
  if (r.chance(3, 4))
    memcpy(t, same_trace.Id().data(), 16);
  else
    for (auto &x : t)
      x = static_cast<uint8_t>(r.below(256));
  bool allz = true;
  for (auto x : t)
    allz &= x == 0;
  if (allz && !tz)
    t[r.below(16)] = static_cast<uint8_t>(1 + r.below(255));
  if (tz)
    memset(t, 0, 16);
  for (auto &x : s)
    x = static_cast<uint8_t>(r.below(256));
  if (r.chance(1, 4))
  {
    memset(s, 0, 8);
    s[r.below(8)] = static_cast<uint8_t>(1 + r.below(255));  // a single non-zero byte
  }
  bool sallz = true;
  for (auto x : s)
    sallz &= x == 0;
  if (sallz && !sz)
    s[0] = 1;
  if (sz)
    memset(s, 0, 8);
  p.flags  = static_cast<uint8_t>(flags_byte >= 0 ? flags_byte : (r.chance(1, 2) ? r.below(256) : r.below(4)));
  p.remote = r.coin();
  auto ts  = gen_trace_state(r);
  p.ts_header   = ts->ToHeader();
  p.ctx         = trace_api::SpanContext(trace_api::TraceId(t), trace_api::SpanId(s), trace_api::TraceFlags(p.flags), p.remote, ts);
  p.model_valid = !tz && !sz;
  p.sampled     = (p.flags & 1) != 0;
  p.invalid_kind = tz && sz ? "both-ids-zero" : (tz ? "trace-id-zero" : (sz ? "span-id-zero" : "valid"));
  return p;
}

typedef std::map<std::string, common::AttributeValue> AttrMap;
typedef std::vector<std::pair<trace_api::SpanContext, std::map<std::string, std::string>>> LinkVec;

static AttrMap gen_attrs(Rng &r)
{
  AttrMap m;
  size_t n = static_cast<size_t>(r.range(1, 4));
  static const char *keys[] = {"sampling.priority", "http.method", "sampler.type", "sampler.param", "error", "k"};
  for (size_t i = 0; i < n; ++i)
  {
    const char *k = r.pick(keys);
    switch (r.below(4))
    {
      case 0:
        m[k] = static_cast<int64_t>(r.range(-2, 2));
        break;
      case 1:
        m[k] = r.coin();
        break;
      case 2:
        m[k] = r.unit();
        break;
      default:
        m[k] = "value";
    }
  }
  return m;
}

static LinkVec gen_links(Rng &r, const trace_api::TraceId &id)
{
  LinkVec l;
  size_t n = static_cast<size_t>(r.range(1, 3));
  for (size_t i = 0; i < n; ++i)
    l.emplace_back(gen_parent(r, id, 1).ctx, std::map<std::string, std::string>{{"link", "attr"}});
  return l;
}

static const trace_api::SpanKind kKinds[] = {trace_api::SpanKind::kInternal, trace_api::SpanKind::kServer,
                                             trace_api::SpanKind::kClient, trace_api::SpanKind::kProducer,
                                             trace_api::SpanKind::kConsumer};

// the baseline question: root span, empty name, internal kind, no attributes, no links
static Decision ask(trace_sdk::Sampler &s, const trace_api::TraceId &id)
{
  static const trace_api::SpanContext invalid = trace_api::SpanContext::GetInvalid();
  static const common::NoopKeyValueIterable noattrs{};
  static const trace_api::NullSpanContext nolinks{};
  count("ratio_decisions");
  return s.ShouldSample(invalid, id, "", trace_api::SpanKind::kInternal, noattrs, nolinks).decision;
}
static bool sampled(trace_sdk::Sampler &s, const trace_api::TraceId &id)
{
  return ask(s, id) == Decision::RECORD_AND_SAMPLE;
}

static const char *kDims[] = {"parent", "name", "kind", "attributes", "links"};

// the same question with exactly one other argument varied
static Decision ask_varied(trace_sdk::Sampler &s, const trace_api::TraceId &id, int dim, Rng &r, std::string *what)
{
  static const common::NoopKeyValueIterable noattrs{};
  static const trace_api::NullSpanContext nolinks{};
  trace_api::SpanContext parent = trace_api::SpanContext::GetInvalid();
  trace_api::SpanKind kind      = trace_api::SpanKind::kInternal;
  std::string name;
  AttrMap attrs;
  LinkVec links;
  switch (dim)
  {
    case 0:
    {
      Parent p = gen_parent(r, id, -1);
      parent   = p.ctx;
      *what    = "parent " + p.invalid_kind + " flags=" + std::to_string(p.flags) + (p.remote ? " remote" : " local") +
              " tracestate=" + p.ts_header;
      break;
    }
    case 1:
      name  = r.coin() ? r.anybytes(static_cast<size_t>(r.range(1, 40))) : std::string("GET /sampled");
      *what = "name " + vf::show(name, 40);
      break;
    case 2:
      kind  = kKinds[1 + r.below(4)];
      *what = "kind " + std::to_string(static_cast<int>(kind));
      break;
    case 3:
      attrs = gen_attrs(r);
      *what = std::to_string(attrs.size()) + " attributes, first key " + attrs.begin()->first;
      break;
    default:
      links = gen_links(r, id);
      *what = std::to_string(links.size()) + " links";
  }
  vf::Buf nb(name);
  common::KeyValueIterableView<AttrMap> av(attrs);
  trace_api::SpanContextKeyValueIterableView<LinkVec> lv(links);
  count("ratio_decisions_varied");
  Decision d = s.ShouldSample(parent, id, nostd::string_view(nb.data(), nb.size()), kind,
                              dim == 3 ? static_cast<const common::KeyValueIterable &>(av) : noattrs,
                              dim == 4 ? static_cast<const trace_api::SpanContextKeyValueIterable &>(lv) : nolinks)
                   .decision;
  nb.release();
  return d;
}

// ------------------------------------------------------------------------------------------
// threshold search through the public API only
// ------------------------------------------------------------------------------------------
struct Edge
{
  bool found = false;
  uint64_t last_sampled = 0;  // largest value of the first 8 id bytes that is sampled (if monotone in it)
};

static Edge bisect(trace_sdk::Sampler &s)
{
  Edge e;
  if (!sampled(s, make_id(0, 0)) || sampled(s, make_id(UINT64_MAX, 0)))
    return e;  // samples nothing at all / everything: no threshold inside the id space
  uint64_t lo = 0, hi = UINT64_MAX;
  while (hi - lo > 1)
  {
    uint64_t mid = lo + (hi - lo) / 2;
    if (sampled(s, make_id(mid, 0)))
      lo = mid;
    else
      hi = mid;
  }
  e.found        = true;
  e.last_sampled = lo;
  count("thresholds_bisected");
  return e;
}

struct Id
{
  trace_api::TraceId id;
  const char *cls;
};

// ------------------------------------------------------------------------------------------
// ratio part of a case
// ------------------------------------------------------------------------------------------
struct RatioSet
{
  double ratio[4];
  std::unique_ptr<trace_sdk::Sampler> s[4];
  int order[4];  // indices sorted by ratio
  std::vector<Id> ids;
  std::vector<std::array<bool, 4>> dec;  // decision of sampler i on ids[k]
};

// coarse region of a ratio for violation classes
static std::string ratio_region(double v)
{
  if (v <= 0)
    return "le0";
  if (v < std::ldexp(1.0, -53))
    return "below-2^-53";
  if (v < std::ldexp(1.0, -20))
    return "below-2^-20";
  if (v < 1.0 - std::ldexp(1.0, -40))
    return "mid";
  if (v < 1.0)
    return "near-one";
  return "ge1";
}

static std::string pair_class(double lo, double hi)
{
  uint64_t d = (std::isinf(lo) || std::isinf(hi)) ? UINT64_MAX : ulp_distance(lo, hi);
  return std::string(d <= 4 ? "within-4ulp" : "far") + "-hi-" + ratio_region(hi);
}

static void ratio_part(Rng &r, RatioSet &rs, size_t nids, uint64_t *chash)
{
  auto &R = vf::report();
  rs.ratio[0] = gen_ratio_not_nan(r);
  rs.ratio[1] = r.chance(7, 10) ? neighbour(r, rs.ratio[0]) : gen_ratio_not_nan(r);
  rs.ratio[2] = r.chance(1, 2) ? neighbour(r, rs.ratio[1]) : gen_ratio_not_nan(r);
  rs.ratio[3] = r.chance(1, 12) ? rs.ratio[r.below(3)] : gen_ratio_not_nan(r);
  if (r.chance(1, 40))
  {
    rs.ratio[2] = 0.0;
    rs.ratio[3] = -0.0;
  }
  for (int i = 0; i < 4; ++i)
  {
    if (r.coin())
      rs.s[i] = trace_sdk::TraceIdRatioBasedSamplerFactory::Create(rs.ratio[i]);
    else
      rs.s[i].reset(new trace_sdk::TraceIdRatioBasedSampler(rs.ratio[i]));
    rs.order[i] = i;
    *chash      = vf::mix(*chash, vf::fnv1a(&rs.ratio[i], 8));
    count((std::string("ratios_") + ratio_class(rs.ratio[i])).c_str());
  }
  std::stable_sort(rs.order, rs.order + 4, [&](int a, int b) { return rs.ratio[a] < rs.ratio[b]; });
  for (int a = 0; a < 4; ++a)
    for (int b = a + 1; b < 4; ++b)
    {
      double lo = rs.ratio[rs.order[a]], hi = rs.ratio[rs.order[b]];
      count("ratio_pairs");
      if (!std::isinf(lo) && !std::isinf(hi) && lo != hi && ulp_distance(lo, hi) <= 4)
        count("pairs_within_4ulp");
      if (lo == hi)
        count("pairs_equal_ratio");
    }

  // ---- ids: random, extreme, and straddling every sampler's own threshold
  Edge edge[4];
  for (int i = 0; i < 4; ++i)
    edge[i] = bisect(*rs.s[i]);
  auto tail = [&]() -> uint64_t {
    switch (r.below(4))
    {
      case 0:
        return 0;
      case 1:
        return UINT64_MAX;
      default:
        return r.next();
    }
  };
  static const uint64_t extremes[] = {0,
                                      1,
                                      2,
                                      0xff,
                                      1ull << 32,
                                      (1ull << 32) - 1,
                                      1ull << 53,
                                      (1ull << 53) + 1,
                                      1ull << 63,
                                      (1ull << 63) - 1,
                                      (1ull << 63) + 1,
                                      UINT64_MAX,
                                      UINT64_MAX - 1,
                                      UINT64_MAX - 1023,
                                      UINT64_MAX - 1024,
                                      UINT64_MAX - 1025,
                                      UINT64_MAX - 2047,
                                      UINT64_MAX - 2048,
                                      0x00000000ffffffffull,
                                      0xffffffff00000000ull,
                                      0x0100000000000000ull,
                                      0x00000000000000ffull << 56};
  for (uint64_t v : extremes)
    rs.ids.push_back({make_id(v, r.coin() ? 0 : tail()), "extreme"});
  for (int i = 0; i < 4; ++i)
  {
    if (!edge[i].found)
      continue;
    uint64_t b = edge[i].last_sampled;
    static const int64_t near[] = {0, 1, 2, 3, -1, -2, -3, 255, 256, -255, -256};
    for (int64_t d : near)
    {
      uint64_t v = b + static_cast<uint64_t>(d);
      if ((d > 0 && v < b) || (d < 0 && v > b))
        continue;
      rs.ids.push_back({make_id(v, tail()), "near-threshold"});
      count("ids_near_threshold");
    }
    for (int j = 0; j < 10; ++j)
    {
      int64_t d  = r.range(-256, 256);
      uint64_t v = b + static_cast<uint64_t>(d);
      if ((d > 0 && v < b) || (d < 0 && v > b))
        continue;
      rs.ids.push_back({make_id(v, tail()), "near-threshold"});
      count("ids_near_threshold");
    }
  }
  while (rs.ids.size() < nids)
  {
    if (r.chance(1, 8))
    {
      // small head values: the only ids tiny ratios can ever sample
      rs.ids.push_back({make_id(r.below(1ull << r.range(1, 40)), tail()), "random"});
    }
    else
      rs.ids.push_back({make_id(r.next(), r.next()), "random"});
  }

  // ---- the statement over every id
  rs.dec.resize(rs.ids.size());
  for (size_t k = 0; k < rs.ids.size(); ++k)
  {
    const trace_api::TraceId &id = rs.ids[k].id;
    const std::string icls       = rs.ids[k].cls;
    count("ids_total");
    for (int i = 0; i < 4; ++i)
    {
      bool d       = sampled(*rs.s[i], id);
      rs.dec[k][i] = d;
      count(d ? "decisions_sampled" : "decisions_dropped");
      double q = rs.ratio[i];
      if (q <= 0.0 && d)
        R.violation("ratio-le0-samples-nothing", ratio_class(q) + "-" + icls, "ratio " + dbl(q) + " sampled trace id " + id_hex(id));
      if (q >= 1.0 && !d)
        R.violation("ratio-ge1-samples-everything", ratio_class(q) + "-" + icls,
                    "ratio " + dbl(q) + " dropped trace id " + id_hex(id));
      if (q <= 0.0)
        count("checks_ratio_le0");
      if (q >= 1.0)
        count("checks_ratio_ge1");
    }
    // monotone along the sorted ratios; equal ratios agree
    for (int a = 0; a < 4; ++a)
      for (int b = a + 1; b < 4; ++b)
      {
        int lo = rs.order[a], hi = rs.order[b];
        bool dl = rs.dec[k][lo], dh = rs.dec[k][hi];
        if (rs.ratio[lo] == rs.ratio[hi])
        {
          if (dl != dh)
            R.violation("ratio-deterministic", ratio_class(rs.ratio[lo]) + "-" + icls,
                        "two samplers with ratios " + dbl(rs.ratio[lo]) + " and " + dbl(rs.ratio[hi]) + " disagree on trace id " +
                            id_hex(id));
          continue;
        }
        if (dl && !dh)
          R.violation("ratio-monotone", pair_class(rs.ratio[lo], rs.ratio[hi]) + "-" + icls,
                      "trace id " + id_hex(id) + " is sampled at ratio " + dbl(rs.ratio[lo]) + " but dropped at the larger ratio " +
                          dbl(rs.ratio[hi]));
        if (!dl && dh)
        {
          count("id_splits_a_ratio_pair");
          if (!std::isinf(rs.ratio[lo]) && !std::isinf(rs.ratio[hi]) && ulp_distance(rs.ratio[lo], rs.ratio[hi]) <= 4)
            count("id_splits_a_pair_within_4ulp");
        }
      }
    // the same sampler asked again
    if ((k & 15) == 3)
    {
      int i = static_cast<int>(r.below(4));
      if (sampled(*rs.s[i], id) != rs.dec[k][i])
        R.violation("ratio-deterministic", ratio_class(rs.ratio[i]) + "-" + icls + "-repeat",
                    "ratio " + dbl(rs.ratio[i]) + " answered differently when asked twice about " + id_hex(id));
    }
    // nothing but the trace id matters
    if ((k & 7) == 1 || icls[0] == 'n')
    {
      int i = static_cast<int>(r.below(4));
      for (int dim = 0; dim < 5; ++dim)
      {
        if (icls[0] == 'n' && (k + static_cast<size_t>(dim)) % 3 != 0)
          continue;
        std::string what;
        bool d = ask_varied(*rs.s[i], id, dim, r, &what) == Decision::RECORD_AND_SAMPLE;
        if (d != rs.dec[k][i])
          R.violation("ratio-decision-independent", kDims[dim],
                      "ratio " + dbl(rs.ratio[i]) + ", trace id " + id_hex(id) + ": decision " + (rs.dec[k][i] ? "sample" : "drop") +
                          " becomes " + (d ? "sample" : "drop") + " with " + what);
      }
    }
  }
  if (R.want_sample(6) && r.chance(1, 40))
    R.sample("ratios " + dbl(rs.ratio[0]) + " " + dbl(rs.ratio[1]) + " " + dbl(rs.ratio[2]) + " " + dbl(rs.ratio[3]) + "; " +
             std::to_string(rs.ids.size()) + " ids, e.g. " + id_hex(rs.ids.back().id) + "; thresholds found: " +
             std::to_string(edge[0].found + edge[1].found + edge[2].found + edge[3].found));
}

// ------------------------------------------------------------------------------------------
// ParentBased / AlwaysOn / AlwaysOff
// ------------------------------------------------------------------------------------------
class RecSampler : public trace_sdk::Sampler
{
public:
  int calls = 0;
  Decision script;
  nostd::shared_ptr<trace_api::TraceState> script_ts;
  std::shared_ptr<trace_sdk::Sampler> inner;  // if set, the real sampler decides
  Decision last_decision = Decision::DROP;
  trace_api::TraceId last_id;
  bool last_parent_valid = false;

  trace_sdk::SamplingResult ShouldSample(const trace_api::SpanContext &parent, trace_api::TraceId id, nostd::string_view name,
                                         trace_api::SpanKind kind, const common::KeyValueIterable &attrs,
                                         const trace_api::SpanContextKeyValueIterable &links) noexcept override
  {
    ++calls;
    last_id           = id;
    last_parent_valid = parent.IsValid();
    if (inner)
    {
      auto res      = inner->ShouldSample(parent, id, name, kind, attrs, links);
      last_decision = res.decision;
      return res;
    }
    last_decision = script;
    return {script, nullptr, script_ts};
  }
  nostd::string_view GetDescription() const noexcept override { return "RecSampler"; }
};

static const char *decision_name(Decision d)
{
  return d == Decision::DROP ? "drop" : (d == Decision::RECORD_ONLY ? "record-only" : "record-and-sample");
}

static std::shared_ptr<RecSampler> gen_delegate(Rng &r, double ratio, std::string *kind)
{
  auto rec = std::make_shared<RecSampler>();
  switch (r.below(6))
  {
    case 0:
      rec->script = Decision::DROP;
      *kind       = "scripted-drop";
      break;
    case 1:
      rec->script = Decision::RECORD_ONLY;
      *kind       = "scripted-record-only";
      break;
    case 2:
      rec->script = Decision::RECORD_AND_SAMPLE;
      *kind       = "scripted-record-and-sample";
      break;
    case 3:
      rec->inner = std::make_shared<trace_sdk::AlwaysOnSampler>();
      *kind      = "always-on";
      break;
    case 4:
      rec->inner = std::make_shared<trace_sdk::AlwaysOffSampler>();
      *kind      = "always-off";
      break;
    default:
      rec->inner = std::make_shared<trace_sdk::TraceIdRatioBasedSampler>(ratio);
      *kind      = "ratio";
  }
  rec->script_ts = gen_trace_state(r);
  return rec;
}

struct CallArgs
{
  std::string name;
  trace_api::SpanKind kind;
  AttrMap attrs;
  LinkVec links;
};

template <class F>
static auto call_with(Rng &r, const trace_api::TraceId &id, F &&f)
{
  static const common::NoopKeyValueIterable noattrs{};
  static const trace_api::NullSpanContext nolinks{};
  CallArgs a;
  a.name = r.coin() ? std::string() : r.anybytes(static_cast<size_t>(r.range(1, 24)));
  a.kind = r.pick(kKinds);
  bool wa = r.chance(1, 3), wl = r.chance(1, 4);
  if (wa)
    a.attrs = gen_attrs(r);
  if (wl)
    a.links = gen_links(r, id);
  common::KeyValueIterableView<AttrMap> av(a.attrs);
  trace_api::SpanContextKeyValueIterableView<LinkVec> lv(a.links);
  vf::Buf nb(a.name);
  auto res = f(nostd::string_view(nb.data(), nb.size()), a.kind,
               wa ? static_cast<const common::KeyValueIterable &>(av) : noattrs,
               wl ? static_cast<const trace_api::SpanContextKeyValueIterable &>(lv) : nolinks);
  nb.release();
  return res;
}

static void parent_part(Rng &r, const RatioSet &rs, size_t trials, uint64_t *chash)
{
  auto &R = vf::report();
  bool sweep = r.chance(1, 8);  // every flags byte once
  size_t n   = sweep ? 256 : trials;
  for (size_t t = 0; t < n; ++t)
  {
    const trace_api::TraceId &id = rs.ids[r.below(rs.ids.size())].id;
    double ratio                 = rs.ratio[r.below(4)];
    std::string dkind;
    std::shared_ptr<RecSampler> rec = gen_delegate(r, ratio, &dkind);
    std::unique_ptr<trace_sdk::Sampler> pb;
    if (r.coin())
      pb = trace_sdk::ParentBasedSamplerFactory::Create(rec);
    else
      pb.reset(new trace_sdk::ParentBasedSampler(rec));
    Parent p = gen_parent(r, id, sweep ? 1 : -1, sweep ? static_cast<int>(t) : -1);
    *chash   = vf::mix(*chash, (static_cast<uint64_t>(p.flags) << 8) ^ (p.model_valid ? 1 : 0) ^ (p.remote ? 2 : 0) ^ vf::fnv1a(dkind));
    trace_sdk::SamplingResult res = call_with(r, id, [&](nostd::string_view name, trace_api::SpanKind kind,
                                                         const common::KeyValueIterable &av,
                                                         const trace_api::SpanContextKeyValueIterable &lv) {
      return pb->ShouldSample(p.ctx, id, name, kind, av, lv);
    });
    std::string pdesc = "parent " + p.invalid_kind + " flags=" + std::to_string(p.flags) + (p.remote ? " remote" : " local") +
                        " tracestate=" + vf::show(p.ts_header, 60) + ", delegate " + dkind + ", trace id " + id_hex(id);
    if (p.model_valid)
    {
      std::string cls = std::string(p.remote ? "remote" : "local") + (p.sampled ? "-sampled" : "-unsampled");
      count("parent_valid");
      count(p.remote ? "parent_valid_remote" : "parent_valid_local");
      count(p.sampled ? "parent_valid_sampled" : "parent_valid_unsampled");
      if (p.flags > 1)
        count("parent_valid_other_flag_bits");
      if (!p.ts_header.empty())
        count("parent_valid_nonempty_tracestate");
      if (res.IsSampled() != p.sampled)
        R.violation("parent-valid-follows-parent", cls, pdesc + ": decision " + decision_name(res.decision));
      if (!res.trace_state)
        R.violation("parent-valid-tracestate", cls + (p.ts_header.empty() ? "-empty-tracestate" : "-nonempty-tracestate") + "-null",
                    pdesc + ": result carries no trace state");
      else if (res.trace_state->ToHeader() != p.ts_header)
        R.violation("parent-valid-tracestate", cls + (p.ts_header.empty() ? "-empty-tracestate" : "-nonempty-tracestate"),
                    pdesc + ": result trace state " + vf::show(res.trace_state->ToHeader(), 80));
      if (rec->calls != 0)
        R.violation("parent-valid-no-delegate", cls, pdesc + ": root sampler consulted " + std::to_string(rec->calls) + " time(s)");
    }
    else
    {
      count("parent_invalid");
      count((std::string("parent_invalid_") + p.invalid_kind).c_str());
      if (rec->calls != 1)
        R.violation("parent-invalid-delegates-once", p.invalid_kind,
                    pdesc + ": root sampler consulted " + std::to_string(rec->calls) + " time(s)");
      else
      {
        if (res.decision != rec->last_decision)
          R.violation("parent-invalid-follows-delegate", dkind,
                      pdesc + ": root sampler said " + decision_name(rec->last_decision) + ", result " + decision_name(res.decision));
      }
      // the outcome is the root sampler's outcome for this span: compare with an independent twin
      if (dkind == "ratio")
      {
        trace_sdk::TraceIdRatioBasedSampler twin(ratio);
        if ((ask(twin, id) == Decision::RECORD_AND_SAMPLE) != res.IsSampled())
          R.violation("parent-invalid-follows-delegate", "ratio-twin", pdesc + ": ratio " + dbl(ratio) + " decides otherwise");
      }
      else if (dkind == "always-on" || dkind == "always-off")
      {
        if (res.IsSampled() != (dkind == "always-on"))
          R.violation("parent-invalid-follows-delegate", dkind + "-twin", pdesc + ": decision " + decision_name(res.decision));
      }
    }
    // always-on / always-off with the same arguments
    if ((t & 3) == 0)
    {
      std::unique_ptr<trace_sdk::Sampler> on  = r.coin() ? trace_sdk::AlwaysOnSamplerFactory::Create()
                                                         : std::unique_ptr<trace_sdk::Sampler>(new trace_sdk::AlwaysOnSampler);
      std::unique_ptr<trace_sdk::Sampler> off = r.coin() ? trace_sdk::AlwaysOffSamplerFactory::Create()
                                                         : std::unique_ptr<trace_sdk::Sampler>(new trace_sdk::AlwaysOffSampler);
      std::string cls = p.model_valid ? std::string("valid-parent") + (p.sampled ? "-sampled" : "-unsampled") : "invalid-parent";
      Decision don = call_with(r, id, [&](nostd::string_view name, trace_api::SpanKind kind, const common::KeyValueIterable &av,
                                          const trace_api::SpanContextKeyValueIterable &lv) {
                       return on->ShouldSample(p.ctx, id, name, kind, av, lv);
                     }).decision;
      Decision doff = call_with(r, id, [&](nostd::string_view name, trace_api::SpanKind kind, const common::KeyValueIterable &av,
                                           const trace_api::SpanContextKeyValueIterable &lv) {
                        return off->ShouldSample(p.ctx, id, name, kind, av, lv);
                      }).decision;
      count("always_on_off_checks");
      if (don != Decision::RECORD_AND_SAMPLE)
        R.violation("always-on-constant", cls, pdesc + ": AlwaysOn decided " + decision_name(don));
      if (doff != Decision::DROP)
        R.violation("always-off-constant", cls, pdesc + ": AlwaysOff decided " + decision_name(doff));
    }
  }
  if (sweep)
    count("parent_flag_byte_sweeps");
}

// ------------------------------------------------------------------------------------------
// through a real Tracer
// ------------------------------------------------------------------------------------------
class ScriptedIds : public trace_sdk::IdGenerator
{
public:
  ScriptedIds() : trace_sdk::IdGenerator(false) {}
  trace_api::SpanId GenerateSpanId() noexcept override
  {
    uint8_t b[8];
    uint64_t v = ++ctr_;
    memcpy(b, &v, 8);
    return trace_api::SpanId(b);
  }
  trace_api::TraceId GenerateTraceId() noexcept override
  {
    ++trace_ids_;
    return next;
  }
  trace_api::TraceId next;
  uint64_t trace_ids_ = 0;

private:
  uint64_t ctr_ = 0;
};

class NullProcessor : public trace_sdk::SpanProcessor
{
public:
  std::unique_ptr<trace_sdk::Recordable> MakeRecordable() noexcept override
  {
    return std::unique_ptr<trace_sdk::Recordable>(new trace_sdk::SpanData);
  }
  void OnStart(trace_sdk::Recordable &, const trace_api::SpanContext &) noexcept override {}
  void OnEnd(std::unique_ptr<trace_sdk::Recordable> &&) noexcept override {}
  bool ForceFlush(std::chrono::microseconds) noexcept override { return true; }
  bool Shutdown(std::chrono::microseconds) noexcept override { return true; }
};

static const opentelemetry::sdk::resource::Resource &the_resource()
{
  static auto res = opentelemetry::sdk::resource::Resource::Create({});
  return res;
}

static void tracer_part(Rng &r, const RatioSet &rs, size_t spans_per_ratio)
{
  auto &R = vf::report();
  // candidate ids: the interesting ones first
  std::vector<size_t> cand;
  for (size_t k = 0; k < rs.ids.size(); ++k)
    if (rs.ids[k].cls[0] == 'n' || r.chance(1, 6))
      cand.push_back(k);
  if (cand.empty())
    return;
  for (int i = 0; i < 4; ++i)
  {
    if (!r.chance(1, 2))
      continue;
    bool via_parent_based = r.chance(1, 3);
    auto *gen             = new ScriptedIds;
    std::shared_ptr<RecSampler> rec;
    std::unique_ptr<trace_sdk::Sampler> sampler(new trace_sdk::TraceIdRatioBasedSampler(rs.ratio[i]));
    if (via_parent_based)
    {
      rec        = std::make_shared<RecSampler>();
      rec->inner = std::shared_ptr<trace_sdk::Sampler>(std::move(sampler));
      sampler.reset(new trace_sdk::ParentBasedSampler(rec));
    }
    trace_sdk::TracerProvider provider(std::unique_ptr<trace_sdk::SpanProcessor>(new NullProcessor), the_resource(),
                                       std::move(sampler), std::unique_ptr<trace_sdk::IdGenerator>(gen));
    auto tracer = provider.GetTracer("c12");
    for (size_t j = 0; j < spans_per_ratio; ++j)
    {
      size_t k = cand[r.below(cand.size())];
      gen->next = rs.ids[k].id;
      if (!gen->next.IsValid())
        continue;  // the all-zero id cannot identify a trace
      trace_api::StartSpanOptions opts;
      opts.kind = r.pick(kKinds);
      std::string name = r.anybytes(static_cast<size_t>(r.range(0, 12)));
      vf::Buf nb(name);
      uint64_t before = gen->trace_ids_;
      int calls0      = rec ? rec->calls : 0;
      auto span       = tracer->StartSpan(nostd::string_view(nb.data(), nb.size()), opts);
      nb.release();
      count("tracer_root_spans");
      std::string cls = ratio_region(rs.ratio[i]) + (via_parent_based ? "-via-parent-based" : "");
      trace_api::SpanContext sc = span->GetContext();
      // judged on the trace id the span really carries (normally the one the generator supplied)
      bool as_supplied = gen->trace_ids_ == before + 1 && sc.trace_id() == rs.ids[k].id;
      if (as_supplied)
        count("tracer_root_ids_as_supplied");
      bool want = as_supplied ? rs.dec[k][i] : sampled(*rs.s[i], sc.trace_id());
      if (sc.IsSampled() != want)
        R.violation("tracer-root-follows-sampler", cls,
                    "ratio " + dbl(rs.ratio[i]) + ", trace id " + id_hex(sc.trace_id()) + ": sampler says " +
                        (want ? "sample" : "drop") + ", started span has sampled=" + (sc.IsSampled() ? "1" : "0"));
      if (rec && rec->calls != calls0 + 1)
        R.violation("parent-invalid-delegates-once", "tracer-root-span",
                    "root sampler consulted " + std::to_string(rec->calls - calls0) + " time(s) for a root span");
      (rs.dec[k][i] ? count("tracer_root_sampled") : count("tracer_root_dropped"));
      // a child of a remote parent under ParentBased: parent's bit and trace state, root sampler not consulted
      if (via_parent_based && r.coin())
      {
        Parent p = gen_parent(r, rs.ids[k].id, 1);
        trace_api::StartSpanOptions co;
        co.parent   = p.ctx;
        int calls1  = rec->calls;
        auto child  = tracer->StartSpan("child", co);
        auto cc     = child->GetContext();
        count("tracer_child_spans");
        std::string ccls = std::string(p.remote ? "remote" : "local") + (p.sampled ? "-sampled" : "-unsampled");
        if (cc.IsSampled() != p.sampled)
          R.violation("tracer-child-follows-parent", ccls,
                      "child of parent flags=" + std::to_string(p.flags) + " has sampled=" + (cc.IsSampled() ? "1" : "0"));
        if (!cc.trace_state() || cc.trace_state()->ToHeader() != p.ts_header)
          R.violation("tracer-child-follows-parent", ccls + "-tracestate",
                      "child trace state " + (cc.trace_state() ? vf::show(cc.trace_state()->ToHeader(), 60) : std::string("null")) +
                          " parent's " + vf::show(p.ts_header, 60));
        if (rec->calls != calls1)
          R.violation("parent-valid-no-delegate", "tracer-" + ccls, "root sampler consulted for a span with a valid parent");
        child->End();
      }
      span->End();
    }
  }
}

// A sampler object the provider can own that forwards to a shared recording delegate.
class FwdSampler : public trace_sdk::Sampler
{
public:
  explicit FwdSampler(std::shared_ptr<RecSampler> r) : r_(std::move(r)) {}
  trace_sdk::SamplingResult ShouldSample(const trace_api::SpanContext &parent, trace_api::TraceId id, nostd::string_view name,
                                         trace_api::SpanKind kind, const common::KeyValueIterable &attrs,
                                         const trace_api::SpanContextKeyValueIterable &links) noexcept override
  {
    return r_->ShouldSample(parent, id, name, kind, attrs, links);
  }
  nostd::string_view GetDescription() const noexcept override { return "FwdSampler"; }

private:
  std::shared_ptr<RecSampler> r_;
};

// Every delegate through a real Tracer: the started span's sampled bit is the delegate's decision (sampled only
// for RECORD_AND_SAMPLE - a RECORD_ONLY span records but does not propagate as sampled), and a local child started
// under ParentBased repeats its parent's bit without consulting the delegate.  Added after the seeded change
// C12-w3-1 (sampled bit taken from IsRecording) was missed: only the ratio sampler used to sit behind a Tracer.
static void tracer_delegate_part(Rng &r, const RatioSet &rs, size_t spans)
{
  auto &R = vf::report();
  std::string dkind;
  double ratio                    = rs.ratio[r.below(4)];
  std::shared_ptr<RecSampler> rec = gen_delegate(r, ratio, &dkind);
  bool via_parent_based           = r.coin();
  std::unique_ptr<trace_sdk::Sampler> sampler;
  if (via_parent_based)
    sampler.reset(new trace_sdk::ParentBasedSampler(rec));
  else
    sampler.reset(new FwdSampler(rec));
  auto *gen = new ScriptedIds;
  trace_sdk::TracerProvider provider(std::unique_ptr<trace_sdk::SpanProcessor>(new NullProcessor), the_resource(),
                                     std::move(sampler), std::unique_ptr<trace_sdk::IdGenerator>(gen));
  auto tracer = provider.GetTracer("c12-delegate");
  for (size_t j = 0; j < spans; ++j)
  {
    gen->next = rs.ids[r.below(rs.ids.size())].id;
    if (!gen->next.IsValid())
      continue;
    int calls0 = rec->calls;
    auto span  = tracer->StartSpan("root");
    auto sc    = span->GetContext();
    std::string cls = dkind + (via_parent_based ? "-via-parent-based" : "");
    count("tracer_delegate_root_spans");
    count(("tracer_delegate_root_" + std::string(decision_name(rec->last_decision))).c_str());
    if (rec->calls != calls0 + 1)
    {
      R.violation("parent-invalid-delegates-once", "tracer-root-span-" + cls,
                  "sampler consulted " + std::to_string(rec->calls - calls0) + " time(s) for a root span");
      span->End();
      continue;
    }
    bool want = rec->last_decision == Decision::RECORD_AND_SAMPLE;
    if (sc.IsSampled() != want)
      R.violation("tracer-root-follows-sampler", cls,
                  "sampler decided " + std::string(decision_name(rec->last_decision)) + " for trace id " + id_hex(sc.trace_id()) +
                      ", started span has sampled=" + (sc.IsSampled() ? "1" : "0"));
    if (!via_parent_based)
    {
      // Not parent-based: the sampler alone decides, also for a span with a valid parent - sampled or not, remote
      // or local, any flags byte (always-on stays constant, the ratio decides on the parent's trace id, a scripted
      // delegate is obeyed).  Added after the seeded change C12-w4-1 (a Tracer fast path drops children of
      // unsampled parents without asking the sampler).
      const trace_api::TraceId &pid = rs.ids[r.below(rs.ids.size())].id;
      Parent p                      = gen_parent(r, pid, 1);
      if (p.model_valid)
      {
        trace_api::StartSpanOptions co;
        co.parent  = p.ctx;
        int calls1 = rec->calls;
        auto child = tracer->StartSpan("child-of-foreign-parent", co);
        auto cc    = child->GetContext();
        count("tracer_nonparentbased_children");
        count(p.sampled ? "tracer_nonparentbased_children_of_sampled" : "tracer_nonparentbased_children_of_unsampled");
        std::string ccls = dkind + (p.sampled ? ":parent-sampled" : ":parent-unsampled");
        if (rec->calls != calls1 + 1)
          R.violation("sampler-decides-for-children", ccls,
                      "sampler consulted " + std::to_string(rec->calls - calls1) + " time(s) for a child of a valid parent (flags " +
                          std::to_string(p.flags) + ")");
        else
        {
          bool cwant = rec->last_decision == Decision::RECORD_AND_SAMPLE;
          if (cc.IsSampled() != cwant)
            R.violation("sampler-decides-for-children", ccls,
                        "sampler decided " + std::string(decision_name(rec->last_decision)) + ", child of parent flags=" +
                            std::to_string(p.flags) + " has sampled=" + (cc.IsSampled() ? "1" : "0"));
        }
        bool twin_known = dkind == "always-on" || dkind == "always-off" || dkind == "ratio";
        if (twin_known)
        {
          bool twant = dkind == "always-on";
          if (dkind == "ratio")
          {
            trace_sdk::TraceIdRatioBasedSampler twin(ratio);
            twant = ask(twin, cc.trace_id()) == Decision::RECORD_AND_SAMPLE;
          }
          if (cc.IsSampled() != twant)
            R.violation("sampler-decides-for-children", ccls + "-twin",
                        dkind + " (ratio " + dbl(ratio) + ") decides " + (twant ? "sample" : "drop") + " for trace id " +
                            id_hex(cc.trace_id()) + ", child of parent flags=" + std::to_string(p.flags) + " has sampled=" +
                            (cc.IsSampled() ? "1" : "0"));
        }
        child->End();
      }
    }
    if (via_parent_based)
    {
      // a local child: explicit parent context, or the span made active on this thread
      int calls1 = rec->calls;
      nostd::shared_ptr<trace_api::Span> child;
      bool by_scope = r.coin();
      if (by_scope)
      {
        trace_api::Scope scope(span);
        child = tracer->StartSpan("child");
      }
      else
      {
        trace_api::StartSpanOptions co;
        co.parent = sc;
        child     = tracer->StartSpan("child", co);
      }
      auto cc = child->GetContext();
      count("tracer_delegate_child_spans");
      std::string ccls = std::string("local-") + (want ? "sampled" : "unsampled") + "-" + decision_name(rec->last_decision);
      if (cc.IsSampled() != want)
        R.violation("tracer-child-follows-parent", ccls,
                    std::string("local child (") + (by_scope ? "active span" : "explicit parent") + ") of a root the sampler decided " +
                        decision_name(rec->last_decision) + " has sampled=" + (cc.IsSampled() ? "1" : "0"));
      if (cc.trace_id() != sc.trace_id())
        R.violation("tracer-child-follows-parent", ccls + "-trace-id", "child is in another trace than its parent");
      if (rec->calls != calls1)
        R.violation("parent-valid-no-delegate", "tracer-" + ccls, "root sampler consulted for a span with a valid local parent");
      child->End();
    }
    span->End();
  }
}

int main(int argc, char **argv)
{
  auto &R = vf::report();
  R.init("C12", argc, argv);
  opentelemetry::sdk::common::internal_log::GlobalLogHandler::SetLogHandler(
      nostd::shared_ptr<opentelemetry::sdk::common::internal_log::LogHandler>(new SilentLog));
  size_t nids          = static_cast<size_t>(R.opt.param("ids", R.opt.thorough ? 500 : 200));
  size_t parent_trials = static_cast<size_t>(R.opt.param("parent_trials", 24));
  size_t tracer_spans  = static_cast<size_t>(R.opt.param("tracer_spans", 6));
  R.run_cases([&](uint64_t i) {
    Rng r(R.case_seed(i));
    uint64_t chash = 0;
    RatioSet rs;
    ratio_part(r, rs, nids, &chash);
    parent_part(r, rs, parent_trials, &chash);
    tracer_part(r, rs, tracer_spans);
    tracer_delegate_part(r, rs, tracer_spans);
    R.nontrivial(chash);
    count.flush();
  });
  return R.finish();
}
