// C06 — counter measurements are conserved across readers, temporalities and threads.
//
// mode=seq  (asan): generated histories of {create instrument, create the same instrument again,
//           Add(value, attrs), destroy a handle, Collect by reader r} run in lock-step against the
//           metrics reference model M (vf_metrics_model.h): per stream and per filtered attribute map
//           the list of (logical time, value), per reader a cursor.  Every collection is compared:
//           delta points == everything since that reader's cursor, cumulative points == everything
//           since start, delta intervals abut, cumulative intervals start at the one SDK start.
//           Every ~8th history is a directed "starved reader" history (>= 2 readers; one reader collects
//           34..60 times in a row with Adds in between while the others do not collect; then they do).
//           Three histories in ten hold a pair of DIFFERENT instruments with the same name in one meter
//           (same type and value type; different unit, or different description): two streams, told
//           apart by MetricData::instrument_descriptor (name_, unit_, description_).
// mode=conc (tsan + perturbation shim): recorder threads race collector threads (one per reader);
//           per reader, the sum of all its delta points / its last cumulative point after a final
//           quiescent collect == the sum recorded; while in flight every running total lies between
//           "Adds completed before the Collect was called" and "Adds started before it returned".
//
// Violation keys: <assertion>/<class>, the class is computed from the *configuration* of the
// history (never from the outcome):
//   single-reader-fastpath | single-reader-cumulative | multi-reader-delta | multi-reader-cumulative
//   second-handle | second-view-stream | second-handle+second-view-stream
//   same-name-different-unit | same-name-different-description   (both instruments of the pair created)
//   each followed by ":starved-reader" for a reader that a starved-reader history keeps from collecting
#include <thread>

#include "opentelemetry/context/context.h"
#include "opentelemetry/metrics/meter.h"
#include "opentelemetry/metrics/sync_instruments.h"
#include "opentelemetry/sdk/metrics/meter_context.h"
#include "opentelemetry/sdk/metrics/meter_provider.h"
#include "opentelemetry/sdk/metrics/view/attributes_processor.h"
#include "opentelemetry/sdk/metrics/view/instrument_selector.h"
#include "opentelemetry/sdk/metrics/view/meter_selector.h"
#include "opentelemetry/sdk/metrics/view/view.h"
#include "opentelemetry/sdk/metrics/view/view_registry.h"
#include "opentelemetry/sdk/resource/resource.h"

#include "vf_metrics_model.h"
#ifdef OTEL_VERIF_SHIM
#  include "vf_runtime.h"
#endif

namespace mapi = opentelemetry::metrics;
using namespace vfm;
using vf::Rng;

enum Kind
{
  kCounter = 0,
  kUpDown  = 1
};

struct ReaderCfg
{
  bool delta[2];  // per Kind
};
struct ViewCfg
{
  int kind;
  std::string inst_name;
  int meter;  // -1: any meter
  std::string new_name;
  bool filter;
  std::set<std::string> allowed;
  bool drop = false;  // Drop aggregation: the view matches (so no default stream) but its stream reports nothing
};
struct InstCfg
{
  int meter;
  int kind;
  bool dbl;
  ValueClass vc;
  std::string name, unit, desc;
  int twin      = -1;  // the other instrument of a same-name pair in the same meter
  int twin_kind = 0;   // 1: the pair differs in the unit, 2: in the description
};
struct Stream
{
  int inst;
  int view;  // -1: default view
  std::string scope, name;
  std::string unit, desc;  // of the instrument (no view of this harness changes them)
  bool filter;
  std::set<std::string> allowed;
  StreamLog log;
};
struct MeterCfg
{
  std::string name, version, schema;
  std::string id() const { return scope_id(name, version, schema); }
};

static msdk::InstrumentType itype(int kind)
{
  return kind == kCounter ? msdk::InstrumentType::kCounter : msdk::InstrumentType::kUpDownCounter;
}

// one instrument handle (exactly one of the four pointers is set)
struct Handle
{
  int inst   = -1;
  bool alive = false;
  nostd::unique_ptr<mapi::Counter<uint64_t>> cu;
  nostd::unique_ptr<mapi::Counter<double>> cd;
  nostd::unique_ptr<mapi::UpDownCounter<int64_t>> ui;
  nostd::unique_ptr<mapi::UpDownCounter<double>> ud;
  void destroy()
  {
    cu.reset();
    cd.reset();
    ui.reset();
    ud.reset();
    alive = false;
  }
};

// mode: 0 Add(v)  1 Add(v,ctx)  2 Add(v,kv)  3 Add(v,kv,ctx)  4 Add(v, container of pairs)
template <class I, class T>
static void add_via(I &ins, T v, const AttrMap &attrs, int mode, Rng &r)
{
  opentelemetry::context::Context ctx{};
  if (mode == 0)
  {
    ins.Add(v);
    return;
  }
  if (mode == 1)
  {
    ins.Add(v, ctx);
    return;
  }
  AttrArg a(attrs, r);
  const common::KeyValueIterable &kv = a;
  if (mode == 2)
    ins.Add(v, kv);
  else if (mode == 3)
    ins.Add(v, kv, ctx);
  else
  {
    auto p = a.pairs();
    ins.Add(v, p);
  }
  a.kill(r.coin());  // scribble or free every caller buffer right after the call
}

static void handle_add(Handle &h, const InstCfg &ic, const Val &v, const AttrMap &attrs, int mode, Rng &r)
{
  if (ic.kind == kCounter && !ic.dbl)
    add_via(*h.cu, static_cast<uint64_t>(v.fx), attrs, mode, r);
  else if (ic.kind == kCounter)
    add_via(*h.cd, v.as_double(ic.vc), attrs, mode, r);
  else if (!ic.dbl)
    add_via(*h.ui, static_cast<int64_t>(v.fx), attrs, mode, r);
  else
    add_via(*h.ud, v.as_double(ic.vc), attrs, mode, r);
}

// ---------------------------------------------------------------------------------------------
// configuration + SDK objects + model streams
// ---------------------------------------------------------------------------------------------
struct World
{
  std::vector<ReaderCfg> rcfg;
  std::vector<MeterCfg> meters;
  std::vector<ViewCfg> views;
  std::vector<InstCfg> insts;
  std::vector<AttrMap> pool;
  std::vector<Stream> streams;
  std::vector<std::vector<int>> inst_streams;
  std::vector<int> handles_created;
  typedef std::tuple<std::string, std::string, std::string, std::string> StreamKey;
  std::map<StreamKey, int> stream_index;   // (scope, stream name, unit, description) -> stream
  std::map<std::string, int> meter_index;  // scope id -> meter
  std::vector<bool> starved;               // [reader]: kept from collecting during the burst of a starved-reader history

  // the model stream a MetricData belongs to: streams are identified by scope and by the name, unit
  // and description in the MetricData's instrument descriptor; -1: nothing produces such a stream
  int find_stream(const GotMetric &g) const
  {
    auto it = stream_index.find(StreamKey(g.scope, g.name, g.unit, g.description));
    return it == stream_index.end() ? -1 : it->second;
  }

  std::unique_ptr<msdk::MeterProvider> provider;
  std::vector<std::shared_ptr<PullReader>> readers;
  std::vector<nostd::shared_ptr<mapi::Meter>> meter_objs;
  int64_t ctor_before = 0, ctor_after = 0;

  // rx (sequential mode only): second stream for the directed classes.  multi_reader: at least two
  // readers; twin_kind 1|2: add a same-name instrument that differs in the unit | the description.
  void generate(Rng &r, bool conc, Rng *rx = nullptr, bool multi_reader = false, int twin_kind = 0)
  {
    // readers
    size_t nreaders = r.chance(35, 100) ? 1 : static_cast<size_t>(r.range(2, conc ? 3 : 4));
    if (multi_reader && nreaders == 1)
      nreaders = static_cast<size_t>(rx->range(2, 4));
    starved.assign(nreaders, false);
    for (size_t i = 0; i < nreaders; ++i)
    {
      ReaderCfg c;
      bool d      = nreaders == 1 ? r.chance(7, 10) : r.coin();
      c.delta[0]  = d;
      c.delta[1]  = d;
      if (r.chance(1, 6))
        c.delta[r.below(2)] = !d;  // e.g. delta for counters, cumulative for up-down counters
      rcfg.push_back(c);
    }
    // meters
    size_t nmeters = r.chance(1, 2) ? 1 : static_cast<size_t>(r.range(2, 3));
    for (size_t i = 0; i < nmeters; ++i)
    {
      MeterCfg m;
      m.name = "meter" + std::to_string(i);
      if (r.chance(1, 3))
        m.version = "1." + std::to_string(i);
      if (r.chance(1, 4))
        m.schema = "https://example.test/schema/" + std::to_string(i);
      meters.push_back(m);
    }
    // instruments: names unique inside a meter, may repeat across meters
    static const char *names[] = {"reqs", "bytes_sent", "q_depth", "x", "load.avg"};
    size_t ninst               = static_cast<size_t>(r.range(1, conc ? 2 : 4));
    for (size_t i = 0; i < ninst; ++i)
    {
      InstCfg ic;
      ic.meter = static_cast<int>(r.below(nmeters));
      ic.kind  = r.coin() ? kCounter : kUpDown;
      ic.dbl   = r.coin();
      ic.vc    = !ic.dbl ? kIntClass : ((!conc && r.chance(1, 4)) ? kTolDouble : kExactDouble);
      for (int tries = 0; tries < 50; ++tries)
      {
        ic.name    = names[r.below(5)];
        bool taken = false;
        for (auto &o : insts)
          taken |= o.meter == ic.meter && o.name == ic.name;
        if (!taken)
          break;
        ic.name.clear();
      }
      if (ic.name.empty())
        ic.name = "inst" + std::to_string(i);
      static const char *units[] = {"", "By", "1", "{req}"};
      ic.unit                    = units[r.below(4)];
      ic.desc                    = r.coin() ? "" : "number of things";
      insts.push_back(ic);
    }
    // views: rename, attribute filter, second stream for the same instrument
    static const char *keys[] = {"k1", "k2", "host", "a"};
    size_t nviews             = r.chance(1, 3) ? 0 : static_cast<size_t>(r.range(1, 3));
    bool multi                = nviews >= 2 && r.chance(7, 10);
    int multi_target          = static_cast<int>(r.below(ninst));
    std::set<int> unrenamed;  // targets that already have a view keeping the instrument's name
    for (size_t j = 0; j < nviews; ++j)
    {
      ViewCfg v;
      int t       = (multi && j < 2) ? multi_target : static_cast<int>(r.below(ninst));
      v.kind      = insts[t].kind;
      v.inst_name = insts[t].name;
      v.meter     = r.chance(1, 3) ? -1 : insts[t].meter;
      v.filter    = r.chance(2, 5);
      if (v.filter)
        for (auto *k : keys)
          if (r.chance(2, 5))
            v.allowed.insert(k);
      // at most one stream of an instrument may keep its name: stream names identify streams.  A view
      // that selects "any meter" can match same-named instruments elsewhere, so it always renames.
      bool keep = r.chance(1, 3) && v.meter != -1 && !unrenamed.count(t);
      for (auto &o : views)
        if (o.new_name.empty() && o.inst_name == v.inst_name && o.kind == v.kind)
          keep = false;
      if (keep)
        unrenamed.insert(t);
      else
        v.new_name = "v" + std::to_string(j) + "_" + insts[t].name;
      // a Drop view among the views of an instrument (from seeded change C06-w6-2): it configures no stream of
      // its own, and every other view stream of the instrument must still see every measurement
      if (r.chance(1, 6))
      {
        v.drop = true;
        if (v.new_name.empty())
        {
          unrenamed.erase(t);
          v.new_name = "v" + std::to_string(j) + "_" + insts[t].name;
        }
        v.new_name = "dropped_" + v.new_name;
      }
      views.push_back(v);
    }
    // a DIFFERENT instrument with the same name in the same meter: same type and value type, other
    // unit or other description.  Every view that selects the one by name selects the other too.
    if (twin_kind)
    {
      int t      = static_cast<int>(rx->below(ninst));
      InstCfg tw = insts[t];
      if (twin_kind == 1)
      {
        static const char *units[] = {"", "By", "1", "{req}", "ms"};
        do
          tw.unit = units[rx->below(5)];
        while (tw.unit == insts[t].unit);
      }
      else
      {
        static const char *descs[] = {"", "number of things", "number of other things"};
        do
          tw.desc = descs[rx->below(3)];
        while (tw.desc == insts[t].desc);
      }
      tw.twin            = t;
      tw.twin_kind       = twin_kind;
      insts[t].twin      = static_cast<int>(insts.size());
      insts[t].twin_kind = twin_kind;
      insts.push_back(tw);
    }
    // attribute pool (<= 6 distinct maps)
    size_t npool = static_cast<size_t>(r.range(1, conc ? 3 : 6));
    std::set<std::string> seen;
    static const std::string svals[] = {"", "a", "b", std::string("x\0y", 3), "\x80\xff", "a longer attribute value 0123456789"};
    for (size_t tries = 0; pool.size() < npool && tries < 40; ++tries)
    {
      AttrMap m;
      size_t nk = pool.empty() && r.coin() ? 0 : static_cast<size_t>(r.range(0, 3));
      for (size_t k = 0; k < nk; ++k)
      {
        std::string key = keys[r.below(4)];
        switch (r.below(5))
        {
          case 0:
            m[key] = AV::i64(r.coin() ? 1 : r.range(-3, 3));
            break;
          case 1:
            m[key] = AV::boolean(r.coin());
            break;
          case 2:
            m[key] = AV::dbl(r.coin() ? 1.0 : 0.5 * static_cast<double>(r.range(-4, 4)));
            break;
          default:
            m[key] = AV::str(svals[r.below(6)]);
        }
      }
      if (seen.insert(canon(m)).second)
        pool.push_back(m);
    }
    // model streams: which views select which instrument (independent of the SDK's registry)
    inst_streams.resize(insts.size());
    handles_created.assign(insts.size(), 0);
    for (size_t i = 0; i < insts.size(); ++i)
    {
      auto &ic = insts[i];
      std::vector<int> matched;
      for (size_t j = 0; j < views.size(); ++j)
        if (views[j].kind == ic.kind && views[j].inst_name == ic.name && (views[j].meter == -1 || views[j].meter == ic.meter))
          matched.push_back(static_cast<int>(j));
      if (matched.empty())
        matched.push_back(-1);
      for (int j : matched)
      {
        if (j >= 0 && views[j].drop)
          continue;  // matched, hence no default stream, but nothing is reported for it
        Stream s;
        s.inst   = static_cast<int>(i);
        s.view   = j;
        s.scope  = meters[ic.meter].id();
        s.name   = (j < 0 || views[j].new_name.empty()) ? ic.name : views[j].new_name;
        s.unit   = ic.unit;
        s.desc   = ic.desc;
        s.filter = j >= 0 && views[j].filter;
        if (s.filter)
          s.allowed = views[j].allowed;
        inst_streams[i].push_back(static_cast<int>(streams.size()));
        if (!stream_index.emplace(StreamKey(s.scope, s.name, s.unit, s.desc), static_cast<int>(streams.size())).second)
        {
          fprintf(stderr, "generator bug: ambiguous stream name %s\n", s.name.c_str());
          abort();
        }
        streams.push_back(std::move(s));
      }
    }
    for (size_t i = 0; i < meters.size(); ++i)
      meter_index[meters[i].id()] = static_cast<int>(i);
  }

  void build()
  {
    std::unique_ptr<msdk::ViewRegistry> vr(new msdk::ViewRegistry());
    ctor_before = now_ns();
    std::unique_ptr<msdk::MeterContext> ctx(
        new msdk::MeterContext(std::move(vr), opentelemetry::sdk::resource::Resource::GetEmpty()));
    ctor_after = now_ns();
    provider.reset(new msdk::MeterProvider(std::move(ctx)));
    for (auto &rc : rcfg)
    {
      auto rd = std::make_shared<PullReader>(msdk::AggregationTemporality::kCumulative);
      for (int k = 0; k < 2; ++k)
        rd->set(itype(k), rc.delta[k] ? msdk::AggregationTemporality::kDelta : msdk::AggregationTemporality::kCumulative);
      readers.push_back(rd);
      provider->AddMetricReader(rd);
    }
    for (auto &v : views)
    {
      std::unique_ptr<msdk::InstrumentSelector> is(new msdk::InstrumentSelector(itype(v.kind), v.inst_name, ""));
      std::unique_ptr<msdk::MeterSelector> ms(new msdk::MeterSelector(v.meter < 0 ? "" : meters[v.meter].name, "", ""));
      std::unique_ptr<msdk::AttributesProcessor> ap;
      if (v.filter)
      {
        std::unordered_map<std::string, bool> allow;
        for (auto &k : v.allowed)
          allow[k] = true;
        ap.reset(new msdk::FilteringAttributesProcessor(allow));
      }
      else
        ap.reset(new msdk::DefaultAttributesProcessor());
      std::unique_ptr<msdk::View> view(new msdk::View(
          v.new_name, "", "", v.drop ? msdk::AggregationType::kDrop : msdk::AggregationType::kDefault, nullptr, std::move(ap)));
      if (v.drop)
        vf::report().count("drop_views");
      provider->AddView(std::move(is), std::move(ms), std::move(view));
    }
    for (auto &m : meters)
      meter_objs.push_back(provider->GetMeter(m.name, m.version, m.schema));
  }

  // Create(…) with the same arguments every time it is called for instrument i.  The strings live in
  // exact-size+NUL heap copies that are freed right after the call.
  void create(int i, Handle &h)
  {
    auto &ic   = insts[i];
    auto &m    = *meter_objs[ic.meter];
    auto dup   = [](const std::string &s) {
      char *p = static_cast<char *>(malloc(s.size() + 1));
      memcpy(p, s.data(), s.size());
      p[s.size()] = '\0';
      return p;
    };
    char *n = dup(ic.name), *d = dup(ic.desc), *u = dup(ic.unit);
    nostd::string_view nv(n, ic.name.size()), dv(d, ic.desc.size()), uv(u, ic.unit.size());
    h.inst  = i;
    h.alive = true;
    if (ic.kind == kCounter && !ic.dbl)
      h.cu = m.CreateUInt64Counter(nv, dv, uv);
    else if (ic.kind == kCounter)
      h.cd = m.CreateDoubleCounter(nv, dv, uv);
    else if (!ic.dbl)
      h.ui = m.CreateInt64UpDownCounter(nv, dv, uv);
    else
      h.ud = m.CreateDoubleUpDownCounter(nv, dv, uv);
    free(n);
    free(d);
    free(u);
  }

  bool is_delta(size_t reader, int inst) const { return rcfg[reader].delta[insts[inst].kind]; }

  // canonical input class, from the configuration only
  std::string cfg_class(size_t reader, int inst, bool for_abutting) const
  {
    (void)for_abutting;  // one class for value and time-stamp assertions: features first, then readers
    return base_class(reader, inst) + (starved[reader] ? ":starved-reader" : "");
  }
  std::string base_class(size_t reader, int inst) const
  {
    bool delta = is_delta(reader, inst);
    bool fast  = rcfg.size() == 1 && delta;
    bool h2 = handles_created[inst] >= 2, v2 = inst_streams[inst].size() >= 2;
    // the rarest feature first: a same-name pair of which both instruments exist
    if (insts[inst].twin >= 0 && handles_created[inst] > 0 && handles_created[insts[inst].twin] > 0)
      return insts[inst].twin_kind == 1 ? "same-name-different-unit" : "same-name-different-description";
    if (h2 && v2)
      return "second-handle+second-view-stream";
    if (h2)
      return "second-handle";
    if (v2)
      return "second-view-stream";
    if (fast)
      return "single-reader-fastpath";
    return std::string(rcfg.size() == 1 ? "single-reader-" : "multi-reader-") + (delta ? "delta" : "cumulative");
  }

  std::string describe() const
  {
    std::string s = "readers[";
    for (size_t i = 0; i < rcfg.size(); ++i)
      s += std::string(rcfg[i].delta[0] ? "D" : "C") + (rcfg[i].delta[1] ? "D" : "C") + (starved[i] ? "*starved " : " ");
    s += "] meters=" + std::to_string(meters.size()) + " views[";
    for (auto &v : views)
      s += v.inst_name + "@" + (v.meter < 0 ? std::string("*") : std::to_string(v.meter)) + "->" +
           (v.new_name.empty() ? "=" : v.new_name) + (v.filter ? "/filter" + std::to_string(v.allowed.size()) : "") + " ";
    s += "] insts[";
    for (size_t i = 0; i < insts.size(); ++i)
      s += std::to_string(i) + ":" + insts[i].name + "@" + std::to_string(insts[i].meter) + (insts[i].kind == kCounter ? ":ctr:" : ":updown:") +
           class_name(insts[i].vc) + ":streams=" + std::to_string(inst_streams[i].size()) +
           (insts[i].twin >= 0 ? ":unit='" + insts[i].unit + "':desc='" + insts[i].desc + "':same-name-as=" + std::to_string(insts[i].twin) : "") + " ";
    return s + "] pool=" + std::to_string(pool.size());
  }
};

// a value of the instrument's class; `neg_ignored` is set when the instrument is monotonic and the
// value negative (ignored by specification; the model ignores it too)
static Val gen_value(Rng &r, const InstCfg &ic, bool conc, bool *neg_ignored)
{
  Val v;
  *neg_ignored = false;
  bool neg     = false;
  if (ic.kind == kUpDown)
    neg = r.chance(2, 5);
  else if (ic.dbl)
    neg = r.chance(1, 12);  // Counter<double>::Add(negative): dropped
  int64_t big = conc ? (int64_t(1) << 20) : (int64_t(1) << 40);
  if (ic.vc == kIntClass)
  {
    switch (r.below(5))
    {
      case 0:
        v.fx = 0;
        break;
      case 1:
        v.fx = 1;
        break;
      case 2:
        v.fx = r.range(2, 100);
        break;
      default:
        v.fx = static_cast<int64_t>(r.below(static_cast<uint64_t>(big)));
    }
    if (neg)
      v.fx = -v.fx;
  }
  else if (ic.vc == kExactDouble)
  {
    // multiples of 2^-10 below 2^30 (2^20 in the concurrent variant): every partial sum < 2^40
    int64_t lim = conc ? (int64_t(1) << 30) : (int64_t(1) << 40);
    switch (r.below(5))
    {
      case 0:
        v.fx = 0;
        break;
      case 1:
        v.fx = 1024;  // 1.0
        break;
      case 2:
        v.fx = r.range(1, 4096);  // small fractions
        break;
      default:
        v.fx = static_cast<int64_t>(r.below(static_cast<uint64_t>(lim)));
    }
    if (neg)
      v.fx = -v.fx;
  }
  else
  {
    static const double scales[] = {1e-6, 1e-3, 0.1, 1.0, 3.0, 1e3, 1e6, 1e9, 1e12};
    v.d = r.unit() * scales[r.below(9)];
    if (r.chance(1, 10))
      v.d = 0.0;
    if (neg)
      v.d = -v.d;
  }
  double dv = v.as_double(ic.vc);
  if (ic.kind == kCounter && dv < 0)
    *neg_ignored = true;
  return v;
}

static Got sum_points(const std::vector<Got> &pts)
{
  Got g = pts[0];
  for (size_t i = 1; i < pts.size(); ++i)
  {
    if (g.is_int && pts[i].is_int)
      g.i += pts[i].i;
    else
    {
      g.d      = g.as_double() + pts[i].as_double();
      g.is_int = false;
    }
  }
  return g;
}

// ---------------------------------------------------------------------------------------------
// sequential histories
// ---------------------------------------------------------------------------------------------
struct CollRec
{
  int64_t before = 0, after = 0;
  std::map<int, int64_t> exact;  // meter -> that meter's collection time stamp, when a MetricData showed it
};
struct AttrState
{
  bool has_prev    = false;
  int64_t prev_end = 0;
  size_t prev_coll = 0;
  Acc drift;  // cumulative: (got - want) carried after a reported mismatch, so a loss is reported once
  bool absent_reported = false;
};
struct ReaderState
{
  std::vector<CollRec> colls;
  uint64_t cursor = 0;
  std::map<std::pair<int, std::string>, AttrState> attr;
  // per stream: the chain of delta intervals handed to this reader (every MetricData, with or without points)
  struct Chain
  {
    bool has = false, off = false;
    int64_t prev_end = 0;
  };
  std::map<int, Chain> chain;
};

struct SeqCase
{
  vf::Report &R = vf::report();
  Rng r;
  Rng rx;  // second stream: the directed history classes
  World w;
  std::vector<Handle> handles;
  std::vector<ReaderState> rs;
  bool starved_hist = false;  // one reader collects 34..60 times in a row while the others do not
  int twin_kind     = 0;      // 1|2: the configuration holds a same-name pair differing in unit|description
  std::vector<int> create_order;  // instruments are created in this order (a same-name pair first)
  size_t created = 0;
  bool want_second = false;
  bool in_starved_collect = false, starved_judged = false;
  bool twin_pair_recorded = false, twin_pair_collected = false;
  uint64_t lt = 0;
  bool sdk_start_known = false;
  int64_t sdk_start    = 0;
  std::string trace;
  uint64_t chash = 0;
  size_t adds = 0, collects_after_add = 0, witnesses = 0;
  std::vector<bool> inst_added_via_second, inst_collected_after_second, inst_added, inst_recorded;
  bool fastpath_pair_checked = false, multiview_checked = false, second_handle_checked = false;

  explicit SeqCase(uint64_t seed) : r(seed), rx(vf::mix(seed, 0x06d17ec7)), starved_hist(vf::mix(seed, 0x57a17ed) % 8 == 0)
  {
    uint64_t t = vf::mix(seed, 0x7317) % 10;
    twin_kind  = t < 2 ? 1 : (t == 2 ? 2 : 0);
  }

  void note(const std::string &s)
  {
    if (trace.size() < 1500)
      trace += s + " ";
    chash = vf::mix(chash, vf::fnv1a(s));
  }

  std::string witness(const std::string &what)
  {
    ++witnesses;
    if (witnesses > 4)
      return what;  // the first witnesses of a case carry the whole history
    return what + " || config: " + w.describe() + " || history: " + trace;
  }

  bool is_sdk_start(int64_t x)
  {
    if (sdk_start_known)
      return x == sdk_start;
    if (x >= w.ctor_before && x <= w.ctor_after)
    {
      sdk_start_known = true;
      sdk_start       = x;
      return true;
    }
    return false;
  }

  void op_create(int i)
  {
    handles.emplace_back();
    w.create(i, handles.back());
    ++w.handles_created[i];
    ++lt;
    note("create(" + std::to_string(i) + ")#" + std::to_string(w.handles_created[i]));
    R.count(w.handles_created[i] == 1 ? "op_create" : "op_create_second_handle");
  }

  void op_add(size_t hidx)
  {
    Handle &h  = handles[hidx];
    auto &ic   = w.insts[h.inst];
    bool ign   = false;
    Val v      = gen_value(r, ic, false, &ign);
    size_t ai  = static_cast<size_t>(r.below(w.pool.size()));
    const AttrMap &attrs = w.pool[ai];
    int mode   = attrs.empty() ? static_cast<int>(r.below(5)) : static_cast<int>(r.range(2, 4));
    handle_add(h, ic, v, attrs, mode, r);
    ++lt;
    ++adds;
    R.count("op_add");
    R.count(std::string("op_add_") + class_name(ic.vc));
    if (mode < 2)
      R.count("op_add_without_attributes");
    // which handle of the instrument was used (the first created is number 0)
    size_t nth = 0;
    for (size_t k = 0; k < hidx; ++k)
      if (handles[k].inst == h.inst)
        ++nth;
    if (nth > 0)
      inst_added_via_second[h.inst] = true;
    else if (w.handles_created[h.inst] >= 2)
      R.count("op_add_first_handle_after_second_created");
    inst_added[h.inst] = true;
    char b[64];
    snprintf(b, sizeof b, "%.17g", v.as_double(ic.vc));
    note("add(h" + std::to_string(hidx) + ",i" + std::to_string(h.inst) + "," + b + ",a" + std::to_string(ai) + ",m" + std::to_string(mode) + ")");
    if (ign)
    {
      R.count("negative_add_monotonic_ignored");
      return;  // ignored by specification: not a measurement
    }
    for (int si : w.inst_streams[h.inst])
    {
      Stream &s = w.streams[si];
      s.log.record(lt, filtered(attrs, s.filter, s.allowed), v);
    }
    inst_recorded[h.inst] = true;
    if (ic.twin >= 0 && inst_recorded[ic.twin])
      twin_pair_recorded = true;
  }

  void op_collect(size_t ri)
  {
    ReaderState &st = rs[ri];
    CollRec cr;
    cr.before = now_ns();
    bool ok   = false;
    auto got  = w.readers[ri]->collect(&ok);
    cr.after  = now_ns();
    ++lt;
    note("collect(r" + std::to_string(ri) + ")");
    R.count("op_collect");
    if (adds)
      ++collects_after_add;
    if (!ok)
      R.count("collect_returned_false");  // the statement does not speak about Collect's return value
    std::map<int, std::vector<const GotMetric *>> by_stream;
    for (auto &g : got)
    {
      auto mi = w.meter_index.find(g.scope);
      if (mi != w.meter_index.end() && !cr.exact.count(mi->second))
        cr.exact[mi->second] = g.end_ns;
      int si = w.find_stream(g);
      if (si < 0 && g.name.rfind("dropped_", 0) == 0)
      {
        R.count("drop_view_stream_handed_out_dontcare");  // how a Drop stream shows up (if at all) is not stated
        continue;
      }
      if (si < 0 || w.handles_created[w.streams[si].inst] == 0)
      {
        // same name as a model stream but another unit/description: its own class
        bool name_known = false;
        for (auto &ms : w.streams)
          name_known |= ms.scope == g.scope && ms.name == g.name && w.handles_created[ms.inst] > 0;
        R.violation("unexpected-stream", name_known ? "sequential:known-name-other-unit-or-description" : "sequential",
                    witness("reader " + std::to_string(ri) + " was given stream " + g.scope + "/" + g.name + " unit '" + g.unit + "' description '" + g.description +
                            "' which no created instrument/view produces"));
        continue;
      }
      by_stream[si].push_back(&g);
    }
    if (twin_pair_recorded)
      twin_pair_collected = true;
    for (size_t si = 0; si < w.streams.size(); ++si)
    {
      if (w.handles_created[w.streams[si].inst] == 0)
        continue;
      static const std::vector<const GotMetric *> none;
      auto it = by_stream.find(static_cast<int>(si));
      check_stream(ri, static_cast<int>(si), it == by_stream.end() ? none : it->second, cr);
    }
    st.cursor = lt;
    st.colls.push_back(cr);
  }

  void check_stream(size_t ri, int si, const std::vector<const GotMetric *> &gm, const CollRec &cr)
  {
    ReaderState &st = rs[ri];
    Stream &S       = w.streams[si];
    auto &ic        = w.insts[S.inst];
    ValueClass vc   = ic.vc;
    bool delta      = w.is_delta(ri, S.inst);
    std::string cls_v = w.cfg_class(ri, S.inst, false), cls_t = w.cfg_class(ri, S.inst, true);
    std::string where = "reader " + std::to_string(ri) + (delta ? "(delta)" : "(cumulative)") + " stream " + S.scope + "/" + S.name +
                        (ic.twin >= 0 ? " [unit '" + S.unit + "' description '" + S.desc + "']" : "") + " ";

    std::map<std::string, std::vector<Got>> gp;
    bool wrong_kind = false;
    for (auto *g : gm)
      for (auto &p : g->points)
      {
        if (p.kind != 0)
          wrong_kind = true;
        else
          gp[p.attrs].push_back(p.v);
      }
    if (wrong_kind)
      R.violation("conserved", cls_v, witness(where + "carries a point that is not a sum point"));
    if (gm.size() > 1)
      R.count("stream_in_several_metricdata");

    // ---- values: every series of the model
    bool reported = false;
    for (auto &se : S.log.series)
    {
      const std::string &attr = se.first;
      Acc want                = delta ? se.second.since(vc, st.cursor) : se.second.all(vc);
      AttrState &as           = st.attr[std::make_pair(si, attr)];
      auto gi                 = gp.find(attr);
      Got got;
      if (gi != gp.end())
      {
        if (delta)
          got = sum_points(gi->second);  // the text says the points "add up"
        else
        {
          got = gi->second[0];
          if (gi->second.size() > 1)
            R.violation("cumulative-single-point", cls_v, witness(where + "attrs " + show_canon(attr) + ": " + std::to_string(gi->second.size()) + " cumulative points for one attribute set in one collection"));
        }
      }
      bool okv;
      Acc want_adj = want;
      if (!delta)
        want_adj.add(as.drift);
      if (!got.present)
      {
        // delta: no point == nothing recorded in the interval (or a net zero).  cumulative: a set that
        // has measurements must be reported.
        okv = delta ? want.is_zero(vc) : (want.n == 0 || as.absent_reported);
        if (!delta && want.n != 0)
          as.absent_reported = true;
        if (okv && want.n)
          R.count(delta ? "delta_absent_for_net_zero" : "cumulative_absent_already_reported");
      }
      else
      {
        as.absent_reported = false;
        okv                = matches(vc, want_adj, got);
      }
      R.count(delta ? "points_checked_delta" : "points_checked_cumulative");
      if (in_starved_collect && se.second.since(vc, st.cursor).n > 0)
      {
        // a starved reader's first collection after the burst, for a set recorded during the burst
        R.count(delta ? "starved_reader_delta_points_checked" : "starved_reader_cumulative_points_checked");
        starved_judged = true;
      }
      if (got.present && want.n >= 2)
        R.count("points_summing_ge2_measurements");
      if (!okv)
      {
        if (!reported)
          R.violation("conserved", cls_v,
                      witness(where + "attrs " + show_canon(attr) + " class " + class_name(vc) + ": got " + show(got) + " want " + show(vc, want_adj) +
                              (delta ? " (everything since this reader's previous collection)" : " (running total since start)")));
        else
          R.count("conserved_further_series_same_collection");
        reported = true;
        if (!delta && got.present)
          as.drift = minus_got(vc, want, got);  // continue from the model: report a loss once
      }
    }
    // ---- series the model does not know: only a non-zero value is judged
    for (auto &g : gp)
      if (!S.log.series.count(g.first))
      {
        bool nz = false;
        for (auto &p : g.second)
          nz |= p.as_double() != 0;
        if (nz)
          R.violation("phantom-series", cls_v, witness(where + "attrs " + show_canon(g.first) + " never recorded, got " + show(g.second[0])));
        else
          R.count("zero_point_for_unrecorded_set_dontcare");
      }

    // ---- time stamps
    int meter = ic.meter;
    for (auto *g : gm)
    {
      R.count("metricdata_checked");
      if (!(g->end_ns >= cr.before && g->end_ns <= cr.after) || g->start_ns > g->end_ns)
        R.violation("interval-end-at-collection", cls_t,
                    witness(where + "interval [" + std::to_string(g->start_ns) + "," + std::to_string(g->end_ns) + "] but Collect ran in [" + std::to_string(cr.before) + "," + std::to_string(cr.after) + "]"));
      if (!delta)
      {
        R.count("cumulative_start_checked");
        if (!is_sdk_start(g->start_ns))
          R.violation("cumulative-start", cls_t,
                      witness(where + "start_ts " + std::to_string(g->start_ns) + " is not the SDK start " +
                              (sdk_start_known ? std::to_string(sdk_start) : "in [" + std::to_string(w.ctor_before) + "," + std::to_string(w.ctor_after) + "]")));
        continue;
      }
      if (g->points.empty())
        R.count("delta_metricdata_without_points");
      // Stream level: the intervals handed to a delta reader for one stream - each MetricData, with or without
      // points - abut strictly: the first starts at SDK start, every next one where the previous one ended.  (An
      // idle collection either hands out nothing and does not advance, or hands out an interval without points;
      // advancing silently leaves a stretch of time that no interval covers - seeded change C06-w6-1.)
      {
        ReaderState::Chain &ch = st.chain[si];
        if (gm.size() > 1)
          ch.off = true;  // one stream in several MetricData of one collection: no single chain to follow
        if (!ch.off)
        {
          bool okc = ch.has ? g->start_ns == ch.prev_end : is_sdk_start(g->start_ns);
          R.count(ch.has ? "delta_stream_chain_checked" : "delta_stream_chain_first_checked");
          if (!okc)
          {
            R.violation("delta-abutting", cls_t + ":stream-interval-chain",
                        witness(where + "interval [" + std::to_string(g->start_ns) + "," + std::to_string(g->end_ns) + "] " +
                                (ch.has ? "but the previous interval handed to this reader for the stream ended at " + std::to_string(ch.prev_end)
                                        : "is the first handed to this reader for the stream and does not start at the SDK start")));
            ch.off = true;
          }
          ch.has      = true;
          ch.prev_end = g->end_ns;
        }
      }
      std::set<std::string> attrs;
      for (auto &p : g->points)
        attrs.insert(p.attrs);
      bool rep = false;
      for (auto &a : attrs)
      {
        AttrState &as = st.attr[std::make_pair(si, a)];
        bool okst     = as.has_prev && g->start_ns == as.prev_end;
        const char *how = "previous-end";
        for (size_t k = as.has_prev ? as.prev_coll + 1 : 0; !okst && k < st.colls.size(); ++k)
        {
          auto &c = st.colls[k];
          auto e  = c.exact.find(meter);
          okst    = e != c.exact.end() ? g->start_ns == e->second : (g->start_ns >= c.before && g->start_ns <= c.after);
          how     = "later-empty-collection";
        }
        if (!okst && !as.has_prev)
        {
          okst = is_sdk_start(g->start_ns);
          how  = "sdk-start";
        }
        if (as.has_prev)
        {
          R.count("delta_abutting_checked");
          if (w.rcfg.size() == 1)
            fastpath_pair_checked = true;
        }
        else
          R.count("delta_first_point_checked");
        if (okst)
          R.count(std::string("delta_start_is_") + how);
        else if (!rep)
        {
          rep = true;
          R.violation("delta-abutting", cls_t,
                      witness(where + "attrs " + show_canon(a) + ": start_ts " + std::to_string(g->start_ns) +
                              (as.has_prev ? " but this reader's previous point for the set ended at " + std::to_string(as.prev_end) +
                                                 " and none of its " + std::to_string(st.colls.size() - as.prev_coll - 1) + " later collections happened at that time"
                                           : " is neither the SDK start nor the time of an earlier collection of this reader") +
                              (sdk_start_known && g->start_ns == sdk_start ? " (it is the SDK start again)" : "")));
        }
        as.has_prev  = true;
        as.prev_end  = g->end_ns;
        as.prev_coll = st.colls.size();
      }
    }
    if (!gm.empty())
    {
      if (w.inst_streams[S.inst].size() >= 2)
        multiview_checked = true;
      if (inst_added_via_second[S.inst])
        second_handle_checked = true;
    }
  }

  // one step of the random walk over {create, create the same instrument again, destroy a handle,
  // Add, Collect}
  void random_step()
  {
    unsigned c = static_cast<unsigned>(r.below(100));
    std::vector<size_t> alive;
    for (size_t k = 0; k < handles.size(); ++k)
      if (handles[k].alive)
        alive.push_back(k);
    // the second instrument of a same-name pair follows the first one soon
    unsigned create_below = (twin_kind && created == 1) ? 30u : 5u;
    if (created == 0 || (c < create_below && created < w.insts.size()))
    {
      op_create(create_order[created++]);
    }
    else if (c < (want_second ? 12u : 5u) && handles.size() < 12)
    {
      // the same instrument again: same name, description, unit, kind, type
      if (!want_second && !r.chance(1, 10))
        return;
      op_create(create_order[r.below(created)]);
    }
    else if (c < 14 && alive.size() > 1)
    {
      size_t k = alive[r.below(alive.size())];
      handles[k].destroy();
      ++lt;
      note("destroy(h" + std::to_string(k) + ")");
      R.count("op_destroy_handle");
    }
    else if (c < 75 && !alive.empty())
    {
      op_add(alive[r.below(alive.size())]);
    }
    else
    {
      op_collect(static_cast<size_t>(r.below(rs.size())));
    }
  }

  // directed history: a random prefix, then one reader collects 34..60 times in a row with 0..3 Adds
  // before each collection while the starved readers do not collect, then every starved reader
  // collects, then a random suffix.  Returns the number of steps.
  size_t run_starved()
  {
    size_t steps = 0;
    for (size_t k = static_cast<size_t>(rx.range(3, 25)); k > 0; --k, ++steps)
      random_step();
    size_t fast = 0;
    for (size_t i = 0; i < rs.size(); ++i)
      if (!w.starved[i])
        fast = i;
    size_t burst = static_cast<size_t>(rx.range(34, 60));
    for (size_t k = 0; k < burst; ++k, ++steps)
    {
      std::vector<size_t> alive;
      for (size_t h = 0; h < handles.size(); ++h)
        if (handles[h].alive)
          alive.push_back(h);
      for (size_t n = rx.chance(1, 10) ? 0 : static_cast<size_t>(rx.range(1, 3)); n > 0 && !alive.empty(); --n, ++steps)
        op_add(alive[r.below(alive.size())]);
      op_collect(fast);
    }
    R.maxi("max_collections_between_two_of_a_starved_reader", burst);
    in_starved_collect = true;
    for (size_t i = 0; i < rs.size(); ++i)
      if (w.starved[i])
      {
        op_collect(i);
        ++steps;
      }
    in_starved_collect = false;
    for (size_t k = static_cast<size_t>(rx.range(0, 20)); k > 0; --k, ++steps)
      random_step();
    return steps;
  }

  void run()
  {
    w.generate(r, false, &rx, starved_hist, twin_kind);
    if (starved_hist)
    {
      size_t fast = static_cast<size_t>(rx.below(w.rcfg.size()));
      for (size_t i = 0; i < w.rcfg.size(); ++i)
        w.starved[i] = i != fast;
    }
    w.build();
    rs.resize(w.rcfg.size());
    inst_added_via_second.assign(w.insts.size(), false);
    inst_added.assign(w.insts.size(), false);
    inst_recorded.assign(w.insts.size(), false);
    for (size_t i = 0; i < w.insts.size(); ++i)
      create_order.push_back(static_cast<int>(i));
    if (twin_kind)
    {
      // the pair is created first, in either order
      int b = static_cast<int>(w.insts.size()) - 1, a = w.insts[b].twin;
      create_order.clear();
      create_order.push_back(rx.coin() ? a : b);
      create_order.push_back(create_order[0] == a ? b : a);
      for (int i = 0; i < static_cast<int>(w.insts.size()); ++i)
        if (i != a && i != b)
          create_order.push_back(i);
    }
    size_t nsteps = r.chance(1, 4) ? static_cast<size_t>(r.range(3, 30)) : static_cast<size_t>(r.range(30, 200));
    want_second   = r.chance(45, 100);
    handles.reserve(64);
    if (starved_hist)
      nsteps = run_starved();
    else
      for (size_t step = 0; step < nsteps; ++step)
        random_step();
    for (size_t ri = 0; ri < rs.size(); ++ri)
      op_collect(ri);

    // ---- coverage
    R.count("histories");
    bool any_delta = false, any_cum = false;
    for (size_t ri = 0; ri < w.rcfg.size(); ++ri)
      for (size_t i = 0; i < created; ++i)
        (w.is_delta(ri, create_order[i]) ? any_delta : any_cum) = true;
    if (w.rcfg.size() == 1 && any_delta && fastpath_pair_checked)
      R.count("hist_single_delta_reader_fastpath");
    if (w.rcfg.size() == 1 && !any_delta)
      R.count("hist_single_cumulative_reader");
    if (w.rcfg.size() >= 2 && any_delta && any_cum)
      R.count("hist_multi_reader_mixed");
    if (w.rcfg.size() >= 2)
      R.count("hist_multi_reader");
    if (second_handle_checked)
      R.count("hist_second_handle");
    if (multiview_checked)
      R.count("hist_second_view_stream");
    if (!w.views.empty())
      R.count("hist_with_views");
    bool any_filter = false;
    for (auto &s : w.streams)
      any_filter |= s.filter && w.handles_created[s.inst] > 0;
    if (any_filter)
      R.count("hist_with_attribute_filter");
    if (w.meters.size() > 1)
      R.count("hist_multi_meter");
    if (starved_hist && starved_judged)
      R.count("hist_starved_reader");
    if (twin_pair_collected)
      R.count(twin_kind == 1 ? "hist_same_name_different_unit" : "hist_same_name_different_description");
    R.maxi("max_steps", nsteps);
    R.maxi("max_handles", handles.size());
    if (adds && collects_after_add)
      R.nontrivial(chash);
    if (R.want_sample(5) && adds > 3)
      R.sample("history: " + w.describe() + " :: " + trace.substr(0, 500));
    // tear down: handles first, then the provider (which shuts the readers down)
    for (auto &h : handles)
      h.destroy();
    handles.clear();
    w.meter_objs.clear();
    w.provider.reset();
  }
};

// ---------------------------------------------------------------------------------------------
// concurrent variant
// ---------------------------------------------------------------------------------------------
struct ConcOp
{
  int inst;
  bool own_handle;
  int attr;
  Val v;
  bool ignored;
  int mode;
};

struct ConcReader
{
  // per (stream, attrs): sum of all delta points so far or the last cumulative point
  struct Cell
  {
    Got running;
    size_t points = 0;
  };
  std::map<std::pair<int, std::string>, Cell> cells;
  std::set<int64_t> cumulative_starts;
  size_t collections = 0, collections_with_points = 0;
};

struct ConcCase
{
  vf::Report &R = vf::report();
  Rng r;
  World w;
  std::vector<std::vector<ConcOp>> plan;  // per recorder
  std::vector<Handle> shared;             // handle 0 of every instrument
  std::vector<ConcReader> cr;
  bool second_handles = false;
  // [inst * npool + attr] fixed-point sums of accepted values whose Add has started / completed
  std::unique_ptr<vf::raw_atomic<int64_t>[]> started, completed;
  vf::raw_atomic<int> active_collects{0};
  vf::raw_atomic<uint64_t> collects_begun{0};
  vf::raw_atomic<uint64_t> overlapped_adds{0};
  vf::raw_atomic<bool> go{false}, stop{false};
  vf::raw_atomic<uint64_t> inflight_checks{0};

  explicit ConcCase(uint64_t seed) : r(seed) {}

  size_t cell(int inst, int attr) const { return static_cast<size_t>(inst) * w.pool.size() + static_cast<size_t>(attr); }

  void recorder(size_t me, uint64_t seed)
  {
    Rng tr(seed);
    std::vector<Handle> own(w.insts.size());
    while (!go.load())
      std::this_thread::yield();
    if (second_handles)
      for (size_t i = 0; i < w.insts.size(); ++i)
        w.create(static_cast<int>(i), own[i]);  // the same instrument again, racing collections
    for (auto &op : plan[me])
    {
      auto &ic   = w.insts[op.inst];
      Handle &h  = (second_handles && op.own_handle) ? own[op.inst] : shared[op.inst];
      uint64_t c0 = collects_begun.load();
      bool ov     = active_collects.load() > 0;
      if (!op.ignored)
        started[cell(op.inst, op.attr)].fetch_add(op.v.fx);
      handle_add(h, ic, op.v, w.pool[op.attr], op.mode, tr);
      if (!op.ignored)
        completed[cell(op.inst, op.attr)].fetch_add(op.v.fx);
      ov = ov || active_collects.load() > 0 || collects_begun.load() != c0;
      if (ov)
        overlapped_adds.fetch_add(1);
    }
    for (auto &h : own)
      h.destroy();
  }

  // digest one collection of reader ri; lo/hi = snapshots of completed (before the call) and started
  // (after it returned); null for the final quiescent collection (exact comparison follows instead)
  void digest(size_t ri, const std::vector<GotMetric> &got, const std::vector<int64_t> *lo, const std::vector<int64_t> *hi)
  {
    ConcReader &c = cr[ri];
    ++c.collections;
    bool anyp = false;
    std::set<std::pair<int, std::string>> seen_cum;
    for (auto &g : got)
    {
      int si = w.find_stream(g);
      if (si < 0 && g.name.rfind("dropped_", 0) == 0)
        continue;
      if (si < 0)
      {
        R.violation("unexpected-stream", "concurrent", "reader " + std::to_string(ri) + " was given stream " + g.scope + "/" + g.name);
        continue;
      }
      bool delta  = w.is_delta(ri, w.streams[si].inst);
      if (!delta)
        c.cumulative_starts.insert(g.start_ns);
      for (auto &p : g.points)
      {
        anyp = true;
        if (p.kind != 0)
        {
          R.violation("conserved", w.cfg_class(ri, w.streams[si].inst, false), "concurrent: not a sum point in " + g.name);
          continue;
        }
        auto key   = std::make_pair(si, p.attrs);
        auto &cellv = c.cells[key];
        ++cellv.points;
        if (delta)
        {
          if (!cellv.running.present)
            cellv.running = p.v;
          else
            cellv.running = sum_points({cellv.running, p.v});
        }
        else
        {
          if (!seen_cum.insert(key).second)
            R.violation("cumulative-single-point", w.cfg_class(ri, w.streams[si].inst, false), "concurrent: two cumulative points for one attribute set in one collection of " + g.name);
          cellv.running = p.v;
        }
      }
    }
    if (anyp)
      ++c.collections_with_points;
    if (!lo)
      return;
    // in flight: completed-before <= running total <= started-after, for monotonic exact streams
    // without an attribute filter (every pool map is its own series there)
    for (size_t si = 0; si < w.streams.size(); ++si)
    {
      Stream &S = w.streams[si];
      auto &ic  = w.insts[S.inst];
      if (S.filter || ic.kind != kCounter)
        continue;
      bool delta = w.is_delta(ri, S.inst);
      for (size_t a = 0; a < w.pool.size(); ++a)
      {
        auto key = std::make_pair(static_cast<int>(si), canon(w.pool[a]));
        auto it  = c.cells.find(key);
        int64_t have = 0;
        bool present = it != c.cells.end() && it->second.running.present;
        if (present)
          have = ic.dbl ? static_cast<int64_t>(std::llround(it->second.running.d * kFx)) : it->second.running.i;
        if (!delta && !seen_cum.count(key))
          present = false, have = 0;  // a cumulative reader that was given nothing this time
        int64_t l = (*lo)[cell(S.inst, static_cast<int>(a))], h = (*hi)[cell(S.inst, static_cast<int>(a))];
        inflight_checks.fetch_add(1);
        if (have < l || have > h)
          R.violation("conserved", w.cfg_class(ri, S.inst, false),
                      "concurrent, in flight: reader " + std::to_string(ri) + (delta ? "(delta, running sum of its points)" : "(cumulative)") + " stream " + S.name +
                          " attrs " + show_canon(key.second) + (present ? "" : " [no point]") + ": running total " + std::to_string(have) + " (x1/1024 for doubles) outside [" +
                          std::to_string(l) + " completed before Collect, " + std::to_string(h) + " started before it returned] || config: " + w.describe());
      }
    }
  }

  void collector(size_t ri, uint64_t seed)
  {
    Rng tr(seed);
    size_t n = w.insts.size() * w.pool.size();
    std::vector<int64_t> lo(n), hi(n);
    while (!go.load())
      std::this_thread::yield();
    size_t rounds = 0;
    while (!stop.load() || rounds < 3)
    {
      for (size_t k = 0; k < n; ++k)
        lo[k] = completed[k].load();
      collects_begun.fetch_add(1);
      active_collects.fetch_add(1);
      auto got = w.readers[ri]->collect();
      active_collects.fetch_sub(1);
      for (size_t k = 0; k < n; ++k)
        hi[k] = started[k].load();
      digest(ri, got, &lo, &hi);
      ++rounds;
      if (tr.chance(1, 3))
        std::this_thread::sleep_for(std::chrono::microseconds(tr.below(150)));
      else if (tr.coin())
        std::this_thread::yield();
    }
  }

  void run(uint64_t seed)
  {
    w.generate(r, true);
    w.build();
    cr.resize(w.rcfg.size());
    second_handles  = r.chance(2, 5);
    size_t nrec     = static_cast<size_t>(r.range(1, 4));
    size_t per      = static_cast<size_t>(r.range(40, R.opt.thorough ? 600 : 300));
    size_t n        = w.insts.size() * w.pool.size();
    started.reset(new vf::raw_atomic<int64_t>[n]);
    completed.reset(new vf::raw_atomic<int64_t>[n]);
    for (size_t k = 0; k < n; ++k)
    {
      started[k].store(0);
      completed[k].store(0);
    }
    shared.resize(w.insts.size());
    for (size_t i = 0; i < w.insts.size(); ++i)
    {
      w.create(static_cast<int>(i), shared[i]);
      ++w.handles_created[i];
      if (second_handles)
        w.handles_created[i] += static_cast<int>(nrec);
    }
    plan.resize(nrec);
    uint64_t chash = 0, lt = 0;
    for (size_t t = 0; t < nrec; ++t)
      for (size_t k = 0; k < per; ++k)
      {
        ConcOp op;
        op.inst       = static_cast<int>(r.below(w.insts.size()));
        op.own_handle = r.coin();
        op.attr       = static_cast<int>(r.below(w.pool.size()));
        op.v          = gen_value(r, w.insts[op.inst], true, &op.ignored);
        op.mode       = w.pool[op.attr].empty() ? static_cast<int>(r.below(5)) : static_cast<int>(r.range(2, 4));
        plan[t].push_back(op);
        chash = vf::mix(chash, static_cast<uint64_t>(op.v.fx) * 31 + static_cast<uint64_t>(op.attr) * 7 + static_cast<uint64_t>(op.inst));
        if (op.ignored)
          continue;
        for (int si : w.inst_streams[op.inst])
        {
          Stream &s = w.streams[si];
          s.log.record(++lt, filtered(w.pool[op.attr], s.filter, s.allowed), op.v);
        }
      }
#ifdef OTEL_VERIF_SHIM
    vf_configure(seed, 30000, 5000, 0, 0, 200);
#endif
    std::vector<std::thread> rec, col;
    for (size_t t = 0; t < nrec; ++t)
      rec.emplace_back([this, t, seed] { recorder(t, vf::mix(seed, 100 + t)); });
    for (size_t ri = 0; ri < cr.size(); ++ri)
      col.emplace_back([this, ri, seed] { collector(ri, vf::mix(seed, 200 + ri)); });
    go.store(true);
    for (auto &t : rec)
      t.join();
    stop.store(true);
    for (auto &t : col)
      t.join();
#ifdef OTEL_VERIF_SHIM
    vf_configure(0, 0, 0, 0, 0, 0);
#endif
    // final quiescent collection per reader, then the exact comparison
    for (size_t ri = 0; ri < cr.size(); ++ri)
      digest(ri, w.readers[ri]->collect(), nullptr, nullptr);
    for (size_t ri = 0; ri < cr.size(); ++ri)
    {
      for (size_t si = 0; si < w.streams.size(); ++si)
      {
        Stream &S     = w.streams[si];
        auto &ic      = w.insts[S.inst];
        bool delta    = w.is_delta(ri, S.inst);
        bool reported = false;
        for (auto &se : S.log.series)
        {
          Acc want = se.second.all(ic.vc);
          auto it  = cr[ri].cells.find(std::make_pair(static_cast<int>(si), se.first));
          Got got;
          if (it != cr[ri].cells.end())
            got = it->second.running;
          bool okv = got.present ? matches(ic.vc, want, got) : (delta && want.is_zero(ic.vc));
          R.count(delta ? "conc_series_checked_delta" : "conc_series_checked_cumulative");
          if (!okv && !reported)
          {
            reported = true;
            R.violation("conserved", w.cfg_class(ri, S.inst, false),
                        "concurrent, after the final quiescent collect: reader " + std::to_string(ri) + (delta ? "(delta): sum of all its points " : "(cumulative): last point ") +
                            show(got) + " want " + show(ic.vc, want) + " = sum recorded by " + std::to_string(nrec) + " recorder threads; stream " + S.scope + "/" + S.name + " attrs " +
                            show_canon(se.first) + " after " + std::to_string(cr[ri].collections) + " collections || config: " + w.describe() +
                            (second_handles ? " second handles created by every recorder thread" : ""));
          }
        }
        for (auto &ce : cr[ri].cells)
          if (ce.first.first == static_cast<int>(si) && !S.log.series.count(ce.first.second) && ce.second.running.as_double() != 0)
            R.violation("phantom-series", w.cfg_class(ri, S.inst, false), "concurrent: stream " + S.name + " attrs " + show_canon(ce.first.second) + " never recorded, got " + show(ce.second.running));
      }
      for (int64_t s : cr[ri].cumulative_starts)
        if (s < w.ctor_before || s > w.ctor_after || cr[ri].cumulative_starts.size() != 1)
        {
          R.violation("cumulative-start", "concurrent", "reader " + std::to_string(ri) + " saw cumulative start_ts " + std::to_string(s) + " (" + std::to_string(cr[ri].cumulative_starts.size()) +
                                                            " distinct values), SDK start in [" + std::to_string(w.ctor_before) + "," + std::to_string(w.ctor_after) + "]");
          break;
        }
    }
    // coverage
    R.count("conc_runs");
    uint64_t ov = overlapped_adds.load();
    R.count("conc_adds", nrec * per);
    R.count("conc_adds_overlapping_a_collect", ov);
    if (ov >= 10)
      R.count("conc_runs_collect_overlapped_ge10_adds");
    size_t colls = 0, with = 0;
    for (auto &c : cr)
    {
      colls += c.collections;
      with += c.collections_with_points;
    }
    R.count("conc_collections", colls);
    R.count("conc_collections_with_points", with);
    R.count("conc_inflight_bound_checks", inflight_checks.load());
    if (second_handles)
      R.count("conc_runs_second_handles");
    if (cr.size() >= 2)
      R.count("conc_runs_multi_reader");
    bool mv = false;
    for (auto &is : w.inst_streams)
      mv |= is.size() >= 2;
    if (mv)
      R.count("conc_runs_second_view_stream");
    R.maxi("conc_max_threads", nrec + cr.size());
    R.nontrivial(vf::mix(chash, ov));
    R.signature(vf::mix(chash, colls * 1000003 + ov));
    if (R.want_sample(3))
      R.sample("concurrent: " + w.describe() + " recorders=" + std::to_string(nrec) + " adds/recorder=" + std::to_string(per) + " collections=" + std::to_string(colls) +
               " adds overlapping a collect=" + std::to_string(ov));
#ifdef OTEL_VERIF_SHIM
    vf_shim_counters sc;
    vf_counters(&sc);
    R.maxi("shim_points", sc.points);
    R.maxi("shim_yields", sc.yields);
    R.maxi("shim_sleeps", sc.sleeps);
#endif
    for (auto &h : shared)
      h.destroy();
    w.meter_objs.clear();
    w.provider.reset();
  }
};

int main(int argc, char **argv)
{
  auto &R = vf::report();
  R.init("C06", argc, argv);
  auto *logs       = install_silent_log_handler();
  std::string mode = R.opt.sparam("mode", "seq");
  static Watchdog *dog = nullptr;  // never destroyed: its thread is detached
  if (mode == "conc")
    dog = new Watchdog(static_cast<int>(R.opt.param("watchdog_s", R.opt.thorough ? 600 : 300)));
  R.run_cases([&](uint64_t i) {
    uint64_t seed = R.case_seed(i);
    if (mode == "conc")
    {
      dog->begin("record-vs-collect");
      {
        ConcCase c(vf::mix(seed, 0xc0c));
        c.run(seed);
      }
      dog->end();
    }
    else
    {
      SeqCase c(seed);
      c.run();
    }
  });
  R.count("sdk_log_messages", logs->total());
  return R.finish();
}
