// C12 (real-thread clause) - "the trace-id-ratio sampler's decision depends only on the trace id and the configured
// ratio ... so all participants in a trace agree" also when ONE sampler object is asked by several threads at once
// (a TracerProvider owns a single sampler and every thread that starts a span calls it).  tsan flavour + shim.
// Oracle: a thread-private twin sampler of the same ratio, asked for the same trace id on the same thread; the
// shared object must give the same decision every time.  The same is done for ParentBased(ratio) with valid and
// invalid parents and for always-on / always-off.  Added after the seeded change C12-w6-1 (a last-trace-id cache in
// two separate atomics inside TraceIdRatioBasedSampler) - the sequential engine cannot see a decision that belongs
// to another thread's trace id.
#include <atomic>
#include <memory>
#include <thread>
#include <vector>

#include "opentelemetry/sdk/trace/samplers/always_off.h"
#include "opentelemetry/sdk/trace/samplers/always_on.h"
#include "opentelemetry/sdk/trace/samplers/parent.h"
#include "opentelemetry/sdk/trace/samplers/trace_id_ratio.h"
#include "opentelemetry/trace/span_context.h"
#include "opentelemetry/trace/span_context_kv_iterable_view.h"
#include "opentelemetry/trace/trace_state.h"

#include "vf_core.h"
#include "vf_history.h"
#include "vf_runtime.h"

namespace trace_api = opentelemetry::trace;
namespace trace_sdk = opentelemetry::sdk::trace;
namespace nostd     = opentelemetry::nostd;
using vf::Rng;

static trace_api::TraceId make_id(uint64_t hi, uint64_t lo)
{
  uint8_t b[16];
  memcpy(b, &hi, 8);
  memcpy(b + 8, &lo, 8);
  return trace_api::TraceId(nostd::span<const uint8_t, 16>(b, 16));
}

static trace_sdk::Decision ask(trace_sdk::Sampler &s, const trace_api::SpanContext &parent, const trace_api::TraceId &id)
{
  std::map<std::string, int> none;
  opentelemetry::common::KeyValueIterableView<std::map<std::string, int>> attrs(none);
  trace_api::SpanContextKeyValueIterableView<std::vector<std::pair<trace_api::SpanContext, std::map<std::string, std::string>>>> links(
      std::vector<std::pair<trace_api::SpanContext, std::map<std::string, std::string>>>{});
  return s.ShouldSample(parent, id, "s", trace_api::SpanKind::kInternal, attrs, links).decision;
}

static void one_case(uint64_t seed)
{
  auto &R = vf::report();
  Rng r(seed);
  // ratios at which decisions genuinely differ between ids
  static const double ratios[] = {0.5, 0.25, 0.75, 0.1, 0.9, 1.0 / 3, 0.01, 0.99};
  double ratio = ratios[r.below(8)];
  int nthreads = static_cast<int>(r.range(2, 8));
  int rounds   = static_cast<int>(r.range(200, 2000));
  int kind     = static_cast<int>(r.below(3));  // 0 ratio, 1 parent-based(ratio), 2 always-on/off
  bool shim    = r.chance(2, 3);
  std::shared_ptr<trace_sdk::Sampler> shared;
  bool on = r.coin();
  auto make = [&]() -> std::shared_ptr<trace_sdk::Sampler> {
    if (kind == 0)
      return std::make_shared<trace_sdk::TraceIdRatioBasedSampler>(ratio);
    if (kind == 1)
      return std::make_shared<trace_sdk::ParentBasedSampler>(std::make_shared<trace_sdk::TraceIdRatioBasedSampler>(ratio));
    if (on)
      return std::make_shared<trace_sdk::AlwaysOnSampler>();
    return std::make_shared<trace_sdk::AlwaysOffSampler>();
  };
  shared = make();
  vf_configure(seed, shim ? 60000 : 0, shim ? 3000 : 0, 0, 0, 100);
  vf::raw_atomic<uint64_t> disagreements{0}, asked{0}, sampled{0}, with_parent{0};
  std::string first_witness;
  std::mutex wm;
  {
    vf::WatchdogScope wd("concurrent-should-sample", 120);
    std::vector<std::thread> th;
    for (int t = 0; t < nthreads; ++t)
      th.emplace_back([&, t] {
        Rng tr(vf::mix(seed, 1000 + static_cast<uint64_t>(t)));
        auto twin = make();  // thread-private: no other thread ever touches it
        // a few trace ids per thread, asked again and again (children of one trace) and interleaved with fresh ones
        std::vector<trace_api::TraceId> mine;
        for (int k = 0; k < 4; ++k)
          mine.push_back(make_id(tr.next(), tr.next()));
        for (int i = 0; i < rounds; ++i)
        {
          trace_api::TraceId id = tr.chance(1, 2) ? mine[tr.below(4)] : make_id(tr.next(), tr.next());
          trace_api::SpanContext parent = trace_api::SpanContext::GetInvalid();
          if (kind == 1 && tr.chance(1, 2))
          {
            uint8_t sb[8];
            uint64_t x = tr.next() | 1;
            memcpy(sb, &x, 8);
            parent = trace_api::SpanContext(id, trace_api::SpanId(nostd::span<const uint8_t, 8>(sb, 8)),
                                            trace_api::TraceFlags(static_cast<uint8_t>(tr.below(256))), tr.coin());
            with_parent.fetch_add(1, std::memory_order_relaxed);
          }
          trace_sdk::Decision want = ask(*twin, parent, id);
          trace_sdk::Decision got  = ask(*shared, parent, id);
          asked.fetch_add(1, std::memory_order_relaxed);
          if (got == trace_sdk::Decision::RECORD_AND_SAMPLE)
            sampled.fetch_add(1, std::memory_order_relaxed);
          if (got != want)
          {
            if (disagreements.fetch_add(1, std::memory_order_relaxed) == 0)
            {
              char hex[32];
              id.ToLowerBase16(nostd::span<char, 32>(hex, 32));
              std::lock_guard<std::mutex> g(wm);
              first_witness = "thread " + std::to_string(t) + " trace id " + std::string(hex, 32) + ": the shared sampler decided " +
                              std::to_string(static_cast<int>(got)) + ", a private sampler of the same configuration " +
                              std::to_string(static_cast<int>(want));
            }
          }
        }
      });
    for (auto &t : th)
      t.join();
  }
  vf_configure(0, 0, 0, 0, 0, 0);
  static const char *kname[] = {"ratio", "parent-based-ratio", "constant"};
  uint64_t d = disagreements.load();
  if (d)
    R.violation("decision-depends-only-on-trace-id-and-ratio", std::string("shared-sampler:") + kname[kind],
                std::to_string(d) + " of " + std::to_string(asked.load()) + " decisions of a sampler shared by " +
                    std::to_string(nthreads) + " threads differ from a private twin; first: " + first_witness);
  R.count(std::string("shared_sampler_cases_") + kname[kind]);
  R.count("shared_sampler_decisions", asked.load());
  R.count("shared_sampler_decisions_sampled", sampled.load());
  R.count("shared_sampler_decisions_with_valid_parent", with_parent.load());
  if (nthreads >= 4)
    R.count("shared_sampler_cases_ge4_threads");
  R.nontrivial(seed);
  if (R.want_sample(4))
    R.sample(std::string("shared ") + kname[kind] + " sampler ratio " + std::to_string(ratio) + ": " + std::to_string(nthreads) +
             " threads x " + std::to_string(rounds) + " decisions, " + std::to_string(sampled.load()) + " sampled");
}

int main(int argc, char **argv)
{
  auto &R = vf::report();
  R.init("C12", argc, argv);
  vf::Watchdog::get().start();
  R.run_cases([&](uint64_t i) { one_case(R.case_seed(i)); });
  return R.finish();
}
