// C08 — metric series are keyed by attribute-set value; filters and limits lose nothing.
// Engine E1.  Part 1: FilteredOrderedAttributeMap equality/hash in lock-step with a model map
// (filtered, sorted, last-wins, type-and-value equality over all AttributeValue alternatives)
// over permutations, duplicate-key lists and single mutations.  Part 2: histories of
// measurements over growing pools of attribute sets through SyncMetricStorage (explicit
// cardinality limits) and through MeterProvider -> View -> Counter (default limit), delta and
// cumulative readers, 1..4 collection cycles; series count, conservation and the overflow
// series are checked per collection.  Every key and string/array value reaches the SDK as an
// exact-size, non-terminated heap view that is scribbled or freed right after the call.
#include "opentelemetry/common/attribute_value.h"
#include "opentelemetry/common/key_value_iterable.h"
#include "opentelemetry/context/context.h"
#include "opentelemetry/sdk/common/attribute_utils.h"
#include "opentelemetry/sdk/common/attributemap_hash.h"
#include "opentelemetry/sdk/common/global_log_handler.h"
#include "opentelemetry/sdk/metrics/export/metric_producer.h"
#include "opentelemetry/sdk/metrics/meter_context.h"
#include "opentelemetry/sdk/metrics/meter_provider.h"
#include "opentelemetry/sdk/metrics/metric_reader.h"
#include "opentelemetry/sdk/metrics/state/attributes_hashmap.h"
#include "opentelemetry/sdk/metrics/state/filtered_ordered_attribute_map.h"
#include "opentelemetry/sdk/metrics/state/metric_collector.h"
#include "opentelemetry/sdk/metrics/state/sync_metric_storage.h"
#include "opentelemetry/sdk/metrics/view/attributes_processor.h"
#include "opentelemetry/sdk/metrics/view/instrument_selector.h"
#include "opentelemetry/sdk/metrics/view/meter_selector.h"
#include "opentelemetry/sdk/metrics/view/view.h"

#include <limits>
#include <sys/wait.h>

#include "vf_core.h"

namespace sdkm        = opentelemetry::sdk::metrics;
namespace sdkc        = opentelemetry::sdk::common;
namespace metrics_api = opentelemetry::metrics;
namespace nostd       = opentelemetry::nostd;
namespace common      = opentelemetry::common;
using vf::Rng;

class CountingLogHandler : public sdkc::internal_log::LogHandler
{
public:
  void Handle(sdkc::internal_log::LogLevel, const char *, int, const char *, const sdkc::AttributeMap &) noexcept override
  {
    ++n;
  }
  uint64_t n = 0;
};

static const char *kOverflowKey = "otel.metrics.overflow";

// ------------------------------------------------------------------------------------------
// model attribute values: the 16 AttributeValue alternatives
// ------------------------------------------------------------------------------------------
enum Ty
{
  kBool,
  kI32,
  kI64,
  kU32,
  kF64,
  kCStr,
  kStr,
  kABool,
  kAI32,
  kAI64,
  kAU32,
  kAF64,
  kAStr,
  kU64,
  kAU64,
  kAU8,
  kNumTy
};

struct AV
{
  Ty t       = kBool;
  int64_t i  = 0;  // bool, i32, i64, u32
  uint64_t u = 0;  // u64
  double d   = 0;
  std::string s;
  std::vector<int64_t> ai;   // bool[], i32[], i64[], u32[], u8[]
  std::vector<uint64_t> au;  // u64[]
  std::vector<double> ad;
  std::vector<std::string> as;
};

static std::string hexd(double d)
{
  uint64_t b;
  memcpy(&b, &d, 8);
  char buf[24];
  snprintf(buf, sizeof buf, "%016llx", static_cast<unsigned long long>(b));
  return buf;
}
static std::string lp(const std::string &s)
{
  return std::to_string(s.size()) + ":" + s;
}
template <class V, class F>
static std::string join(const V &v, F f)
{
  std::string o = std::to_string(v.size()) + ":";
  bool first    = true;
  for (auto &x : v)
  {
    if (!first)
      o += ",";
    first = false;
    o += f(x);
  }
  return o;
}

// Canonical form.  strict: type tag + value (strings are one type however they were passed).
// loose: integer widths/signedness folded, -0.0 folded into +0.0, empty arrays untyped -- pairs
// that are strict-unequal but loose-equal are don't-care (the statement does not say whether
// int32 5 and int64 5, or +0.0 and -0.0, are the same value).
static std::string canon(const AV &v, bool loose)
{
  auto istr = [](int64_t x) { return std::to_string(x); };
  auto dstr = [loose](double x) { return hexd(loose && x == 0 ? 0.0 : x); };
  switch (v.t)
  {
    case kBool:
      return std::string("b:") + (v.i ? "1" : "0");
    case kI32:
      return (loose ? "int:" : "i32:") + istr(v.i);
    case kI64:
      return (loose ? "int:" : "i64:") + istr(v.i);
    case kU32:
      return (loose ? "int:" : "u32:") + istr(v.i);
    case kU64:
      return (loose ? "int:" : "u64:") + std::to_string(v.u);
    case kF64:
      return "f64:" + dstr(v.d);
    case kCStr:
    case kStr:
      return "s:" + lp(v.s);
    case kABool:
      return loose && v.ai.empty() ? "[]" : "[b:" + join(v.ai, istr);
    case kAI32:
      return loose ? (v.ai.empty() ? "[]" : "[int:" + join(v.ai, istr)) : "[i32:" + join(v.ai, istr);
    case kAI64:
      return loose ? (v.ai.empty() ? "[]" : "[int:" + join(v.ai, istr)) : "[i64:" + join(v.ai, istr);
    case kAU32:
      return loose ? (v.ai.empty() ? "[]" : "[int:" + join(v.ai, istr)) : "[u32:" + join(v.ai, istr);
    case kAU64:
      return loose ? (v.au.empty() ? "[]" : "[int:" + join(v.au, [](uint64_t x) { return std::to_string(x); }))
                   : "[u64:" + join(v.au, [](uint64_t x) { return std::to_string(x); });
    case kAU8:
      return loose && v.ai.empty() ? "[]" : "[u8:" + join(v.ai, istr);
    case kAF64:
      return loose && v.ad.empty() ? "[]" : "[f64:" + join(v.ad, dstr);
    case kAStr:
      return loose && v.as.empty() ? "[]" : "[s:" + join(v.as, lp);
    default:
      return "?";
  }
}

// strict canonical form of what the SDK stored
struct OwnedCanon
{
  std::string operator()(bool v) const { return std::string("b:") + (v ? "1" : "0"); }
  std::string operator()(int32_t v) const { return "i32:" + std::to_string(v); }
  std::string operator()(uint32_t v) const { return "u32:" + std::to_string(v); }
  std::string operator()(int64_t v) const { return "i64:" + std::to_string(v); }
  std::string operator()(uint64_t v) const { return "u64:" + std::to_string(v); }
  std::string operator()(double v) const { return "f64:" + hexd(v); }
  std::string operator()(const std::string &v) const { return "s:" + lp(v); }
  std::string operator()(const std::vector<bool> &v) const
  {
    std::vector<int64_t> t(v.begin(), v.end());
    return "[b:" + join(t, [](int64_t x) { return std::to_string(x); });
  }
  std::string operator()(const std::vector<int32_t> &v) const
  {
    return "[i32:" + join(v, [](int32_t x) { return std::to_string(x); });
  }
  std::string operator()(const std::vector<uint32_t> &v) const
  {
    return "[u32:" + join(v, [](uint32_t x) { return std::to_string(x); });
  }
  std::string operator()(const std::vector<int64_t> &v) const
  {
    return "[i64:" + join(v, [](int64_t x) { return std::to_string(x); });
  }
  std::string operator()(const std::vector<uint64_t> &v) const
  {
    return "[u64:" + join(v, [](uint64_t x) { return std::to_string(x); });
  }
  std::string operator()(const std::vector<uint8_t> &v) const
  {
    return "[u8:" + join(v, [](uint8_t x) { return std::to_string(static_cast<int>(x)); });
  }
  std::string operator()(const std::vector<double> &v) const { return "[f64:" + join(v, hexd); }
  std::string operator()(const std::vector<std::string> &v) const { return "[s:" + join(v, lp); }
};

typedef std::map<std::string, AV> MMap;  // the model: sorted keys, last write wins

static std::string set_canon(const MMap &m, bool loose)
{
  std::string o;
  for (auto &kv : m)
    o += lp(kv.first) + "=" + canon(kv.second, loose) + ";";
  return o;
}

static std::string sdk_canon(const sdkc::OrderedAttributeMap &m)
{
  std::string o;
  for (auto &kv : m)
    o += lp(kv.first) + "=" + nostd::visit(OwnedCanon(), kv.second) + ";";
  return o;
}

struct Entry
{
  std::string key;
  AV val;
};

static MMap last_wins(const std::vector<Entry> &es)
{
  MMap m;
  for (auto &e : es)
    m[e.key] = e.val;
  return m;
}

struct Filter
{
  int kind = 0;  // 0 no processor, 1 DefaultAttributesProcessor, 2 FilteringAttributesProcessor
  std::set<std::string> allow;
  std::string cls = "no-processor";
  bool passes(const std::string &k) const { return kind != 2 || allow.count(k) != 0; }
  MMap apply(const MMap &m) const
  {
    MMap o;
    for (auto &kv : m)
      if (passes(kv.first))
        o.insert(kv);
    return o;
  }
  std::unique_ptr<sdkm::AttributesProcessor> make() const
  {
    if (kind == 0)
      return nullptr;
    if (kind == 1)
      return std::unique_ptr<sdkm::AttributesProcessor>(new sdkm::DefaultAttributesProcessor());
    std::unordered_map<std::string, bool> m;
    for (auto &k : allow)
      m[k] = true;
    return std::unique_ptr<sdkm::AttributesProcessor>(new sdkm::FilteringAttributesProcessor(m));
  }
};

// ------------------------------------------------------------------------------------------
// A KeyValueIterable whose keys, strings and arrays live in exact-size heap blocks
// ------------------------------------------------------------------------------------------
static bool g_terminate_filter_keys = false;  // set when the start-up probe found the allow-list lookup reading past the view

class BufKV : public common::KeyValueIterable
{
  struct Slot
  {
    vf::Buf key, data, arr;
    std::vector<vf::Buf> strs;
    nostd::string_view kview;
    common::AttributeValue value;
  };
  std::vector<std::unique_ptr<Slot>> slots_;

  template <class T>
  static void fill(Slot &s, const std::vector<int64_t> &src)
  {
    std::vector<T> tmp;
    for (auto x : src)
      tmp.push_back(static_cast<T>(x));
    s.data.assign(reinterpret_cast<const char *>(tmp.data()), tmp.size() * sizeof(T));
    s.value = nostd::span<const T>(reinterpret_cast<const T *>(s.data.data()), tmp.size());
  }

public:
  BufKV(const std::vector<Entry> &es, bool terminate_keys)
  {
    for (auto &e : es)
    {
      std::unique_ptr<Slot> sp(new Slot);
      Slot &s = *sp;
      if (terminate_keys)
        s.key.assign((e.key + std::string(1, '\0')).data(), e.key.size() + 1);
      else
        s.key.assign(e.key.data(), e.key.size());
      s.kview     = nostd::string_view(s.key.data(), e.key.size());
      const AV &v = e.val;
      switch (v.t)
      {
        case kBool:
          s.value = static_cast<bool>(v.i != 0);
          break;
        case kI32:
          s.value = static_cast<int32_t>(v.i);
          break;
        case kI64:
          s.value = static_cast<int64_t>(v.i);
          break;
        case kU32:
          s.value = static_cast<uint32_t>(v.i);
          break;
        case kU64:
          s.value = static_cast<uint64_t>(v.u);
          break;
        case kF64:
          s.value = v.d;
          break;
        case kCStr:
          s.data.assign((v.s + std::string(1, '\0')).data(), v.s.size() + 1);  // a C string is terminated by contract
          s.value = static_cast<const char *>(s.data.data());
          break;
        case kStr:
          s.data.assign(v.s.data(), v.s.size());
          s.value = nostd::string_view(s.data.data(), v.s.size());
          break;
        case kABool:
        {
          std::string b;
          for (auto x : v.ai)
            b.push_back(x ? 1 : 0);
          s.data.assign(b.data(), b.size());
          s.value = nostd::span<const bool>(reinterpret_cast<const bool *>(s.data.data()), b.size());
          break;
        }
        case kAI32:
          fill<int32_t>(s, v.ai);
          break;
        case kAI64:
          fill<int64_t>(s, v.ai);
          break;
        case kAU32:
          fill<uint32_t>(s, v.ai);
          break;
        case kAU8:
          fill<uint8_t>(s, v.ai);
          break;
        case kAU64:
        {
          s.data.assign(reinterpret_cast<const char *>(v.au.data()), v.au.size() * sizeof(uint64_t));
          s.value = nostd::span<const uint64_t>(reinterpret_cast<const uint64_t *>(s.data.data()), v.au.size());
          break;
        }
        case kAF64:
        {
          s.data.assign(reinterpret_cast<const char *>(v.ad.data()), v.ad.size() * sizeof(double));
          s.value = nostd::span<const double>(reinterpret_cast<const double *>(s.data.data()), v.ad.size());
          break;
        }
        case kAStr:
        {
          std::vector<nostd::string_view> views;
          for (auto &x : v.as)
          {
            s.strs.emplace_back(x);
            views.emplace_back(s.strs.back().data(), x.size());
          }
          s.arr.assign(reinterpret_cast<const char *>(views.data()), views.size() * sizeof(nostd::string_view));
          s.value = nostd::span<const nostd::string_view>(reinterpret_cast<const nostd::string_view *>(s.arr.data()),
                                                          views.size());
          break;
        }
        default:
          break;
      }
      slots_.push_back(std::move(sp));
    }
  }
  bool ForEachKeyValue(nostd::function_ref<bool(nostd::string_view, common::AttributeValue)> cb) const noexcept override
  {
    for (auto &s : slots_)
      if (!cb(s->kview, s->value))
        return false;
    return true;
  }
  size_t size() const noexcept override { return slots_.size(); }
  // the caller's storage dies right after the call returned
  void kill(bool scribble)
  {
    for (auto &s : slots_)
    {
      if (scribble)
      {
        s->key.scribble();
        s->data.scribble();
        s->arr.scribble();
        for (auto &b : s->strs)
          b.scribble();
      }
      else
      {
        s->key.release();
        s->data.release();
        s->arr.release();
        for (auto &b : s->strs)
          b.release();
      }
    }
  }
};

// ------------------------------------------------------------------------------------------
// generators (domain A, NaN excluded)
// ------------------------------------------------------------------------------------------
static std::string gen_string(Rng &r, bool allow_nul)
{
  unsigned c = static_cast<unsigned>(r.below(100));
  if (c < 12)
    return "";
  if (c < 50)
    return r.bytes(static_cast<size_t>(r.range(1, 4)), "ab1");
  if (c < 60 && allow_nul)
    return r.bytes(static_cast<size_t>(r.range(0, 2)), "ab") + std::string(1, '\0') + r.bytes(static_cast<size_t>(r.range(0, 2)), "ab");
  if (c < 70)
  {
    std::string s = r.bytes(static_cast<size_t>(r.range(1, 3)), "ab");
    s.push_back(static_cast<char>(0x80 + r.below(0x80)));
    return s;
  }
  if (c < 74)
    return r.bytes(static_cast<size_t>(r.range(200, 400)), "abcdefgh");
  if (c < 80)
    return std::to_string(r.range(0, 3));  // "1" vs int 1
  if (c < 84)
    return r.coin() ? "true" : "false";
  return r.bytes(static_cast<size_t>(r.range(1, 8)), "abcXYZ019 _-.");
}

static int64_t gen_int(Rng &r, Ty t)
{
  unsigned c = static_cast<unsigned>(r.below(100));
  if (c < 50)
    return r.range(0, 3);
  switch (t)
  {
    case kI32:
      return c < 60 ? INT32_MIN : (c < 70 ? INT32_MAX : (c < 80 ? -r.range(1, 3) : static_cast<int32_t>(r.next())));
    case kU32:
      return c < 65 ? static_cast<int64_t>(UINT32_MAX) : static_cast<int64_t>(static_cast<uint32_t>(r.next()));
    default:
      return c < 60 ? INT64_MIN : (c < 70 ? INT64_MAX : (c < 80 ? -r.range(1, 3) : static_cast<int64_t>(r.next())));
  }
}

static double gen_double(Rng &r)
{
  static const double sp[] = {0.0,
                              -0.0,
                              1.0,
                              -1.0,
                              2.0,
                              0.5,
                              4.9406564584124654e-324,
                              1e-310,
                              2.2250738585072014e-308,
                              1.7976931348623157e308,
                              std::numeric_limits<double>::infinity(),
                              -std::numeric_limits<double>::infinity(),
                              3.0,
                              0.1};
  if (r.chance(3, 4))
    return r.pick(sp);
  return static_cast<double>(r.range(-1000, 1000)) / 8.0;
}

static size_t gen_len(Rng &r, bool allow_big)
{
  unsigned c = static_cast<unsigned>(r.below(100));
  if (c < 20)
    return 0;
  if (c < 85)
    return static_cast<size_t>(r.range(1, 3));
  if (c < 99 || !allow_big)
    return static_cast<size_t>(r.range(4, 12));
  return 4096;
}

static AV gen_value(Rng &r, Ty t, bool allow_big = false)
{
  AV v;
  v.t = t;
  switch (t)
  {
    case kBool:
      v.i = r.coin();
      break;
    case kI32:
    case kI64:
    case kU32:
      v.i = gen_int(r, t);
      break;
    case kU64:
      v.u = r.chance(1, 2) ? static_cast<uint64_t>(r.range(0, 3)) : (r.coin() ? UINT64_MAX : r.next());
      break;
    case kF64:
      v.d = gen_double(r);
      break;
    case kCStr:
      v.s = gen_string(r, false);
      break;
    case kStr:
      v.s = gen_string(r, true);
      break;
    case kABool:
      for (size_t n = gen_len(r, allow_big); n; --n)
        v.ai.push_back(r.coin());
      break;
    case kAI32:
    case kAI64:
    case kAU32:
      for (size_t n = gen_len(r, allow_big); n; --n)
        v.ai.push_back(gen_int(r, t == kAI32 ? kI32 : (t == kAU32 ? kU32 : kI64)));
      break;
    case kAU8:
      for (size_t n = gen_len(r, allow_big); n; --n)
        v.ai.push_back(static_cast<int64_t>(r.below(r.coin() ? 4 : 256)));
      break;
    case kAU64:
      for (size_t n = gen_len(r, allow_big); n; --n)
        v.au.push_back(r.coin() ? static_cast<uint64_t>(r.range(0, 3)) : r.next());
      break;
    case kAF64:
      for (size_t n = gen_len(r, allow_big); n; --n)
        v.ad.push_back(gen_double(r));
      break;
    case kAStr:
      for (size_t n = gen_len(r, allow_big); n; --n)
        v.as.push_back(gen_string(r, true));
      break;
    default:
      break;
  }
  return v;
}

static Ty gen_type(Rng &r)
{
  return static_cast<Ty>(r.below(kNumTy));
}

// the same number / text in another type: must be a different value (or don't-care for int widths)
static AV retype(Rng &r, const AV &v)
{
  AV o;
  int64_t n = 1;
  switch (v.t)
  {
    case kBool:
    case kI32:
    case kI64:
    case kU32:
      n = v.i;
      break;
    case kU64:
      n = static_cast<int64_t>(v.u & 0x7fffffff);
      break;
    case kF64:
      n = (v.d >= -1000 && v.d <= 1000) ? static_cast<int64_t>(v.d) : 1;
      break;
    case kCStr:
    case kStr:
      n = v.s == "true" ? 1 : atoi(v.s.c_str());
      break;
    default:
      n = static_cast<int64_t>(v.ai.size() + v.au.size() + v.ad.size() + v.as.size());
  }
  if (n < 0 || n > 1000)
    n = 1;
  static const Ty scal[] = {kBool, kI32, kI64, kU32, kU64, kF64, kStr, kCStr, kAI64, kAU8, kAStr};
  Ty t;
  do
    t = r.pick(scal);
  while (t == v.t);
  o.t = t;
  switch (t)
  {
    case kBool:
      o.i = n != 0;
      break;
    case kI32:
    case kI64:
    case kU32:
      o.i = n;
      break;
    case kU64:
      o.u = static_cast<uint64_t>(n);
      break;
    case kF64:
      o.d = static_cast<double>(n);
      break;
    case kStr:
    case kCStr:
      o.s = std::to_string(n);
      break;
    case kAI64:
    case kAU8:
      o.ai.push_back(n & 0xff);
      break;
    case kAStr:
      o.as.push_back(std::to_string(n));
      break;
    default:
      break;
  }
  return o;
}

struct KeyPool
{
  std::vector<std::string> keys;
  bool has_nul = false;
};

static KeyPool gen_keys(Rng &r, bool allow_nul)
{
  KeyPool p;
  std::set<std::string> seen;
  size_t n = static_cast<size_t>(r.range(2, 9));
  while (p.keys.size() < n)
  {
    std::string k;
    unsigned c = static_cast<unsigned>(r.below(100));
    if (c < 50 || p.keys.empty())
      k = r.bytes(static_cast<size_t>(r.range(1, 5)), "abk.");
    else if (c < 65)
      k = r.pick(p.keys) + r.bytes(1, "ab2");  // extension of another key
    else if (c < 75)
    {
      k = r.pick(p.keys);  // prefix of another key
      if (k.size() > 1)
        k.pop_back();
    }
    else if (c < 82 && allow_nul)
      k = r.pick(p.keys) + std::string(1, '\0') + r.bytes(static_cast<size_t>(r.range(0, 2)), "ab");
    else if (c < 90)
    {
      k = r.bytes(static_cast<size_t>(r.range(1, 3)), "ab");
      k.push_back(static_cast<char>(0x80 + r.below(0x80)));
    }
    else if (c < 94)
      k = r.bytes(static_cast<size_t>(r.range(100, 300)), "abcdef.");
    else
      k = r.bytes(static_cast<size_t>(r.range(1, 12)), "abcdefghij_.");
    if (k.empty() || k == kOverflowKey || !seen.insert(k).second)
      continue;
    if (k.find('\0') != std::string::npos)
      p.has_nul = true;
    p.keys.push_back(k);
  }
  return p;
}

static Filter gen_filter(Rng &r, const KeyPool &kp)
{
  Filter f;
  unsigned c = static_cast<unsigned>(r.below(100));
  if (c < 12)
    return f;
  if (c < 30)
  {
    f.kind = 1;
    f.cls  = "default-processor";
    return f;
  }
  f.kind = 2;
  if (c < 38)
  {
    f.cls = "allow-empty";
    return f;
  }
  if (c < 75)
  {
    f.cls = "allow-subset";
    for (auto &k : kp.keys)
      if (r.coin())
        f.allow.insert(k);
    if (f.allow.size() == kp.keys.size())
      f.allow.erase(f.allow.begin());
    if (r.chance(1, 3))
      f.allow.insert("zz-never-used");
    return f;
  }
  f.cls = "allow-superset";
  for (auto &k : kp.keys)
    f.allow.insert(k);
  f.allow.insert("zz-never-used");
  f.allow.insert(r.bytes(3, "xyz"));
  return f;
}

static std::string show_entries(const std::vector<Entry> &es)
{
  std::string s = "[";
  for (size_t i = 0; i < es.size() && i < 12; ++i)
  {
    if (i)
      s += ", ";
    s += vf::show(es[i].key, 24) + "=" + vf::show(canon(es[i].val, false), 48);
  }
  if (es.size() > 12)
    s += ", ...";
  return s + "](" + std::to_string(es.size()) + ")";
}

static std::string show_filter(const Filter &f)
{
  std::string s = f.cls;
  if (f.kind == 2)
  {
    s += "{";
    for (auto &k : f.allow)
      s += vf::show(k, 16) + ",";
    s += "}";
  }
  return s;
}

// present a map as a caller would: random key order, overridden duplicates first, and (under an
// allow-list) arbitrary keys the filter removes
static std::vector<Entry> present(Rng &r, const MMap &m, const Filter &f, const KeyPool &kp, bool noise)
{
  std::vector<Entry> es;
  for (auto &kv : m)
    es.push_back({kv.first, kv.second});
  for (size_t x = es.size(); x > 1; --x)
    std::swap(es[x - 1], es[r.below(x)]);
  if (noise && !es.empty())
  {
    size_t dups = static_cast<size_t>(r.below(3));
    for (size_t d = 0; d < dups; ++d)
    {
      size_t at = static_cast<size_t>(r.below(es.size()));  // position of a final occurrence
      Entry e{es[at].key, r.coin() ? gen_value(r, gen_type(r)) : retype(r, es[at].val)};
      es.insert(es.begin() + static_cast<long>(r.below(at + 1)), e);  // somewhere before it: overridden
    }
  }
  if (noise && f.kind == 2)
  {
    size_t extra = static_cast<size_t>(r.below(3));
    for (size_t d = 0; d < extra; ++d)
    {
      std::string k = r.coin() ? r.pick(kp.keys) : "dropped." + r.bytes(2, "abc");
      if (f.passes(k))
        continue;
      es.insert(es.begin() + static_cast<long>(r.below(es.size() + 1)), Entry{k, gen_value(r, gen_type(r))});
    }
  }
  return es;
}

// ------------------------------------------------------------------------------------------
// Part 1: equality and hash in lock-step with the model
// ------------------------------------------------------------------------------------------
static sdkm::FilteredOrderedAttributeMap build_map(Rng &r,
                                                   const std::vector<Entry> &es,
                                                   const Filter &f,
                                                   const sdkm::AttributesProcessor *proc,
                                                   bool via_process)
{
  BufKV kv(es, f.kind == 2 && g_terminate_filter_keys);
  if (f.kind == 2 && g_terminate_filter_keys)
    vf::report().count("filter_key_views_terminated");
  if (via_process && proc)
  {
    sdkm::FilteredOrderedAttributeMap m = proc->process(kv);
    kv.kill(r.coin());
    return m;
  }
  sdkm::FilteredOrderedAttributeMap m(kv, proc);
  kv.kill(r.coin());
  return m;
}

static void equality_case(uint64_t seed)
{
  auto &R = vf::report();
  Rng r(seed);
  KeyPool kp = gen_keys(r, true);
  Filter f   = gen_filter(r, kp);
  auto proc  = f.make();
  bool nulkey = kp.has_nul;
  for (auto &k : f.allow)
    nulkey |= k.find('\0') != std::string::npos;
  std::string cls = f.cls + (nulkey && f.kind == 2 ? ":key-embedded-nul" : "");

  // base list: 0..8 keys, duplicates allowed
  std::vector<Entry> base;
  size_t n = static_cast<size_t>(r.range(0, 8));
  for (size_t i = 0; i < n; ++i)
    base.push_back({r.pick(kp.keys), gen_value(r, gen_type(r), true)});
  MMap mbase = last_wins(base);
  MMap fbase = f.apply(mbase);
  std::string sa = set_canon(fbase, false), la = set_canon(fbase, true);

  sdkm::FilteredOrderedAttributeMap A = build_map(r, base, f, proc.get(), false);
  R.count("maps_built");
  bool a_ok = sdk_canon(A) == sa;
  if (!a_ok)
    R.violation("map-content", cls,
                "list " + show_entries(base) + " filter " + show_filter(f) + " stored as " + vf::show(sdk_canon(A), 300) +
                    " want " + vf::show(sa, 300));

  uint64_t chash = vf::fnv1a(sa, vf::fnv1a(f.cls));
  size_t rounds  = static_cast<size_t>(r.range(3, 6));
  for (size_t t = 0; t < rounds; ++t)
  {
    std::vector<Entry> other;
    std::string mkind = "permutation";
    unsigned c        = static_cast<unsigned>(r.below(100));
    MMap m2           = mbase;
    if (c < 45)
    {
      // same map, presented differently
    }
    else if (c < 60 && !m2.empty())
    {
      auto it = m2.begin();
      std::advance(it, static_cast<long>(r.below(m2.size())));
      it->second = gen_value(r, r.coin() ? it->second.t : gen_type(r));
      mkind      = "value-changed";
    }
    else if (c < 75 && !m2.empty())
    {
      auto it = m2.begin();
      std::advance(it, static_cast<long>(r.below(m2.size())));
      it->second = retype(r, it->second);
      mkind      = "type-changed";
    }
    else if (c < 84 && !m2.empty())
    {
      auto it = m2.begin();
      std::advance(it, static_cast<long>(r.below(m2.size())));
      m2.erase(it);
      mkind = "key-removed";
    }
    else if (c < 93)
    {
      m2[r.pick(kp.keys)] = gen_value(r, gen_type(r));
      mkind               = "key-added";
    }
    else if (!m2.empty())
    {
      auto it = m2.begin();
      std::advance(it, static_cast<long>(r.below(m2.size())));
      AV v          = it->second;
      std::string k = it->first;
      m2.erase(it);
      m2[r.pick(kp.keys)] = v;  // the same value under another key of the pool (prefix / extension / NUL variant)
      mkind               = "key-changed";
    }
    other          = present(r, m2, f, kp, true);
    MMap f2        = f.apply(last_wins(other));
    std::string sb = set_canon(f2, false), lb = set_canon(f2, true);
    bool via_process = proc && r.chance(1, 3);
    sdkm::FilteredOrderedAttributeMap B = build_map(r, other, f, proc.get(), via_process);
    R.count("maps_built");
    if (via_process)
      R.count("maps_via_process");
    bool b_ok = sdk_canon(B) == sb;
    if (!b_ok)
      R.violation("map-content", cls,
                  "list " + show_entries(other) + " filter " + show_filter(f) + (via_process ? " via process()" : "") +
                      " stored as " + vf::show(sdk_canon(B), 300) + " want " + vf::show(sb, 300));
    if (!a_ok || !b_ok)
    {
      // the stored maps are not what the model says: comparing them would only repeat that finding
      R.count("pairs_skipped_after_content_mismatch");
      continue;
    }
    std::string wit = "A=" + show_entries(base) + " B=" + show_entries(other) + " filter " + show_filter(f);
    if (sa == sb)
    {
      R.count("equal_pairs");
      if (other.size() != base.size() || !std::equal(base.begin(), base.end(), other.begin(), [](const Entry &x, const Entry &y) {
            return x.key == y.key && canon(x.val, false) == canon(y.val, false);
          }))
        R.count("permutation_pairs");
      if (mkind != "permutation")
        R.count("equal_pairs_after_filtered_out_change");
      if (!(A == B) || !(B == A))
        R.violation("equal-sets-equal", cls, wit);
      if (A.GetHash() != B.GetHash() || sdkm::AttributeHashGenerator()(A) != sdkm::AttributeHashGenerator()(B) ||
          sdkm::FilteredOrderedAttributeMapHash()(A) != sdkm::FilteredOrderedAttributeMapHash()(B))
        R.violation("equal-sets-hash-equal", cls, wit);
    }
    else if (la != lb)
    {
      R.count("unequal_pairs");
      R.count("unequal_pairs_" + mkind);
      if (A == B || B == A)
        R.violation("unequal-sets-unequal", cls + ":" + mkind, wit);
      if (A.GetHash() != B.GetHash())
        R.count("unequal_pairs_hash_differs");
    }
    else
      R.count("equality_dontcare_pairs");
    chash = vf::mix(chash, vf::fnv1a(sb));
  }
  R.nontrivial(chash);
  if (R.want_sample(3) && r.chance(1, 60))
    R.sample("equality: filter " + show_filter(f) + " list " + show_entries(base) + " -> " + vf::show(sa, 160));
}

// ------------------------------------------------------------------------------------------
// Part 2: series, limits and conservation over collection cycles
// ------------------------------------------------------------------------------------------
struct Pt
{
  std::string attrs;  // strict canonical form
  bool overflow = false;
  int64_t units = 0;
  int64_t count = -1;  // histograms only
  bool bad      = false;
};

class PullReader : public sdkm::MetricReader
{
public:
  explicit PullReader(sdkm::AggregationTemporality t) : t_(t) {}
  sdkm::AggregationTemporality GetAggregationTemporality(sdkm::InstrumentType) const noexcept override { return t_; }

private:
  bool OnForceFlush(std::chrono::microseconds) noexcept override { return true; }
  bool OnShutDown(std::chrono::microseconds) noexcept override { return true; }
  sdkm::AggregationTemporality t_;
};

struct FakeCollector : sdkm::CollectorHandle
{
  sdkm::AggregationTemporality t;
  explicit FakeCollector(sdkm::AggregationTemporality tt) : t(tt) {}
  sdkm::AggregationTemporality GetAggregationTemporality(sdkm::InstrumentType) noexcept override { return t; }
};

static bool to_units(const sdkm::ValueType &v, bool is_double, int64_t &out)
{
  if (is_double)
  {
    if (!nostd::holds_alternative<double>(v))
      return false;
    double q = nostd::get<double>(v) * 4.0;
    if (!(std::fabs(q) < 9e15) || std::floor(q) != q)
      return false;
    out = static_cast<int64_t>(q);
    return true;
  }
  if (!nostd::holds_alternative<int64_t>(v))
    return false;
  out = nostd::get<int64_t>(v);
  return true;
}

static void take_metric(const sdkm::MetricData &md, bool is_double, std::vector<Pt> &out)
{
  for (auto &pda : md.point_data_attr_)
  {
    Pt p;
    p.attrs    = sdk_canon(pda.attributes);
    p.overflow = pda.attributes.find(kOverflowKey) != pda.attributes.end();
    if (nostd::holds_alternative<sdkm::SumPointData>(pda.point_data))
      p.bad = !to_units(nostd::get<sdkm::SumPointData>(pda.point_data).value_, is_double, p.units);
    else if (nostd::holds_alternative<sdkm::HistogramPointData>(pda.point_data))
    {
      auto &h = nostd::get<sdkm::HistogramPointData>(pda.point_data);
      p.bad   = !to_units(h.sum_, is_double, p.units);
      p.count = static_cast<int64_t>(h.count_);
    }
    else
      p.bad = true;
    out.push_back(p);
  }
}

struct SeriesBackend
{
  virtual ~SeriesBackend() {}
  virtual void record(int64_t units, BufKV *kv) = 0;  // kv == nullptr: the overload without attributes
  virtual void collect(size_t reader, std::vector<Pt> &out) = 0;
};

struct StorageBackend : SeriesBackend
{
  bool is_double;
  std::unique_ptr<sdkm::AttributesProcessor> proc;
  std::unique_ptr<sdkm::SyncMetricStorage> st;
  std::vector<std::shared_ptr<sdkm::CollectorHandle>> cols;
  opentelemetry::common::SystemTimestamp start;
  StorageBackend(bool dbl, bool histogram, const Filter &f, size_t limit, bool explicit_limit,
                 const std::vector<sdkm::AggregationTemporality> &temps)
      : is_double(dbl), proc(f.make()), start(std::chrono::system_clock::now())
  {
    sdkm::InstrumentDescriptor d{"c", "", "", histogram ? sdkm::InstrumentType::kHistogram : sdkm::InstrumentType::kCounter,
                                 dbl ? sdkm::InstrumentValueType::kDouble : sdkm::InstrumentValueType::kLong};
    auto at = histogram ? sdkm::AggregationType::kHistogram : sdkm::AggregationType::kSum;
    if (explicit_limit)
      st.reset(new sdkm::SyncMetricStorage(d, at, proc.get(), nullptr, limit));
    else
      st.reset(new sdkm::SyncMetricStorage(d, at, proc.get(), nullptr));
    for (auto t : temps)
      cols.push_back(std::make_shared<FakeCollector>(t));
  }
  void record(int64_t units, BufKV *kv) override
  {
    opentelemetry::context::Context ctx;
    if (is_double)
      kv ? st->RecordDouble(static_cast<double>(units) * 0.25, *kv, ctx) : st->RecordDouble(static_cast<double>(units) * 0.25, ctx);
    else
      kv ? st->RecordLong(units, *kv, ctx) : st->RecordLong(units, ctx);
  }
  void collect(size_t r, std::vector<Pt> &out) override
  {
    st->Collect(cols[r].get(), nostd::span<std::shared_ptr<sdkm::CollectorHandle>>(cols.data(), cols.size()), start,
                std::chrono::system_clock::now(), [&](sdkm::MetricData md) {
                  take_metric(md, is_double, out);
                  return true;
                });
  }
};

struct MeterBackend : SeriesBackend
{
  bool is_double;
  std::unique_ptr<sdkm::MeterProvider> mp;
  std::vector<std::shared_ptr<PullReader>> readers;
  nostd::unique_ptr<metrics_api::Counter<uint64_t>> cl;
  nostd::unique_ptr<metrics_api::Counter<double>> cd;
  MeterBackend(bool dbl, const Filter &f, const std::vector<sdkm::AggregationTemporality> &temps) : is_double(dbl)
  {
    mp.reset(new sdkm::MeterProvider());
    for (auto t : temps)
    {
      readers.push_back(std::make_shared<PullReader>(t));
      mp->AddMetricReader(readers.back());
    }
    if (f.kind != 0)
      mp->AddView(std::unique_ptr<sdkm::InstrumentSelector>(new sdkm::InstrumentSelector(sdkm::InstrumentType::kCounter, "c", "")),
                  std::unique_ptr<sdkm::MeterSelector>(new sdkm::MeterSelector("m", "", "")),
                  std::unique_ptr<sdkm::View>(new sdkm::View("", "", "", sdkm::AggregationType::kDefault, nullptr, f.make())));
    auto meter = mp->GetMeter("m");
    if (dbl)
      cd = meter->CreateDoubleCounter("c");
    else
      cl = meter->CreateUInt64Counter("c");
  }
  void record(int64_t units, BufKV *kv) override
  {
    opentelemetry::context::Context ctx;
    if (is_double)
      kv ? cd->Add(static_cast<double>(units) * 0.25, *kv, ctx) : cd->Add(static_cast<double>(units) * 0.25, ctx);
    else
      kv ? cl->Add(static_cast<uint64_t>(units), *kv, ctx) : cl->Add(static_cast<uint64_t>(units), ctx);
  }
  void collect(size_t r, std::vector<Pt> &out) override
  {
    readers[r]->Collect([&](sdkm::ResourceMetrics &rm) {
      for (auto &sm : rm.scope_metric_data_)
        for (auto &md : sm.metric_data_)
          take_metric(md, is_double, out);
      return true;
    });
  }
};

struct SeriesCfg
{
  bool meter = false, is_double = false, histogram = false, explicit_limit = false, big = false;
  size_t limit = 2000;
  Filter f;
  std::vector<sdkm::AggregationTemporality> temps;
  size_t cycles = 1;
};

struct Rec
{
  size_t set;       // index into the pool
  int64_t units;
  size_t interval;  // which interval map of the storage received it
};

static std::string show_scfg(const SeriesCfg &c)
{
  std::string s = std::string(c.meter ? "meter" : "storage") + (c.is_double ? " double" : " long") +
                  (c.histogram ? " histogram" : " sum") + " limit=" + std::to_string(c.limit) +
                  (c.explicit_limit ? "(explicit)" : "(default)") + " filter=" + show_filter(c.f) + " readers=";
  for (auto t : c.temps)
    s += t == sdkm::AggregationTemporality::kDelta ? "D" : "C";
  return s + " cycles=" + std::to_string(c.cycles);
}

static void series_history(Rng &r, const SeriesCfg &c, const KeyPool &kp, const std::vector<MMap> &pool,
                           const std::vector<size_t> &reveal)
{
  auto &R = vf::report();
  std::unique_ptr<SeriesBackend> be;
  if (c.meter)
    be.reset(new MeterBackend(c.is_double, c.f, c.temps));
  else
    be.reset(new StorageBackend(c.is_double, c.histogram, c.f, c.limit, c.explicit_limit, c.temps));
  // filtered canonical key of every pool member
  std::vector<std::string> fkey;
  for (auto &m : pool)
    fkey.push_back(set_canon(c.f.apply(m), false));
  std::string overflow_canon = lp(kOverflowKey) + "=b:1;";
  std::string limitcls       = c.explicit_limit ? "explicit-limit" : "default-limit";

  std::vector<Rec> seq;
  std::vector<size_t> cursor(c.temps.size(), 0);
  size_t interval = 0, collects = 0;
  bool terminate  = c.f.kind == 2 && g_terminate_filter_keys;
  bool over_c1 = false, over_later = false, cum_multi_over = false;

  for (size_t cy = 0; cy < c.cycles; ++cy)
  {
    size_t avail = reveal[cy], fresh_from = cy ? reveal[cy - 1] : 0;
    // measurements of this cycle: every newly revealed set at least once (mostly), plus random picks
    std::vector<size_t> picks;
    for (size_t i = fresh_from; i < avail; ++i)
      if (c.big || r.chance(7, 8))
        picks.push_back(i);
    size_t extra = c.big ? 300 : static_cast<size_t>(r.below(2 * avail + 2));
    for (size_t i = 0; i < extra; ++i)
      picks.push_back(static_cast<size_t>(r.below(avail)));
    if (!c.big)
      for (size_t x = picks.size(); x > 1; --x)
        std::swap(picks[x - 1], picks[r.below(x)]);
    for (size_t si : picks)
    {
      int64_t units = r.range(1, 1000);
      if (pool[si].empty() && r.coin())
      {
        be->record(units, nullptr);
        R.count("records_without_attributes");
      }
      else
      {
        std::vector<Entry> es = present(r, pool[si], c.f, kp, !c.big || r.chance(1, 8));
        BufKV kv(es, terminate);
        be->record(units, &kv);
        kv.kill(r.coin());
        if (terminate)
          R.count("filter_key_views_terminated");
      }
      seq.push_back({si, units, interval});
      R.count("records");
    }
    // who collects after this cycle: at least one reader, everybody after the last
    std::vector<size_t> who;
    for (size_t x = 0; x < c.temps.size(); ++x)
      if (cy + 1 == c.cycles || r.chance(3, 5))
        who.push_back(x);
    if (who.empty())
      who.push_back(static_cast<size_t>(r.below(c.temps.size())));
    for (size_t x = who.size(); x > 1; --x)
      std::swap(who[x - 1], who[r.below(x)]);
    for (size_t x : who)
    {
      bool delta = c.temps[x] == sdkm::AggregationTemporality::kDelta;
      std::vector<Pt> pts;
      be->collect(x, pts);
      // ---- the model's view of this reader's window
      size_t from = delta ? cursor[x] : 0;
      std::map<std::string, std::pair<int64_t, int64_t>> want;  // filtered set -> (units, measurements)
      std::set<size_t> ivs;
      int64_t tot_units = 0, tot_n = 0;
      for (size_t i = from; i < seq.size(); ++i)
      {
        auto &w = want[fkey[seq[i].set]];
        w.first += seq[i].units;
        w.second += 1;
        ivs.insert(seq[i].interval);
        tot_units += seq[i].units;
        ++tot_n;
      }
      size_t D       = want.size();
      bool merged    = ivs.size() >= 2;
      std::string cc = collects == 0 ? "cycle1" : "cycle>=2";
      std::string wc = merged ? "merged" : "fresh";
      std::string cls  = limitcls + ":" + cc + ":" + wc;
      // conservation: a single delta reader is served straight from the interval map; every other
      // configuration goes through the per-reader merge, which has a limit of its own
      bool fastpath    = c.temps.size() == 1 && delta;
      std::string ccls = limitcls + ":" + (fastpath ? "fastpath" : (D >= c.limit ? "merge-path-over-limit" : "merge-path"));
      std::string wit  = show_scfg(c) + " cycle " + std::to_string(cy + 1) + " collect#" + std::to_string(collects + 1) +
                        " reader " + std::to_string(x) + (delta ? "(delta)" : "(cumulative)") + " window: " +
                        std::to_string(tot_n) + " measurements, " + std::to_string(D) + " distinct sets over " +
                        std::to_string(ivs.size()) + " interval(s)";
      R.count("collects");
      R.count(delta ? "collects_delta" : "collects_cumulative");
      if (merged)
        R.count("collects_merged_window");
      if (D > c.limit)
      {
        R.count("collects_over_limit");
        if (collects == 0)
          over_c1 = true;
        else
          over_later = true;
        if (!delta && ivs.size() >= 2)
          cum_multi_over = true;
      }
      // ---- points
      size_t n_over = 0;
      bool malformed = false;
      std::map<std::string, size_t> seen;
      for (auto &p : pts)
      {
        if (p.bad)
        {
          malformed = true;
          R.violation("point-type", cls, "point of unexpected type or value class; " + wit);
        }
        ++seen[p.attrs];
        if (p.overflow)
        {
          ++n_over;
          if (p.attrs != overflow_canon)
            R.violation("overflow-attrs", cls, "overflow series has attributes " + vf::show(p.attrs, 200) + "; " + wit);
        }
      }
      for (auto &s : seen)
        if (s.second > 1)
        {
          R.violation("series-distinct", cls, std::to_string(s.second) + " series with attributes " + vf::show(s.first, 200) + "; " + wit);
          break;
        }
      bool count_ok = pts.size() <= c.limit;
      if (!count_ok)
        R.violation("series-le-limit", cls, std::to_string(pts.size()) + " series reported, limit " + std::to_string(c.limit) + "; " + wit);
      // conservation
      int64_t got_units = 0, got_n = 0;
      bool has_counts = false;
      for (auto &p : pts)
      {
        got_units += p.units;
        if (p.count >= 0)
        {
          has_counts = true;
          got_n += p.count;
        }
      }
      if (!malformed && (got_units != tot_units || (has_counts && got_n != tot_n)))
        R.violation("conserved", ccls,
                    "reported total " + std::to_string(got_units) + (has_counts ? " in " + std::to_string(got_n) + " measurements" : "") +
                        ", recorded " + std::to_string(tot_units) + " in " + std::to_string(tot_n) + "; " +
                        std::to_string(pts.size()) + " series, overflow series " + (n_over ? "present" : "absent") + "; " + wit);
      // the overflow series exists iff more distinct sets occurred than the limit allows
      if (D < c.limit)
      {
        if (n_over)
          R.violation("overflow-only-when-exceeded", cls, "overflow series although only " + std::to_string(D) + " distinct sets; " + wit);
      }
      else if (D == c.limit)
        R.count("overflow_at_limit_dontcare");
      else if (!n_over && count_ok)
        R.violation("overflow-present", cls, "no overflow series although " + std::to_string(D) + " distinct sets; " + wit);
      if (n_over)
        R.count("collects_with_overflow_series");
      // per series
      for (auto &p : pts)
      {
        if (p.overflow || p.bad)
          continue;
        auto it = want.find(p.attrs);
        if (it == want.end())
        {
          // a cumulative/merged window may legitimately report nothing else; anything unknown is wrong
          R.violation("series-known", cls, "series with attributes " + vf::show(p.attrs, 200) + " that no measurement in the window has; " + wit);
          continue;
        }
        bool ok = n_over ? (p.units <= it->second.first) : (p.units == it->second.first);
        if (ok && p.count >= 0)
          ok = n_over ? (p.count <= it->second.second) : (p.count == it->second.second);
        if (!ok)
          R.violation("series-value", cls + (n_over ? ":with-overflow" : ""),
                      "series " + vf::show(p.attrs, 160) + " reports " + std::to_string(p.units) + " want " +
                          (n_over ? "<= " : "") + std::to_string(it->second.first) + "; " + wit);
      }
      if (!n_over)
        for (auto &w : want)
          if (!seen.count(w.first))
          {
            R.violation("series-present", cls, "no series for " + vf::show(w.first, 160) + "; " + wit);
            break;
          }
      cursor[x] = seq.size();
      ++collects;
      ++interval;  // the storage swapped its interval map
    }
  }
  if (over_c1)
    R.count("cases_over_limit_cycle1");
  if (over_later)
    R.count("cases_over_limit_later_cycle");
  if (cum_multi_over)
    R.count("cases_cumulative_multicycle_overflow");
}

static void series_case(uint64_t seed, bool big)
{
  auto &R = vf::report();
  Rng r(seed);
  SeriesCfg c;
  c.big       = big;
  c.meter     = big || r.chance(1, 4);
  c.is_double = r.chance(1, 3);
  c.cycles    = static_cast<size_t>(big ? r.range(1, 3) : r.range(1, 4));
  if (!c.meter)
  {
    c.histogram      = r.chance(1, 5);
    c.explicit_limit = r.chance(9, 10);
    static const size_t limits[] = {1, 2, 3, 4, 10};
    c.limit = c.explicit_limit ? r.pick(limits) : 2000;
  }
  // readers
  unsigned q = static_cast<unsigned>(r.below(100));
  if (q < 25)
    c.temps = {sdkm::AggregationTemporality::kDelta};
  else if (q < 50)
    c.temps = {sdkm::AggregationTemporality::kCumulative};
  else
  {
    size_t n = static_cast<size_t>(r.range(2, 3));
    for (size_t i = 0; i < n; ++i)
      c.temps.push_back(r.coin() ? sdkm::AggregationTemporality::kDelta : sdkm::AggregationTemporality::kCumulative);
  }
  KeyPool kp;
  std::vector<MMap> pool;
  std::vector<size_t> reveal;
  if (big)
  {
    // 2200 distinct sets against the default limit of 2000
    kp.keys = {"id", "noise"};
    if (r.coin())
    {
      c.f.kind  = 2;
      c.f.cls   = "allow-subset";
      c.f.allow = {"id"};
    }
    else if (r.coin())
    {
      c.f.kind = 1;
      c.f.cls  = "default-processor";
    }
    for (int64_t i = 0; i < 2200; ++i)
    {
      MMap m;
      AV v;
      v.t = kI64;
      v.i = i;
      m["id"] = v;
      if (c.f.kind == 2 && (i & 3) == 0)
        m["noise"] = gen_value(r, kStr);
      pool.push_back(m);
    }
    static const size_t plans[][3] = {{2200, 2200, 2200}, {1500, 2200, 2200}, {1000, 1990, 2200}, {1999, 2000, 2001}, {2100, 2150, 2200}};
    const size_t *p = plans[r.below(5)];
    for (size_t cy = 0; cy < c.cycles; ++cy)
      reveal.push_back(p[cy]);
    R.count("cases_default_limit_2200_sets");
  }
  else
  {
    kp  = gen_keys(r, false);
    c.f = gen_filter(r, kp);
    if (c.f.kind == 0 && c.meter)
    {
      // through the Meter API "no processor" means no view at all
    }
    // target number of distinct filtered sets, biased to exceed an explicit limit
    size_t target;
    if (c.explicit_limit)
      target = r.chance(7, 10) ? c.limit + static_cast<size_t>(r.range(1, 6)) : static_cast<size_t>(r.range(1, static_cast<int64_t>(c.limit)));
    else
      target = static_cast<size_t>(r.range(1, 12));
    // per-key small value pools so that sets share keys and differ in values/types
    std::map<std::string, std::vector<AV>> vals;
    for (auto &k : kp.keys)
    {
      size_t nv = static_cast<size_t>(r.range(1, 4));
      for (size_t i = 0; i < nv; ++i)
        vals[k].push_back(i && r.chance(1, 3) ? retype(r, vals[k][0]) : gen_value(r, gen_type(r)));
    }
    std::set<std::string> strict_seen;
    std::map<std::string, std::string> loose_to_strict;
    size_t attempts = 0;
    while (strict_seen.size() < target && attempts++ < 400)
    {
      MMap m;
      size_t nk = static_cast<size_t>(r.range(0, 4));
      for (size_t i = 0; i < nk; ++i)
      {
        const std::string &k = r.pick(kp.keys);
        m[k]                 = r.pick(vals[k]);
      }
      MMap fm         = c.f.apply(m);
      std::string s   = set_canon(fm, false), l = set_canon(fm, true);
      auto it         = loose_to_strict.find(l);
      if (it != loose_to_strict.end() && it->second != s)
        continue;  // would make a don't-care pair of series (int width, signed zero, empty array)
      loose_to_strict[l] = s;
      // several unfiltered variants of the same filtered set are welcome: the filter must fold them
      if (strict_seen.count(s) && !r.chance(1, 3))
        continue;
      strict_seen.insert(s);
      pool.push_back(m);
    }
    if (pool.empty())
      pool.push_back(MMap());
    // reveal schedule: new sets appear per cycle
    size_t have = 0;
    for (size_t cy = 0; cy < c.cycles; ++cy)
    {
      size_t left = pool.size() - have;
      size_t add  = cy + 1 == c.cycles ? left : (r.chance(1, 3) ? left : static_cast<size_t>(r.below(left + 1)));
      have += add;
      if (have == 0)
        have = 1;
      reveal.push_back(have);
    }
  }
  R.count("series_cases");
  R.count(c.meter ? "series_cases_meter" : "series_cases_storage");
  R.count("series_filter_" + c.f.cls);
  if (c.explicit_limit)
    R.count("series_cases_explicit_limit_" + std::to_string(c.limit));
  if (c.histogram)
    R.count("series_cases_histogram");
  series_history(r, c, kp, pool, reveal);
  uint64_t h = vf::fnv1a(show_scfg(c));
  for (auto &m : pool)
    h = vf::mix(h, vf::fnv1a(set_canon(m, false)));
  for (auto x : reveal)
    h = vf::mix(h, x);
  R.nontrivial(h);
  if (R.want_sample(6) && r.chance(1, 40))
    R.sample("series: " + show_scfg(c) + " pool of " + std::to_string(pool.size()) + " sets, first " +
             (pool.empty() ? std::string("-") : vf::show(set_canon(pool[0], false), 100)));
}

// ------------------------------------------------------------------------------------------
// Start-up probe: does the allow-list lookup read past an exact-size key view?  Run in a child so
// that the sanitizer report (keyed by the driver from this process' stderr) does not end the
// run; afterwards keys handed over under an allow-list carry a terminator just behind the view,
// so that the one known lookup defect does not abort every filtered case.
// ------------------------------------------------------------------------------------------
static bool probe(int which)
{
  fflush(nullptr);
  pid_t pid = fork();
  if (pid == 0)
  {
    std::unordered_map<std::string, bool> m{{"abc", true}, {"abcd", true}};
    sdkm::FilteringAttributesProcessor p(m);
    std::vector<Entry> es;
    AV v;
    v.t = kI64;
    v.i = 1;
    es.push_back({"abc", v});
    BufKV kv(es, false);
    if (which == 0)
    {
      bool ok = true;
      kv.ForEachKeyValue([&](nostd::string_view k, common::AttributeValue) {
        ok = p.isPresent(k);
        return true;
      });
      _exit(ok ? 0 : 3);
    }
    sdkm::MetricAttributes out = p.process(kv);
    _exit(out.size() == 1 ? 0 : 3);
  }
  int st = 0;
  if (pid < 0 || waitpid(pid, &st, 0) < 0)
    return true;
  return WIFEXITED(st) && WEXITSTATUS(st) == 0;
}

int main(int argc, char **argv)
{
  auto &R = vf::report();
  R.init("C08", argc, argv);
  auto handler = nostd::shared_ptr<sdkc::internal_log::LogHandler>(new CountingLogHandler());
  sdkc::internal_log::GlobalLogHandler::SetLogHandler(handler);
  bool p0 = probe(0), p1 = probe(1);
  g_terminate_filter_keys = !(p0 && p1);
  R.count("probe_allowlist_lookup_clean", g_terminate_filter_keys ? 0 : 1);
  uint64_t eq_per_case = static_cast<uint64_t>(R.opt.param("equality_per_case", 2));
  uint64_t big_every   = static_cast<uint64_t>(R.opt.param("big_every", 500));
  R.run_cases([&](uint64_t i) {
    for (uint64_t j = 0; j < eq_per_case; ++j)
      equality_case(vf::mix(R.case_seed(i), 100 + j));
    series_case(vf::mix(R.case_seed(i), 7), false);
    if (big_every && i % big_every == big_every / 2)
      series_case(vf::mix(R.case_seed(i), 8), true);
  });
  R.count("sdk_log_messages", static_cast<CountingLogHandler *>(handler.get())->n);
  return R.finish();
}
