// C19 — instrument names, views and scope rules select exactly what they describe.
// Engine E1 (ASan+UBSan), three sub-engines selected with --param engine=names|views|scopes:
//   names : instrument created <=> name matches [A-Za-z][A-Za-z0-9_.\-/]{0,254} and the unit is
//           <= 63 bytes, all < 0x80.  Cases 0..2815 enumerate completely every single-byte name
//           and every position x byte mutant of the 10-byte name "aB3_.-/xZ9"; the rest is seeded.
//           Observable: streams at a pull reader after Add/Record/Observe.
//   views : 0..5 views (random selectors and settings) against 1..6 instruments in 1..3 meters,
//           1..2 readers (delta/cumulative), two record+collect rounds, compared with a model.
//   scopes: configurator rule lists (first match wins) against 1..8 scope requests for tracers,
//           meters and loggers; telemetry of disabled scopes, pointer identity of Get*.  Each
//           provider is assembled through one (seed-derived) of ALL public ways to hand over a
//           configurator: every constructor overload (one processor, vector of processors, ready
//           context) and every *ProviderFactory / *ContextFactory Create overload taking one.
// Strings are handed to the SDK as exact-size non-terminated heap views (vf::Buf) and killed
// right after the call.  Because the unchanged tree's ValidateName/ValidateUnit read such a view
// as a C string (ASan abort on EVERY name), each process first probes that once in a forked
// child: the child's ASan report lands in this shard's stderr and is keyed by the driver; the
// parent then hands names over in "hostile tail" form (view followed by bytes that flip the
// verdict if read, then a NUL) so that every other assertion is still evaluated without a crash.
#include "opentelemetry/common/key_value_iterable_view.h"
#include "opentelemetry/context/context.h"
#include "opentelemetry/logs/logger.h"
#include "opentelemetry/metrics/async_instruments.h"
#include "opentelemetry/metrics/meter.h"
#include "opentelemetry/metrics/observer_result.h"
#include "opentelemetry/metrics/sync_instruments.h"
#include "opentelemetry/sdk/common/global_log_handler.h"
#include "opentelemetry/sdk/instrumentationscope/instrumentation_scope.h"
#include "opentelemetry/sdk/instrumentationscope/scope_configurator.h"
#include "opentelemetry/sdk/logs/exporter.h"
#include "opentelemetry/sdk/logs/logger_config.h"
#include "opentelemetry/sdk/logs/logger_context.h"
#include "opentelemetry/sdk/logs/logger_context_factory.h"
#include "opentelemetry/sdk/logs/logger_provider.h"
#include "opentelemetry/sdk/logs/logger_provider_factory.h"
#include "opentelemetry/sdk/logs/read_write_log_record.h"
#include "opentelemetry/sdk/logs/simple_log_record_processor.h"
#include "opentelemetry/sdk/metrics/aggregation/aggregation_config.h"
#include "opentelemetry/sdk/metrics/export/metric_producer.h"
#include "opentelemetry/sdk/metrics/instruments.h"
#include "opentelemetry/sdk/metrics/meter_config.h"
#include "opentelemetry/sdk/metrics/meter_context.h"
#include "opentelemetry/sdk/metrics/meter_context_factory.h"
#include "opentelemetry/sdk/metrics/meter_provider.h"
#include "opentelemetry/sdk/metrics/meter_provider_factory.h"
#include "opentelemetry/sdk/metrics/metric_reader.h"
#include "opentelemetry/sdk/metrics/view/attributes_processor.h"
#include "opentelemetry/sdk/metrics/view/instrument_selector.h"
#include "opentelemetry/sdk/metrics/view/meter_selector.h"
#include "opentelemetry/sdk/metrics/view/view.h"
#include "opentelemetry/sdk/metrics/view/view_registry.h"
#include "opentelemetry/sdk/resource/resource.h"
#include "opentelemetry/sdk/trace/exporter.h"
#include "opentelemetry/sdk/trace/simple_processor.h"
#include "opentelemetry/sdk/trace/span_data.h"
#include "opentelemetry/sdk/trace/tracer_config.h"
#include "opentelemetry/sdk/trace/tracer_context.h"
#include "opentelemetry/sdk/trace/tracer_context_factory.h"
#include "opentelemetry/sdk/trace/tracer_provider.h"
#include "opentelemetry/sdk/trace/tracer_provider_factory.h"
#include "opentelemetry/trace/span.h"
#include "opentelemetry/trace/tracer.h"

#include <regex>
#include <sys/wait.h>

#include "vf_core.h"

namespace nostd       = opentelemetry::nostd;
namespace common      = opentelemetry::common;
namespace metrics_api = opentelemetry::metrics;
namespace sdkm        = opentelemetry::sdk::metrics;
namespace sdkt        = opentelemetry::sdk::trace;
namespace sdkl        = opentelemetry::sdk::logs;
namespace sdkscope    = opentelemetry::sdk::instrumentationscope;
namespace sdkres      = opentelemetry::sdk::resource;
using vf::Rng;

typedef std::map<std::string, std::string> Attrs;

// ------------------------------------------------------------------------------------------
// SDK diagnostics: counted, never printed
// ------------------------------------------------------------------------------------------
static uint64_t g_sdk_log_messages = 0;
class SilentLog : public opentelemetry::sdk::common::internal_log::LogHandler
{
public:
  void Handle(opentelemetry::sdk::common::internal_log::LogLevel,
              const char *,
              int,
              const char *,
              const opentelemetry::sdk::common::AttributeMap &) noexcept override
  {
    ++g_sdk_log_messages;
  }
};

// ------------------------------------------------------------------------------------------
// string arguments: exact non-terminated view, or view + hostile tail + NUL
// ------------------------------------------------------------------------------------------
static bool g_name_exact = true;  // exact views for instrument names are survivable on this tree
static bool g_unit_exact = true;

struct Arg
{
  vf::Buf buf;
  size_t n = 0, off = 0;
  Arg() {}
  Arg(const std::string &s, bool exact, const std::string &tail = std::string())
  {
    if (exact && s.empty())
    {
      // an empty view that ends exactly at the end of its block (vf::Buf's own empty form views
      // byte 0 of a one-byte block, which hides a one-byte over-read such as name[0])
      buf = vf::Buf(std::string(1, '\x7f'));
      off = 1;
    }
    else if (exact)
      buf = vf::Buf(s);
    else
    {
      std::string t = s + tail;
      t.push_back('\0');
      buf = vf::Buf(t);
    }
    n = s.size();
  }
  nostd::string_view view() const { return nostd::string_view(buf.data() + off, n); }
  void kill(Rng &r) { r.coin() ? buf.scribble() : buf.release(); }
};

// ------------------------------------------------------------------------------------------
// instruments: the six kinds x {integer, double}
// ------------------------------------------------------------------------------------------
enum Kind
{
  kCounterK = 0,
  kUpDownK,
  kHistogramK,
  kObsCounterK,
  kObsUpDownK,
  kObsGaugeK,
  kKinds
};

static sdkm::InstrumentType kind_type(int k)
{
  static const sdkm::InstrumentType t[] = {sdkm::InstrumentType::kCounter,
                                           sdkm::InstrumentType::kUpDownCounter,
                                           sdkm::InstrumentType::kHistogram,
                                           sdkm::InstrumentType::kObservableCounter,
                                           sdkm::InstrumentType::kObservableUpDownCounter,
                                           sdkm::InstrumentType::kObservableGauge};
  return t[k];
}

static const char *type_name(sdkm::InstrumentType t)
{
  switch (t)
  {
    case sdkm::InstrumentType::kCounter:
      return "counter";
    case sdkm::InstrumentType::kHistogram:
      return "histogram";
    case sdkm::InstrumentType::kUpDownCounter:
      return "updowncounter";
    case sdkm::InstrumentType::kObservableCounter:
      return "observable-counter";
    case sdkm::InstrumentType::kObservableGauge:
      return "observable-gauge";
    case sdkm::InstrumentType::kObservableUpDownCounter:
      return "observable-updowncounter";
    case sdkm::InstrumentType::kGauge:
      return "gauge";
  }
  return "?";
}

static bool is_async(int k)
{
  return k >= kObsCounterK;
}

struct ObsState
{
  std::vector<std::pair<Attrs, double>> current;  // what the callback reports right now
  uint64_t calls = 0;
};

static void obs_callback(metrics_api::ObserverResult res, void *state)
{
  ObsState *s = static_cast<ObsState *>(state);
  ++s->calls;
  if (nostd::holds_alternative<nostd::shared_ptr<metrics_api::ObserverResultT<int64_t>>>(res))
  {
    auto r = nostd::get<nostd::shared_ptr<metrics_api::ObserverResultT<int64_t>>>(res);
    for (auto &m : s->current)
      r->Observe(static_cast<int64_t>(m.second), common::KeyValueIterableView<Attrs>(m.first));
  }
  else
  {
    auto r = nostd::get<nostd::shared_ptr<metrics_api::ObserverResultT<double>>>(res);
    for (auto &m : s->current)
      r->Observe(m.second, common::KeyValueIterableView<Attrs>(m.first));
  }
}

struct Instr
{
  int kind = 0;
  bool dbl = false;
  nostd::unique_ptr<metrics_api::Counter<uint64_t>> c_u;
  nostd::unique_ptr<metrics_api::Counter<double>> c_d;
  nostd::unique_ptr<metrics_api::UpDownCounter<int64_t>> u_i;
  nostd::unique_ptr<metrics_api::UpDownCounter<double>> u_d;
  nostd::unique_ptr<metrics_api::Histogram<uint64_t>> h_u;
  nostd::unique_ptr<metrics_api::Histogram<double>> h_d;
  nostd::shared_ptr<metrics_api::ObservableInstrument> obs;
  std::unique_ptr<ObsState> st;

  Instr() {}
  Instr(const Instr &)            = delete;
  Instr &operator=(const Instr &) = delete;
  ~Instr()
  {
    if (obs && st)
      obs->RemoveCallback(obs_callback, st.get());
  }

  void create(metrics_api::Meter &m,
              int k,
              bool d,
              nostd::string_view name,
              nostd::string_view desc,
              nostd::string_view unit)
  {
    kind = k;
    dbl  = d;
    switch (k)
    {
      case kCounterK:
        if (d)
          c_d = m.CreateDoubleCounter(name, desc, unit);
        else
          c_u = m.CreateUInt64Counter(name, desc, unit);
        break;
      case kUpDownK:
        if (d)
          u_d = m.CreateDoubleUpDownCounter(name, desc, unit);
        else
          u_i = m.CreateInt64UpDownCounter(name, desc, unit);
        break;
      case kHistogramK:
        if (d)
          h_d = m.CreateDoubleHistogram(name, desc, unit);
        else
          h_u = m.CreateUInt64Histogram(name, desc, unit);
        break;
      case kObsCounterK:
        obs = d ? m.CreateDoubleObservableCounter(name, desc, unit) : m.CreateInt64ObservableCounter(name, desc, unit);
        break;
      case kObsUpDownK:
        obs = d ? m.CreateDoubleObservableUpDownCounter(name, desc, unit)
                : m.CreateInt64ObservableUpDownCounter(name, desc, unit);
        break;
      default:
        obs = d ? m.CreateDoubleObservableGauge(name, desc, unit) : m.CreateInt64ObservableGauge(name, desc, unit);
        break;
    }
    if (is_async(k) && obs)
    {
      st.reset(new ObsState());
      obs->AddCallback(obs_callback, st.get());
    }
  }

  bool non_null() const
  {
    switch (kind)
    {
      case kCounterK:
        return dbl ? static_cast<bool>(c_d) : static_cast<bool>(c_u);
      case kUpDownK:
        return dbl ? static_cast<bool>(u_d) : static_cast<bool>(u_i);
      case kHistogramK:
        return dbl ? static_cast<bool>(h_d) : static_cast<bool>(h_u);
      default:
        return static_cast<bool>(obs);
    }
  }

  // synchronous measurement; attrs == nullptr uses the overload without attributes
  void record(double v, const Attrs *attrs)
  {
    opentelemetry::context::Context ctx{};
    switch (kind)
    {
      case kCounterK:
        if (dbl)
          attrs ? c_d->Add(v, common::KeyValueIterableView<Attrs>(*attrs)) : c_d->Add(v);
        else
          attrs ? c_u->Add(static_cast<uint64_t>(v), common::KeyValueIterableView<Attrs>(*attrs))
                : c_u->Add(static_cast<uint64_t>(v));
        break;
      case kUpDownK:
        if (dbl)
          attrs ? u_d->Add(v, common::KeyValueIterableView<Attrs>(*attrs)) : u_d->Add(v);
        else
          attrs ? u_i->Add(static_cast<int64_t>(v), common::KeyValueIterableView<Attrs>(*attrs))
                : u_i->Add(static_cast<int64_t>(v));
        break;
      case kHistogramK:
        if (dbl)
          attrs ? h_d->Record(v, common::KeyValueIterableView<Attrs>(*attrs), ctx) : h_d->Record(v, ctx);
        else
          attrs ? h_u->Record(static_cast<uint64_t>(v), common::KeyValueIterableView<Attrs>(*attrs), ctx)
                : h_u->Record(static_cast<uint64_t>(v), ctx);
        break;
      default:
        break;
    }
  }
};

// ------------------------------------------------------------------------------------------
// pull reader and a plain copy of what it hands out
// ------------------------------------------------------------------------------------------
class PullReader : public sdkm::MetricReader
{
public:
  explicit PullReader(sdkm::AggregationTemporality t) : t_(t) {}
  sdkm::AggregationTemporality GetAggregationTemporality(sdkm::InstrumentType) const noexcept override { return t_; }
  sdkm::AggregationTemporality temporality() const { return t_; }

private:
  bool OnForceFlush(std::chrono::microseconds) noexcept override { return true; }
  bool OnShutDown(std::chrono::microseconds) noexcept override { return true; }
  sdkm::AggregationTemporality t_;
};

enum PKind
{
  kPSum = 0,
  kPHist,
  kPLast,
  kPDrop
};
static const char *pkind_name(int k)
{
  static const char *n[] = {"sum", "histogram", "lastvalue", "drop"};
  return n[k];
}

struct Point
{
  Attrs attrs;
  int kind    = kPDrop;
  bool mono   = false;
  bool is_int = false;
  double val  = 0;  // sum / last value
  std::vector<double> bounds;
  std::vector<uint64_t> counts;
  uint64_t count = 0;
  double sum     = 0;
  bool minmax    = true;
};

struct Stream
{
  std::string sname, sver, sschema;
  std::string name, desc, unit;
  sdkm::InstrumentType type        = sdkm::InstrumentType::kCounter;
  sdkm::InstrumentValueType vtype  = sdkm::InstrumentValueType::kLong;
  sdkm::AggregationTemporality tmp = sdkm::AggregationTemporality::kUnspecified;
  std::vector<Point> pts;
};

static double value_of(const sdkm::ValueType &v, bool *is_int)
{
  if (nostd::holds_alternative<int64_t>(v))
  {
    if (is_int)
      *is_int = true;
    return static_cast<double>(nostd::get<int64_t>(v));
  }
  if (is_int)
    *is_int = false;
  return nostd::get<double>(v);
}

static std::vector<Stream> collect(PullReader &reader)
{
  std::vector<Stream> out;
  reader.Collect([&](sdkm::ResourceMetrics &rm) {
    for (auto &sm : rm.scope_metric_data_)
    {
      for (auto &md : sm.metric_data_)
      {
        Stream s;
        if (sm.scope_)
        {
          s.sname   = sm.scope_->GetName();
          s.sver    = sm.scope_->GetVersion();
          s.sschema = sm.scope_->GetSchemaURL();
        }
        s.name  = md.instrument_descriptor.name_;
        s.desc  = md.instrument_descriptor.description_;
        s.unit  = md.instrument_descriptor.unit_;
        s.type  = md.instrument_descriptor.type_;
        s.vtype = md.instrument_descriptor.value_type_;
        s.tmp   = md.aggregation_temporality;
        for (auto &pa : md.point_data_attr_)
        {
          Point p;
          for (auto &kv : pa.attributes)
            p.attrs[kv.first] = nostd::holds_alternative<std::string>(kv.second) ? nostd::get<std::string>(kv.second)
                                                                                  : std::string("<non-string>");
          if (nostd::holds_alternative<sdkm::SumPointData>(pa.point_data))
          {
            auto &d = nostd::get<sdkm::SumPointData>(pa.point_data);
            p.kind  = kPSum;
            p.mono  = d.is_monotonic_;
            p.val   = value_of(d.value_, &p.is_int);
          }
          else if (nostd::holds_alternative<sdkm::HistogramPointData>(pa.point_data))
          {
            auto &d  = nostd::get<sdkm::HistogramPointData>(pa.point_data);
            p.kind   = kPHist;
            p.bounds = d.boundaries_;
            p.counts = d.counts_;
            p.count  = d.count_;
            p.sum    = value_of(d.sum_, &p.is_int);
            p.minmax = d.record_min_max_;
          }
          else if (nostd::holds_alternative<sdkm::LastValuePointData>(pa.point_data))
          {
            auto &d = nostd::get<sdkm::LastValuePointData>(pa.point_data);
            p.kind  = kPLast;
            p.val   = value_of(d.value_, &p.is_int);
          }
          else
            p.kind = kPDrop;
          s.pts.push_back(p);
        }
        out.push_back(s);
      }
    }
    return true;
  });
  return out;
}

static std::string show_attrs(const Attrs &a)
{
  std::string s = "{";
  for (auto &kv : a)
    s += (s.size() > 1 ? "," : "") + kv.first + "=" + kv.second;
  return s + "}";
}

static std::string num(double v)
{
  char b[40];
  snprintf(b, sizeof b, "%.17g", v);
  return b;
}

static std::string show_stream(const Stream &s)
{
  std::string o = "[" + vf::show(s.sname, 20) + "|" + vf::show(s.sver, 10) + "|" + vf::show(s.sschema, 20) + "] " +
                  vf::show(s.name, 60) + " desc=" + vf::show(s.desc, 30) + " unit=" + vf::show(s.unit, 30) + " " +
                  type_name(s.type) + (s.vtype == sdkm::InstrumentValueType::kDouble ? ":double" : ":long") + " pts=";
  for (size_t i = 0; i < s.pts.size() && i < 6; ++i)
  {
    auto &p = s.pts[i];
    o += show_attrs(p.attrs) + ":" + pkind_name(p.kind);
    if (p.kind == kPSum)
      o += std::string(p.mono ? "(mono)" : "(nonmono)") + num(p.val);
    else if (p.kind == kPLast)
      o += num(p.val);
    else if (p.kind == kPHist)
    {
      o += " n=" + std::to_string(p.count) + " sum=" + num(p.sum) + " b=[";
      for (size_t j = 0; j < p.bounds.size() && j < 16; ++j)
        o += (j ? "," : "") + num(p.bounds[j]);
      o += "] c=[";
      for (size_t j = 0; j < p.counts.size() && j < 17; ++j)
        o += (j ? "," : "") + std::to_string(p.counts[j]);
      o += std::string("]") + (p.minmax ? "" : " nominmax");
    }
    o += " ";
  }
  return o;
}

static std::unique_ptr<sdkm::MeterProvider> new_meter_provider(
    std::unique_ptr<sdkscope::ScopeConfigurator<sdkm::MeterConfig>> cfg = nullptr)
{
  if (!cfg)
    cfg = std::make_unique<sdkscope::ScopeConfigurator<sdkm::MeterConfig>>(
        sdkscope::ScopeConfigurator<sdkm::MeterConfig>::Builder(sdkm::MeterConfig::Default()).Build());
  return std::unique_ptr<sdkm::MeterProvider>(new sdkm::MeterProvider(
      std::unique_ptr<sdkm::ViewRegistry>(new sdkm::ViewRegistry()), sdkres::Resource::GetEmpty(), std::move(cfg)));
}

// ------------------------------------------------------------------------------------------
// probe (forked child): does this tree survive an exact non-terminated name / unit view?
// ------------------------------------------------------------------------------------------
static bool probe_exact(bool probe_unit)
{
  fflush(nullptr);
  pid_t pid = fork();
  if (pid < 0)
    return true;  // cannot probe: use exact views, a crash is then handled by the driver
  if (pid == 0)
  {
    {
      auto provider = new_meter_provider();
      auto meter    = provider->GetMeter("probe");
      Arg name("probe.name", !probe_unit);
      Arg unit("ms", probe_unit);
      auto c = meter->CreateUInt64Counter(name.view(), "", unit.view());
      if (c)
        c->Add(1);
    }
    _exit(0);
  }
  int st = 0;
  while (waitpid(pid, &st, 0) < 0 && errno == EINTR)
  {}
  return WIFEXITED(st) && WEXITSTATUS(st) == 0;
}

// ==========================================================================================
// (a) names and units
// ==========================================================================================
static bool is_alpha(unsigned char c)
{
  return (c >= 'a' && c <= 'z') || (c >= 'A' && c <= 'Z');
}
static bool is_digit(unsigned char c)
{
  return c >= '0' && c <= '9';
}
static bool is_name_punct(unsigned char c)
{
  return c == '_' || c == '.' || c == '-' || c == '/';
}

// the recogniser of the property text: [A-Za-z][A-Za-z0-9_.\-/]{0,254}
static bool name_valid(const std::string &s)
{
  if (s.empty() || s.size() > 255 || !is_alpha(static_cast<unsigned char>(s[0])))
    return false;
  for (size_t i = 1; i < s.size(); ++i)
  {
    unsigned char c = static_cast<unsigned char>(s[i]);
    if (!is_alpha(c) && !is_digit(c) && !is_name_punct(c))
      return false;
  }
  return true;
}

static const char *byte_class(unsigned char c)
{
  if (c == 0)
    return "nul";
  if (c >= 0x80)
    return "byte>=0x80";
  if (c < 0x20 || c == 0x7f)
    return "control";
  if (c == ' ')
    return "space";
  if (is_digit(c))
    return "digit";
  if (is_name_punct(c))
    return "name-punct";
  if (is_alpha(c))
    return "alpha";
  return "other-punct";
}

// small canonical class of a name (reason of the model's verdict)
static std::string name_class(const std::string &s)
{
  if (s.empty())
    return "empty";
  if (s.find('\0') != std::string::npos)
    return "embedded-nul";
  for (unsigned char c : s)
    if (c >= 0x80)
      return "byte>=0x80";
  if (!is_alpha(static_cast<unsigned char>(s[0])))
    return std::string("first-char:") + byte_class(static_cast<unsigned char>(s[0]));
  for (size_t i = 1; i < s.size(); ++i)
  {
    unsigned char c = static_cast<unsigned char>(s[i]);
    if (!is_alpha(c) && !is_digit(c) && !is_name_punct(c))
      return std::string("invalid-char:") + byte_class(c);
  }
  if (s.size() == 256)
    return "len=256";
  if (s.size() > 256)
    return "len>256";
  // valid
  if (s.size() == 255)
    return "valid-len=255";
  if (s.size() == 1)
    return "valid-len=1";
  if (s.find('/') != std::string::npos)
    return "valid:has-slash";
  if (s.find('-') != std::string::npos)
    return "valid:has-dash";
  if (s.find('.') != std::string::npos)
    return "valid:has-dot";
  if (s.find('_') != std::string::npos)
    return "valid:has-underscore";
  for (unsigned char c : s)
    if (is_digit(c))
      return "valid:has-digit";
  return "valid:alpha-only";
}

enum Tri
{
  kNo       = 0,
  kYes      = 1,
  kDontCare = 2
};

// unit: <= 63 bytes, all < 0x80; a NUL inside a unit is don't-care
static Tri unit_valid(const std::string &u)
{
  if (u.find('\0') != std::string::npos)
    return kDontCare;
  if (u.size() > 63)
    return kNo;
  for (unsigned char c : u)
    if (c >= 0x80)
      return kNo;
  return kYes;
}

static std::string unit_class(const std::string &u)
{
  if (u.find('\0') != std::string::npos)
    return "embedded-nul";
  for (unsigned char c : u)
    if (c >= 0x80)
      return "byte>=0x80";
  if (u.size() == 64)
    return "len=64";
  if (u.size() > 64)
    return "len>64";
  if (u.size() == 63)
    return "valid-len=63";
  if (u.empty())
    return "valid-empty";
  return "valid";
}

static const std::string kNameRest  = "abcdefghijklmnopqrstuvwxyzABCDEFGHIJKLMNOPQRSTUVWXYZ0123456789_.-/";
static const std::string kNameAlpha = "abcdefghijklmnopqrstuvwxyzABCDEFGHIJKLMNOPQRSTUVWXYZ";
static const std::string kBaseName  = "aB3_.-/xZ9";  // 10 bytes, every character class of the grammar

static std::string valid_name(Rng &r, size_t n)
{
  if (n == 0)
    return "";
  return r.bytes(1, kNameAlpha) + r.bytes(n - 1, kNameRest);
}

static std::string gen_name(Rng &r)
{
  unsigned c = static_cast<unsigned>(r.below(100));
  if (c < 26)
    return valid_name(r, static_cast<size_t>(r.range(1, 40)));
  if (c < 31)
    return valid_name(r, 254);
  if (c < 38)
    return valid_name(r, 255);
  if (c < 44)
    return valid_name(r, 256);
  if (c < 47)
    return valid_name(r, r.coin() ? 257 : 300);
  if (c < 50)
    return "";
  if (c < 58)
    return r.bytes(1, "0123456789_.-/") + r.bytes(static_cast<size_t>(r.range(0, 12)), kNameRest);
  if (c < 68)
  {
    std::string s       = valid_name(r, static_cast<size_t>(r.range(1, 30)));
    s[r.below(s.size())] = static_cast<char>(r.below(256));
    return s;
  }
  if (c < 76)
  {
    std::string s = valid_name(r, static_cast<size_t>(r.range(1, 12)));
    s.push_back('\0');
    s += r.coin() ? r.bytes(static_cast<size_t>(r.range(0, 6)), "!@ #") : r.bytes(static_cast<size_t>(r.range(0, 6)), kNameRest);
    return s;
  }
  if (c < 82)
  {
    std::string s = valid_name(r, static_cast<size_t>(r.range(1, 20)));
    s.insert(s.begin() + static_cast<long>(r.below(s.size() + 1)), static_cast<char>(0x80 + r.below(0x80)));
    return s;
  }
  if (c < 88)
    return r.anybytes(static_cast<size_t>(r.range(0, 300)));
  if (c < 94)
  {
    std::string s = valid_name(r, static_cast<size_t>(r.range(1, 20)));
    s.insert(s.begin() + static_cast<long>(1 + r.below(s.size())), r.pick(std::vector<char>{'!', ' ', '@', ':', '\\', '*', '+', '~', '\t', '\n', '\x7f'}));
    return s;
  }
  return valid_name(r, static_cast<size_t>(r.range(100, 255)));
}

static std::string ascii_unit(Rng &r, size_t n)
{
  std::string s;
  for (size_t i = 0; i < n; ++i)
    s.push_back(static_cast<char>(r.chance(1, 6) ? 1 + r.below(0x7f) : 0x20 + r.below(0x5f)));
  return s;
}

static std::string gen_unit(Rng &r)
{
  unsigned c = static_cast<unsigned>(r.below(100));
  if (c < 30)
    return r.pick(std::vector<std::string>{"ms", "By", "1", "{request}", "s", "kBy/s", "%"});
  if (c < 45)
    return ascii_unit(r, static_cast<size_t>(r.range(1, 62)));
  if (c < 56)
    return ascii_unit(r, 63);
  if (c < 66)
    return ascii_unit(r, 64);
  if (c < 71)
    return ascii_unit(r, static_cast<size_t>(r.range(65, 300)));
  if (c < 80)
  {
    std::string s = ascii_unit(r, static_cast<size_t>(r.range(0, 30)));
    s.insert(s.begin() + static_cast<long>(r.below(s.size() + 1)), static_cast<char>(0x80 + r.below(0x80)));
    return s;
  }
  if (c < 85)
  {
    std::string s = ascii_unit(r, static_cast<size_t>(r.range(0, 20)));
    s.insert(s.begin() + static_cast<long>(r.below(s.size() + 1)), '\0');
    if (r.coin())
      s += ascii_unit(r, static_cast<size_t>(r.range(40, 100)));  // over-long behind the NUL
    return s;
  }
  if (c < 92)
    return "";
  return r.anybytes(static_cast<size_t>(r.range(0, 80)));
}

// what a reader that ignores the view length would see: view bytes + tail, up to the first NUL
static std::string overread_image(const std::string &s, const std::string &tail)
{
  std::string t = s + tail;
  return t.substr(0, t.find('\0'));
}

static void names_case(uint64_t i, uint64_t seed)
{
  auto &R = vf::report();
  Rng r(seed);
  std::string name, unit, desc;
  int kind;
  bool dbl;
  enum
  {
    kFocusName,
    kFocusUnit,
    kFocusBoth
  } focus;
  bool enumerated = i < 2816;
  if (i < 256)
  {
    name  = std::string(1, static_cast<char>(i));
    unit  = (i & 1) ? "ms" : "";
    kind  = static_cast<int>(i % kKinds);
    dbl   = (i / kKinds) & 1;
    focus = kFocusName;
  }
  else if (i < 2816)
  {
    size_t pos = static_cast<size_t>((i - 256) / 256);
    name       = kBaseName;
    name[pos]  = static_cast<char>((i - 256) % 256);
    unit       = (i & 1) ? "By" : "";
    kind       = static_cast<int>(i % kKinds);
    dbl        = (i / kKinds) & 1;
    focus      = kFocusName;
  }
  else
  {
    kind       = static_cast<int>(r.below(kKinds));
    dbl        = r.coin();
    unsigned c = static_cast<unsigned>(r.below(10));
    if (c < 5)
    {
      focus = kFocusName;
      name  = gen_name(r);
      unit  = r.pick(std::vector<std::string>{"", "ms", "By", "1"});
    }
    else if (c < 8)
    {
      focus = kFocusUnit;
      name  = valid_name(r, static_cast<size_t>(r.range(1, 20)));
      unit  = gen_unit(r);
    }
    else
    {
      focus = kFocusBoth;
      name  = gen_name(r);
      unit  = gen_unit(r);
    }
  }
  desc = r.chance(1, 3) ? r.anybytes(static_cast<size_t>(r.range(0, 40))) : std::string("description");

  bool nvalid = name_valid(name);
  Tri uvalid  = unit_valid(unit);
  std::string ncls = name_class(name), ucls = unit_class(unit);

  // hostile tails (only used when exact views are not survivable on this tree)
  std::string ntail, utail;
  bool name_exact = g_name_exact, unit_exact = g_unit_exact;
  if (!name_exact && focus != kFocusUnit)
    ntail = name.empty() ? "zz" : "!";
  if (!unit_exact && focus != kFocusName)
    utail = unit.size() <= 63 ? std::string(1, '\x80') + std::string(64, 'u') : "u";
  // the tail can only be reached by a reader that is not stopped by a NUL inside the view
  bool name_tail_matters = !name_exact && name.find('\0') == std::string::npos &&
                           name_valid(overread_image(name, ntail)) != nvalid;
  bool unit_tail_matters =
      !unit_exact && uvalid != kDontCare && (unit_valid(overread_image(unit, utail)) == kYes) != (uvalid == kYes);
  if (name_tail_matters)
    ncls = "unterminated-view";
  if (unit_tail_matters)
    ucls = "unterminated-view";

  auto provider = new_meter_provider();
  std::shared_ptr<PullReader> reader(
      new PullReader(r.coin() ? sdkm::AggregationTemporality::kDelta : sdkm::AggregationTemporality::kCumulative));
  provider->AddMetricReader(reader);
  Arg mname("meter.c19", true);
  auto meter = provider->GetMeter(mname.view());
  mname.kill(r);

  Instr ins;
  {
    Arg an(name, name_exact, ntail), au(unit, unit_exact, utail), ad(desc, true);
    ins.create(*meter, kind, dbl, an.view(), ad.view(), au.view());
    an.kill(r);
    au.kill(r);
    ad.kill(r);
  }
  R.count(name_exact ? "names_exact_views" : "names_tail_views");
  R.count(std::string("kind_") + type_name(kind_type(kind)) + (dbl ? "_double" : "_int"));
  if (enumerated)
    R.count("names_enumerated");
  else
    R.count("names_random");

  std::string witness = "name=" + vf::show(name, 320) + " (" + std::to_string(name.size()) + " bytes) unit=" +
                        vf::show(unit, 80) + " (" + std::to_string(unit.size()) + " bytes) kind=" +
                        type_name(kind_type(kind)) + (dbl ? ":double" : ":int") +
                        (name_exact ? " exact-view" : " tail=" + vf::show(ntail)) + (unit_exact ? "" : " unit-tail");
  if (!ins.non_null())
  {
    R.violation("instrument-returned", type_name(kind_type(kind)), "null instrument for " + witness);
    return;
  }

  // two rounds of measurement + collection: "no stream EVER appears"
  Attrs at{{"k", "v"}};
  std::vector<Stream> seen;
  double total = 0;
  for (int round = 0; round < 2; ++round)
  {
    double v = 5 + round * 2;
    if (is_async(kind))
    {
      if (ins.st)
        ins.st->current = {{round ? at : Attrs{}, v}};
    }
    else
      ins.record(v, round ? &at : nullptr);
    total += v;
    auto got = collect(*reader);
    for (auto &s : got)
      seen.push_back(s);
    if (round == 0 && got.size() == 1 && !got[0].pts.empty())
    {
      // the Add had its effect
      auto &p     = got[0].pts[0];
      double have = p.kind == kPHist ? p.sum : p.val;
      if (have != v)
        R.violation("created-stream-exact", "value", "first point " + num(have) + " want " + num(v) + " for " + witness);
    }
  }
  bool created = !seen.empty();

  bool dontcare = uvalid == kDontCare && nvalid;
  bool want     = nvalid && uvalid == kYes;
  if (nvalid)
    R.count("name_valid_cases");
  else
    R.count("name_invalid_cases");
  if (uvalid == kYes)
    R.count("unit_valid_cases");
  else if (uvalid == kNo)
    R.count("unit_invalid_cases");
  if (name.size() >= 254 && name.size() <= 257)
    R.count("name_boundary_length_cases");
  if (unit.size() >= 62 && unit.size() <= 65 && uvalid != kDontCare)
    R.count("unit_boundary_length_cases");
  if (ncls == "embedded-nul")
    R.count("name_embedded_nul_cases");
  R.nontrivial(vf::mix(vf::fnv1a(name), vf::fnv1a(unit) * 31 + static_cast<uint64_t>(kind * 2 + dbl)));

  if (dontcare)
  {
    R.count("unit_dontcare_nul");
  }
  else if (created != want)
  {
    std::string d = std::string(created ? "stream appeared (" + show_stream(seen[0]) + ")" : "no stream after Add/Record/Observe") +
                    " but the model says " + (want ? "valid" : "invalid") + ": " + witness;
    if (created)
    {
      // an invalid part was accepted
      if (!nvalid)
        R.violation("name-valid-iff-created", ncls, d);
      else
        R.violation("unit-valid-iff-created", ucls, d);
    }
    else
    {
      // a valid pair was refused: which part?  Control: the same name (same form of view) with
      // the trivially valid empty unit.  If that one is created the name was fine.
      Instr ctl;
      {
        Arg an(name, name_exact, ntail), au("", unit_exact);
        ctl.create(*meter, kCounterK, false, an.view(), "", au.view());
        an.kill(r);
      }
      bool name_ok = false;
      if (ctl.non_null())
      {
        ctl.record(1, nullptr);
        name_ok = !collect(*reader).empty();
      }
      if (name_ok)
        R.violation("unit-valid-iff-created", ucls, d + " (control with the empty unit was created)");
      else
        R.violation("name-valid-iff-created", ncls, d + " (control with the empty unit was refused too)");
    }
  }
  if (created && (want || dontcare))
  {
    R.count("streams_of_valid_instruments");
    // exactly one stream per collection, carrying exactly the bytes handed over
    std::set<std::string> names;
    for (auto &s : seen)
      names.insert(s.name);
    if (seen.size() != 2 || names.size() != 1)
      R.violation("created-stream-exact", "stream-count", std::to_string(seen.size()) + " streams in two collections for " + witness);
    const Stream &s = seen[0];
    if (s.name != name)
      R.violation("created-stream-exact", "name", "stream name " + vf::show(s.name, 320) + " for " + witness);
    if (s.unit != unit)
      R.violation("created-stream-exact", "unit", "stream unit " + vf::show(s.unit, 320) + " for " + witness);
    if (s.desc != desc)
      R.violation("created-stream-exact", "description", "stream description " + vf::show(s.desc, 80) + " want " + vf::show(desc, 80) + " for " + witness);
    if (s.type != kind_type(kind) ||
        (s.vtype == sdkm::InstrumentValueType::kDouble) != dbl)
      R.violation("created-stream-exact", "type", std::string("stream type ") + type_name(s.type) + " for " + witness);
    if (s.sname != "meter.c19")
      R.violation("created-stream-exact", "scope", "scope " + vf::show(s.sname) + " for " + witness);
  }
  if (R.want_sample(3) && !enumerated && r.chance(1, 40))
    R.sample("names: " + witness + " -> " + (created ? "created" : "inert") + " [" + ncls + "/" + ucls + "]");
  (void)total;
}

// ==========================================================================================
// (b) views
// ==========================================================================================
struct MeterSpec
{
  std::string name, version, schema;
};

struct InstrSpec
{
  int meter = 0;
  std::string name, unit, desc;
  int kind = 0;
  bool dbl = false;
  std::vector<Attrs> sets;
  std::vector<bool> noattr;  // use the overload without attributes for this (empty) set
  // vals[round][set] = values recorded in that round (sync) / the single observed value (async)
  std::vector<std::vector<std::vector<double>>> vals;
};

struct ViewSpec
{
  sdkm::InstrumentType sel_type = sdkm::InstrumentType::kCounter;
  std::string sel_name, sel_unit, m_name, m_version, m_schema;
  std::string v_name, v_desc, v_unit;
  sdkm::AggregationType agg = sdkm::AggregationType::kDefault;
  bool has_cfg              = false;
  std::vector<double> bounds;
  bool minmax     = true;
  bool has_filter = false;
  std::set<std::string> allowed;
  std::shared_ptr<std::regex> re;  // model side: std::regex over a terminated copy of sel_name
};

struct MatchResult
{
  Tri tri;
  const char *field;  // first selector that fails (tri == kNo)
};

static MatchResult view_match(const ViewSpec &v, const InstrSpec &in, const MeterSpec &m)
{
  if (v.sel_type != kind_type(in.kind))
    return {kNo, "type"};
  if (v.sel_name != "*" && !std::regex_match(in.name, *v.re))
    return {kNo, "name"};
  if (!v.sel_unit.empty() && v.sel_unit != in.unit)
    return {kNo, "unit"};
  if (!v.m_name.empty() && v.m_name != m.name)
    return {kNo, "meter-name"};
  bool dc = false;
  if (!v.m_version.empty())
  {
    if (m.version.empty())
      dc = true;  // selector asks for a version, the meter has none: readable both ways
    else if (v.m_version != m.version)
      return {kNo, "meter-version"};
  }
  if (!v.m_schema.empty())
  {
    if (m.schema.empty())
      dc = true;
    else if (v.m_schema != m.schema)
      return {kNo, "meter-schema"};
  }
  return {dc ? kDontCare : kYes, ""};
}

static const std::vector<double> kDefaultBounds = {0.0,   5.0,   10.0,   25.0,   50.0,   75.0,   100.0,  250.0,
                                                   500.0, 750.0, 1000.0, 2500.0, 5000.0, 7500.0, 10000.0};

struct ExpStream
{
  int meter = 0, instr = 0, view = -1;
  std::string name, desc, unit;
  sdkm::InstrumentType type = sdkm::InstrumentType::kCounter;
  bool dbl                  = false;
  int pkind                 = kPSum;
  int mono                  = -1;  // -1: not defined by the statement
  bool default_kind         = true;
  std::vector<double> bounds;
  bool minmax     = true;
  bool has_filter = false;
  std::set<std::string> allowed;
  bool optional = false;  // drop aggregation: a stream without data or no stream at all
};

static void default_agg(sdkm::InstrumentType t, int &pkind, int &mono)
{
  switch (t)
  {
    case sdkm::InstrumentType::kCounter:
    case sdkm::InstrumentType::kObservableCounter:
      pkind = kPSum;
      mono  = 1;
      return;
    case sdkm::InstrumentType::kUpDownCounter:
    case sdkm::InstrumentType::kObservableUpDownCounter:
      pkind = kPSum;
      mono  = 0;
      return;
    case sdkm::InstrumentType::kHistogram:
      pkind = kPHist;
      mono  = -1;
      return;
    default:
      pkind = kPLast;
      mono  = -1;
  }
}

static ExpStream make_exp(int ii, const InstrSpec &in, int vi, const ViewSpec *v)
{
  ExpStream e;
  e.meter = in.meter;
  e.instr = ii;
  e.view  = vi;
  e.name  = (v && !v->v_name.empty()) ? v->v_name : in.name;
  e.desc  = (v && !v->v_desc.empty()) ? v->v_desc : in.desc;
  e.unit  = in.unit;  // a view never changes the unit
  e.type  = kind_type(in.kind);
  e.dbl   = in.dbl;
  int dk, dm;
  default_agg(e.type, dk, dm);
  sdkm::AggregationType a = v ? v->agg : sdkm::AggregationType::kDefault;
  switch (a)
  {
    case sdkm::AggregationType::kDefault:
      e.pkind = dk;
      e.mono  = dm;
      break;
    case sdkm::AggregationType::kSum:
      e.pkind = kPSum;
      e.mono  = dk == kPSum ? dm : -1;
      break;
    case sdkm::AggregationType::kHistogram:
      e.pkind = kPHist;
      break;
    case sdkm::AggregationType::kLastValue:
      e.pkind = kPLast;
      break;
    default:
      e.pkind    = kPDrop;
      e.optional = true;
  }
  e.default_kind = e.pkind == dk;
  if (e.pkind == kPHist)
  {
    e.bounds = (v && v->has_cfg) ? v->bounds : kDefaultBounds;
    e.minmax = (v && v->has_cfg) ? v->minmax : true;
  }
  if (v && v->has_filter)
  {
    e.has_filter = true;
    e.allowed    = v->allowed;
  }
  return e;
}

struct ViewCase
{
  std::vector<MeterSpec> meters;
  std::vector<InstrSpec> instrs;
  std::vector<ViewSpec> views;
  std::vector<sdkm::AggregationTemporality> readers;
  bool has_dontcare = false;
};

// expected streams; don't-care matches resolved as `dc_matches`
static std::vector<ExpStream> expected_streams(const ViewCase &c, bool dc_matches)
{
  std::vector<ExpStream> out;
  for (size_t ii = 0; ii < c.instrs.size(); ++ii)
  {
    auto &in = c.instrs[ii];
    bool any = false;
    for (size_t vi = 0; vi < c.views.size(); ++vi)
    {
      Tri t = view_match(c.views[vi], in, c.meters[in.meter]).tri;
      if (t == kYes || (t == kDontCare && dc_matches))
      {
        any = true;
        out.push_back(make_exp(static_cast<int>(ii), in, static_cast<int>(vi), &c.views[vi]));
      }
    }
    if (!any)
      out.push_back(make_exp(static_cast<int>(ii), in, -1, nullptr));
  }
  return out;
}

static const std::vector<std::string> kInstrNames = {"req.count", "req.size", "req_latency", "cpu/util",      "mem-used",
                                                     "Queue.len", "a",        "disk.io",     "req.count.total", "net-rx",
                                                     "req_count"};
static const std::vector<std::string> kPatterns   = {"req.*",      "req\\..*",  "[a-z]+\\.count", ".*size",
                                                     "cpu/.*",     "(req|mem).*", "req_latency|mem-used", ".*",
                                                     "[A-Z].*",    "[a-z./_-]+", "req.count(\\.total)?", ".+\\..+",
                                                     "x.*",        ".*[-/].*",   "[a-z]",
                                                     // '.' as the only pattern construct (from seeded change C19-w6-1):
                                                     // they select names that differ from the pattern text at the dot
                                                     "req.latency", "mem.used",  "cpu.util", "net.rx", "req.count"};
static const std::vector<std::string> kUnits      = {"", "ms", "By", "1"};
static const std::vector<Attrs> kAttrSets         = {{},
                                                     {{"k1", "a"}},
                                                     {{"k1", "b"}},
                                                     {{"k1", "a"}, {"k2", "x"}},
                                                     {{"k1", "a"}, {"k2", "y"}},
                                                     {{"k2", "x"}},
                                                     {{"k1", "b"}, {"k3", "z"}}};

static double gen_value(Rng &r, int kind, bool dbl)
{
  double v;
  if (kind == kUpDownK || kind == kObsUpDownK || kind == kObsGaugeK)
    v = static_cast<double>(r.range(-60, 60));
  else
    v = static_cast<double>(r.chance(1, 5) ? r.pick(std::vector<int>{0, 5, 10, 100, 1000, 10000, 10001}) : r.range(0, 1200));
  if (dbl)
    v += static_cast<double>(r.below(4)) * 0.25;
  return v;
}

static ViewCase gen_view_case(Rng &r)
{
  ViewCase c;
  size_t nm = static_cast<size_t>(r.range(1, 3));
  std::set<std::string> ids;
  while (c.meters.size() < nm)
  {
    MeterSpec m;
    m.name    = r.pick(std::vector<std::string>{"lib.a", "lib.a", "lib.b", "lib.c"});
    m.version = r.pick(std::vector<std::string>{"", "1.0", "2.0"});
    m.schema  = r.pick(std::vector<std::string>{"", "https://s/1", "https://s/2"});
    if (ids.insert(m.name + "|" + m.version + "|" + m.schema).second)
      c.meters.push_back(m);
  }
  size_t ni = static_cast<size_t>(r.range(1, 6));
  std::vector<std::string> names = kInstrNames;
  for (size_t i = 0; i < ni; ++i)
  {
    InstrSpec in;
    in.meter = static_cast<int>(r.below(nm));
    size_t k = static_cast<size_t>(r.below(names.size()));
    in.name  = names[k];
    names.erase(names.begin() + static_cast<long>(k));
    in.unit = r.pick(kUnits);
    in.desc = "d" + std::to_string(i);
    in.kind = static_cast<int>(r.below(kKinds));
    in.dbl  = r.coin();
    size_t ns = static_cast<size_t>(r.range(1, 3));
    std::set<size_t> chosen;
    while (chosen.size() < ns)
      chosen.insert(static_cast<size_t>(r.below(kAttrSets.size())));
    for (size_t s : chosen)
    {
      in.sets.push_back(kAttrSets[s]);
      in.noattr.push_back(kAttrSets[s].empty() && !is_async(in.kind) && r.coin());
    }
    in.vals.resize(2);
    for (int round = 0; round < 2; ++round)
    {
      in.vals[round].resize(in.sets.size());
      for (size_t s = 0; s < in.sets.size(); ++s)
      {
        if (is_async(in.kind))
        {
          double v = gen_value(r, in.kind, in.dbl);
          if (in.kind == kObsCounterK && round == 1)
            v = in.vals[0][s][0] + static_cast<double>(r.range(0, 100));  // cumulative series grows
          in.vals[round][s].push_back(v);
        }
        else
        {
          size_t n = static_cast<size_t>(r.range(1, 2));
          for (size_t j = 0; j < n; ++j)
            in.vals[round][s].push_back(gen_value(r, in.kind, in.dbl));
        }
      }
    }
    c.instrs.push_back(in);
  }
  size_t nv = static_cast<size_t>(r.range(0, 5));
  for (size_t k = 0; k < nv; ++k)
  {
    ViewSpec v;
    const InstrSpec &ri = c.instrs[r.below(c.instrs.size())];
    const MeterSpec &rm = c.meters[r.chance(3, 4) ? static_cast<size_t>(ri.meter) : static_cast<size_t>(r.below(nm))];
    static const std::vector<sdkm::InstrumentType> all_types = {
        sdkm::InstrumentType::kCounter,         sdkm::InstrumentType::kHistogram,
        sdkm::InstrumentType::kUpDownCounter,   sdkm::InstrumentType::kObservableCounter,
        sdkm::InstrumentType::kObservableGauge, sdkm::InstrumentType::kObservableUpDownCounter,
        sdkm::InstrumentType::kGauge};
    bool targeted = r.chance(7, 10);
    v.sel_type    = r.chance(targeted ? 7 : 5, 8) ? kind_type(ri.kind) : r.pick(all_types);
    unsigned cs   = static_cast<unsigned>(r.below(100));
    if (targeted)
    {
      if (cs < 35)
        v.sel_name = ri.name;
      else if (cs < 55)
        v.sel_name = "*";
      else if (cs < 88)
      {
        // a pattern that matches the targeted instrument (and maybe others)
        static std::vector<std::regex> compiled;
        if (compiled.empty())
          for (auto &p : kPatterns)
            compiled.emplace_back(p);
        std::vector<std::string> ok;
        for (size_t pi = 0; pi < kPatterns.size(); ++pi)
          if (std::regex_match(ri.name, compiled[pi]))
            ok.push_back(kPatterns[pi]);
        v.sel_name = ok.empty() ? ri.name : r.pick(ok);
      }
      else
        v.sel_name = r.coin() ? r.pick(kPatterns) : r.pick(kInstrNames);
    }
    else
    {
      if (cs < 30)
        v.sel_name = c.instrs[r.below(c.instrs.size())].name;
      else if (cs < 50)
        v.sel_name = "*";
      else if (cs < 90)
        v.sel_name = r.pick(kPatterns);
      else
        v.sel_name = r.pick(kInstrNames);
    }
    v.re.reset(new std::regex(v.sel_name == "*" ? std::string(".*") : std::string(v.sel_name.c_str())));
    cs         = static_cast<unsigned>(r.below(100));
    v.sel_unit = cs < 55 ? "" : (cs < 88 ? ri.unit : r.pick(kUnits));
    cs         = static_cast<unsigned>(r.below(100));
    v.m_name   = cs < 50 ? "" : (cs < 88 ? rm.name : r.pick(std::vector<std::string>{"lib.z", "lib.a", "lib.b"}));
    cs         = static_cast<unsigned>(r.below(100));
    v.m_version = cs < 55 ? "" : (cs < 85 ? rm.version : r.pick(std::vector<std::string>{"1.0", "2.0", "9.9"}));
    cs          = static_cast<unsigned>(r.below(100));
    v.m_schema  = cs < 55 ? "" : (cs < 85 ? rm.schema : r.pick(std::vector<std::string>{"https://s/1", "https://s/2", "https://s/9"}));
    v.v_name            = r.chance(2, 5) ? "v" + std::to_string(k) + ".renamed" : "";
    v.v_desc            = r.chance(2, 5) ? "view description " + std::to_string(k) : "";
    v.v_unit            = r.chance(1, 3) ? r.pick(std::vector<std::string>{"ms", "furlong", "By"}) : "";
    v.agg = r.pick(std::vector<sdkm::AggregationType>{sdkm::AggregationType::kDefault, sdkm::AggregationType::kDefault,
                                                      sdkm::AggregationType::kSum, sdkm::AggregationType::kHistogram,
                                                      sdkm::AggregationType::kLastValue, sdkm::AggregationType::kDrop});
    if (r.chance(1, 2))
    {
      v.has_cfg = true;
      std::set<double> b;
      size_t nb = static_cast<size_t>(r.range(0, 6));
      for (size_t j = 0; j < nb; ++j)
        b.insert(r.pick(std::vector<double>{0, 1, 2, 5, 10, 50, 100, 500, 1000, 7.5}));
      v.bounds.assign(b.begin(), b.end());
      v.minmax = r.coin();
    }
    if (r.chance(2, 5))
    {
      v.has_filter = true;
      for (auto &k2 : {"k1", "k2", "k3", "zz"})
        if (r.coin())
          v.allowed.insert(k2);
    }
    c.views.push_back(v);
  }
  size_t nr = static_cast<size_t>(r.range(1, 2));
  for (size_t k = 0; k < nr; ++k)
    c.readers.push_back(r.coin() ? sdkm::AggregationTemporality::kDelta : sdkm::AggregationTemporality::kCumulative);
  for (auto &in : c.instrs)
    for (auto &v : c.views)
      if (view_match(v, in, c.meters[in.meter]).tri == kDontCare)
        c.has_dontcare = true;
  return c;
}

// The statement does not define what two streams of one meter with the same name mean (the
// specification calls it a conflict), and a histogram aggregation for an asynchronous
// instrument has no defined values: such configurations are not part of the workload.
static bool acceptable(const ViewCase &c)
{
  auto exp = expected_streams(c, true);
  std::set<std::pair<int, std::string>> seen;
  for (auto &e : exp)
  {
    if (!seen.insert({e.meter, e.name}).second)
      return false;
    if (is_async(c.instrs[e.instr].kind) && e.pkind == kPHist)
      return false;
  }
  return true;
}

// off by default: the statement does not say how observations that a filter makes equal combine
static bool g_judge_async_filtered = false;

struct Finding
{
  std::string assertion, cls, detail;
};

static Attrs filter_attrs(const Attrs &a, const ExpStream &e)
{
  if (!e.has_filter)
    return a;
  Attrs o;
  for (auto &kv : a)
    if (e.allowed.count(kv.first))
      o[kv.first] = kv.second;
  return o;
}

// first field in which a collected stream differs from the expected shape ("" = none)
static std::string shape_diff(const ExpStream &e, const Stream &g)
{
  if (g.type != e.type || (g.vtype == sdkm::InstrumentValueType::kDouble) != e.dbl)
    return "type";
  if (g.unit != e.unit)
    return "unit";
  if (g.desc != e.desc)
    return "description";
  for (auto &p : g.pts)
  {
    if (p.kind != e.pkind)
      return "aggregation";
    if (p.kind == kPSum && e.mono >= 0 && p.mono != (e.mono == 1))
      return "monotonic";
    if (p.kind == kPHist && p.bounds != e.bounds)
      return "boundaries";
    if (p.kind == kPHist && p.minmax != e.minmax)
      return "record-min-max";
  }
  if (e.has_filter)
    for (auto &p : g.pts)
      for (auto &kv : p.attrs)
        if (!e.allowed.count(kv.first))
          return "attribute-filter";
  return "";
}

static std::string show_view(const ViewSpec &v)
{
  std::string s = std::string("view{sel type=") + type_name(v.sel_type) + " name=" + vf::show(v.sel_name) + " unit=" +
                  vf::show(v.sel_unit) + " meter=" + vf::show(v.m_name) + "|" + vf::show(v.m_version) + "|" +
                  vf::show(v.m_schema) + " -> name=" + vf::show(v.v_name) + " desc=" + vf::show(v.v_desc) + " agg=" +
                  std::to_string(static_cast<int>(v.agg));
  if (v.has_cfg)
  {
    s += " bounds=[";
    for (size_t i = 0; i < v.bounds.size(); ++i)
      s += (i ? "," : "") + num(v.bounds[i]);
    s += std::string("]") + (v.minmax ? "" : " nominmax");
  }
  if (v.has_filter)
  {
    s += " keep={";
    for (auto &k : v.allowed)
      s += k + " ";
    s += "}";
  }
  return s + "}";
}

static std::string show_case(const ViewCase &c)
{
  std::string s;
  for (size_t i = 0; i < c.meters.size(); ++i)
    s += "meter" + std::to_string(i) + "=" + c.meters[i].name + "|" + c.meters[i].version + "|" + c.meters[i].schema + " ";
  for (auto &in : c.instrs)
    s += "instr{" + in.name + " m" + std::to_string(in.meter) + " " + type_name(kind_type(in.kind)) +
         (in.dbl ? ":double" : ":long") + " unit=" + vf::show(in.unit) + "} ";
  for (auto &v : c.views)
    s += show_view(v) + " ";
  s += "readers=";
  for (auto t : c.readers)
    s += t == sdkm::AggregationTemporality::kDelta ? "delta " : "cumulative ";
  return s;
}

// compare one collection with the model
static void check_collection(const ViewCase &c,
                             const std::vector<ExpStream> &exp,
                             const std::vector<Stream> &got,
                             sdkm::AggregationTemporality tmp,
                             int round,
                             std::vector<Finding> &out)
{
  std::string where = std::string(tmp == sdkm::AggregationTemporality::kDelta ? "delta" : "cumulative") + " reader, round " +
                      std::to_string(round + 1) + "; ";
  std::vector<bool> seen(exp.size(), false);
  // which (instrument, view) pair with a non-matching view predicts this stream?
  auto field_same = [](const ExpStream &a, const ExpStream &b, const std::string &f) {
    if (f == "description")
      return a.desc == b.desc;
    if (f == "aggregation")
      return a.pkind == b.pkind;
    if (f == "monotonic")
      return a.mono == b.mono;
    if (f == "boundaries")
      return a.bounds == b.bounds;
    if (f == "record-min-max")
      return a.minmax == b.minmax;
    if (f == "attribute-filter")
      return a.has_filter == b.has_filter && a.allowed == b.allowed;
    return true;
  };
  // `dev` = the field in which the stream deviates from what was expected ("" = its name)
  auto explain_nonmatching = [&](const Stream &g, int meter, int only_instr, const std::string &dev, const ExpStream *strict = nullptr) -> const char * {
    for (size_t ii = 0; ii < c.instrs.size(); ++ii)
    {
      auto &in = c.instrs[ii];
      if (in.meter != meter || (only_instr >= 0 && static_cast<int>(ii) != only_instr))
        continue;
      for (size_t vi = 0; vi < c.views.size(); ++vi)
      {
        MatchResult m = view_match(c.views[vi], in, c.meters[in.meter]);
        if (m.tri != kNo)
          continue;
        ExpStream p  = make_exp(static_cast<int>(ii), in, static_cast<int>(vi), &c.views[vi]);
        ExpStream p0 = make_exp(static_cast<int>(ii), in, -1, nullptr);
        if (p.name != g.name || !shape_diff(p, g).empty())
          continue;
        if (dev.empty() ? p.name == p0.name : field_same(p, p0, dev))
          continue;  // the view does not itself set what deviates
        bool filter_print = false;  // does the view's filter visibly differ from the expected one on this instrument?
        if (strict)
          for (auto &set : in.sets)
            filter_print |= filter_attrs(set, p) != filter_attrs(set, *strict);
        if (strict && p.name == strict->name && p.desc == strict->desc && !filter_print)
          continue;  // only aggregation fields deviate: indistinguishable from a wrong default aggregation table
        return m.field;
      }
    }
    return nullptr;
  };
  for (auto &g : got)
  {
    int meter = -1;
    for (size_t m = 0; m < c.meters.size(); ++m)
      if (c.meters[m].name == g.sname && c.meters[m].version == g.sver && c.meters[m].schema == g.sschema)
        meter = static_cast<int>(m);
    if (meter < 0)
    {
      out.push_back({"stream-unexpected", "unknown-scope", where + show_stream(g)});
      continue;
    }
    int ei = -1;
    for (size_t k = 0; k < exp.size(); ++k)
      if (exp[k].meter == meter && exp[k].name == g.name)
        ei = static_cast<int>(k);
    if (ei < 0)
    {
      const char *f = explain_nonmatching(g, meter, -1, "");
      if (f)
        out.push_back({"view-applied", std::string("non-matching:") + f, where + "stream of a view whose selector does not match: " + show_stream(g)});
      else
        out.push_back({"stream-unexpected", type_name(g.type), where + show_stream(g)});
      continue;
    }
    if (seen[ei])
    {
      out.push_back({"stream-unexpected", "duplicate-stream", where + show_stream(g)});
      continue;
    }
    seen[ei]           = true;
    const ExpStream &e = exp[ei];
    const InstrSpec &in = c.instrs[e.instr];
    std::string d       = shape_diff(e, g);
    std::string origin  = e.view < 0 ? "default view" : show_view(c.views[e.view]);
    if (!d.empty())
    {
      // (everything but the filter carries the expected view's settings: no other view explains it better)
      bool agg_field = d == "aggregation" || d == "monotonic" || d == "boundaries" || d == "record-min-max";
      const char *f  = d == "attribute-filter" ? nullptr : explain_nonmatching(g, meter, e.instr, d,
                                               agg_field && (e.view < 0 || c.views[e.view].agg == sdkm::AggregationType::kDefault) ? &e : nullptr);
      if (f)
        out.push_back({"view-applied", std::string("non-matching:") + f,
                       where + "instrument " + in.name + " carries the shape of a view whose selector does not match: " + show_stream(g)});
      else if (e.view < 0 && agg_field)
        out.push_back({"default-aggregation", type_name(e.type), where + d + " differs for unmatched instrument: " + show_stream(g)});
      else
      {
        if (d == "attribute-filter" && is_async(in.kind))
          d += ":observable";
        out.push_back({"view-shapes-stream", d, where + d + " differs; " + origin + " on " + in.name + " gave " + show_stream(g)});
      }
      continue;
    }
    if (e.pkind == kPDrop)
      continue;
    if (g.pts.empty())
    {
      out.push_back({"stream-values", "no-points", where + origin + " on " + in.name + " gave " + show_stream(g)});
      continue;
    }
    if (is_async(in.kind) && ((e.has_filter && !g_judge_async_filtered) || !e.default_kind))
      continue;  // values of re-aggregated observations are not defined by the statement
    // expected points
    std::map<Attrs, std::vector<double>> window, all;
    for (int rd = 0; rd <= round; ++rd)
      for (size_t s = 0; s < in.sets.size(); ++s)
      {
        Attrs fa = filter_attrs(in.sets[s], e);
        for (double v : in.vals[rd][s])
        {
          all[fa].push_back(v);
          if (tmp != sdkm::AggregationTemporality::kDelta || rd == round)
            window[fa].push_back(v);
        }
      }
    std::map<Attrs, const Point *> have;
    bool dup = false;
    for (auto &p : g.pts)
      dup |= !have.emplace(p.attrs, &p).second;
    bool same_sets = !dup && have.size() == window.size();
    for (auto &kv : window)
      same_sets = same_sets && have.count(kv.first);
    if (!same_sets)
    {
      out.push_back({e.has_filter ? "view-shapes-stream" : "stream-values", e.has_filter ? "attribute-filter" : "attribute-sets",
                     where + "attribute sets differ; " + origin + " on " + in.name + " gave " + show_stream(g)});
      continue;
    }
    for (auto &kv : window)
    {
      const Point &p = *have[kv.first];
      bool ok        = true;
      std::string want;
      if (is_async(in.kind))
      {
        // default aggregation of an observable: the reported value, or its increase for a delta sum
        // (with --param judge_async_filtered=1: observations that the filter makes equal are summed)
        double cur = 0, prev = 0;
        for (size_t s = 0; s < in.sets.size(); ++s)
          if (filter_attrs(in.sets[s], e) == kv.first)
          {
            cur += in.vals[round][s][0];
            prev += round ? in.vals[round - 1][s][0] : 0;
          }
        if (e.pkind == kPSum)
        {
          double w = tmp == sdkm::AggregationTemporality::kDelta ? cur - prev : cur;
          ok       = p.val == w;
          want     = num(w);
        }
        else
        {
          ok   = std::find(all[kv.first].begin(), all[kv.first].end(), p.val) != all[kv.first].end();
          want = "one of the observed values";
        }
      }
      else if (e.pkind == kPSum)
      {
        double w = 0;
        for (double v : kv.second)
          w += v;
        ok   = p.val == w;
        want = num(w);
      }
      else if (e.pkind == kPLast)
      {
        ok   = std::find(all[kv.first].begin(), all[kv.first].end(), p.val) != all[kv.first].end();
        want = "one of the recorded values";
      }
      else
      {
        std::vector<uint64_t> counts(e.bounds.size() + 1, 0);
        double sum = 0;
        for (double v : kv.second)
        {
          sum += v;
          counts[static_cast<size_t>(std::lower_bound(e.bounds.begin(), e.bounds.end(), v) - e.bounds.begin())]++;
        }
        ok   = p.count == kv.second.size() && p.sum == sum && p.counts == counts;
        want = "n=" + std::to_string(kv.second.size()) + " sum=" + num(sum);
      }
      if (!ok)
      {
        out.push_back({"stream-values", pkind_name(e.pkind),
                       where + "point " + show_attrs(kv.first) + " want " + want + "; " + origin + " on " + in.name + " gave " + show_stream(g)});
        break;
      }
    }
  }
  // an instrument none of whose streams arrived was not created at all (its name is valid by construction)
  std::set<int> silent;
  for (size_t ii = 0; ii < c.instrs.size(); ++ii)
  {
    bool any_seen = false, any_required = false;
    for (size_t k = 0; k < exp.size(); ++k)
      if (exp[k].instr == static_cast<int>(ii))
      {
        any_seen |= seen[k];
        any_required |= !exp[k].optional;
      }
    if (!any_seen && any_required)
    {
      silent.insert(static_cast<int>(ii));
      out.push_back({"valid-instrument-has-stream", "views",
                     where + "instrument " + c.instrs[ii].name + " (" + type_name(kind_type(c.instrs[ii].kind)) + ") produced no stream at all"});
    }
  }
  for (size_t k = 0; k < exp.size(); ++k)
  {
    if (seen[k] || exp[k].optional || silent.count(exp[k].instr))
      continue;
    const ExpStream &e  = exp[k];
    const InstrSpec &in = c.instrs[e.instr];
    if (e.view < 0)
    {
      // the instrument may instead carry the stream of a view that should not match (already reported)
      bool reported = false;
      for (auto &f : out)
        reported |= f.assertion == "view-applied" && f.cls.compare(0, 12, "non-matching") == 0;
      if (!reported)
        out.push_back({"default-stream-missing", type_name(e.type), where + "unmatched instrument " + in.name + " has no stream"});
      continue;
    }
    // signature of the registry keyed by instrument name: the stream of the LAST matching view
    // arrives, those of the earlier matching views do not
    int matching = 0, last = -1;
    bool last_arrived = false;
    for (size_t j = 0; j < exp.size(); ++j)
      if (exp[j].instr == e.instr && exp[j].view >= 0)
      {
        ++matching;
        last         = exp[j].view;
        last_arrived = seen[j] || exp[j].optional;
      }
    if (matching >= 2 && e.view != last && last_arrived)
      out.push_back({"view-applied", "second-matching-view",
                     where + std::to_string(matching) + " views match instrument " + in.name + " (" + type_name(e.type) +
                         "); no stream " + vf::show(e.name) + " for " + show_view(c.views[e.view]) +
                         " - only the last matching view is collected"});
    else
      out.push_back({"view-applied", "matching-view-missing",
                     where + "no stream " + vf::show(e.name) + " for " + show_view(c.views[e.view]) + " on instrument " + in.name});
  }
}

static void views_case(uint64_t seed)
{
  auto &R = vf::report();
  Rng r(seed);
  ViewCase c;
  int tries = 0;
  for (;; ++tries)
  {
    Rng sub(vf::mix(seed, 77 + static_cast<uint64_t>(tries)));
    c = gen_view_case(sub);
    if (acceptable(c))
      break;
    R.count("view_cfg_regenerated");
    if (tries >= 60)
    {
      c.views.clear();
      c.has_dontcare = false;
      break;
    }
  }

  std::unique_ptr<sdkm::MeterProvider> provider = new_meter_provider();
  std::vector<std::shared_ptr<PullReader>> readers;
  for (auto t : c.readers)
  {
    readers.emplace_back(new PullReader(t));
    provider->AddMetricReader(readers.back());
  }
  for (auto &v : c.views)
  {
    std::shared_ptr<sdkm::AggregationConfig> cfg;
    if (v.has_cfg)
    {
      auto *h            = new sdkm::HistogramAggregationConfig();
      h->boundaries_     = v.bounds;
      h->record_min_max_ = v.minmax;
      cfg.reset(h);
    }
    std::unique_ptr<sdkm::AttributesProcessor> proc;
    if (v.has_filter)
    {
      std::unordered_map<std::string, bool> allowed;
      for (auto &k : v.allowed)
        allowed[k] = true;
      proc.reset(new sdkm::FilteringAttributesProcessor(allowed));
    }
    else
      proc.reset(new sdkm::DefaultAttributesProcessor());
    // every string argument is a temporary that dies right after AddView
    provider->AddView(
        std::unique_ptr<sdkm::InstrumentSelector>(
            new sdkm::InstrumentSelector(v.sel_type, std::string(v.sel_name), std::string(v.sel_unit))),
        std::unique_ptr<sdkm::MeterSelector>(
            new sdkm::MeterSelector(std::string(v.m_name), std::string(v.m_version), std::string(v.m_schema))),
        std::unique_ptr<sdkm::View>(new sdkm::View(std::string(v.v_name), std::string(v.v_desc), std::string(v.v_unit), v.agg, cfg, std::move(proc))));
  }
  std::vector<nostd::shared_ptr<metrics_api::Meter>> meters;
  for (auto &m : c.meters)
  {
    Arg a(m.name, true), b(m.version, true), s(m.schema, true);
    meters.push_back(provider->GetMeter(a.view(), b.view(), s.view()));
    a.kill(r);
    b.kill(r);
    s.kill(r);
  }
  for (size_t a = 0; a < meters.size(); ++a)
    for (size_t b = 0; b < a; ++b)
      if (meters[a].get() == meters[b].get())
      {
        const char *f = c.meters[a].name != c.meters[b].name ? "name" : c.meters[a].version != c.meters[b].version ? "version" : "schema";
        R.violation("different-identity-different-object", std::string("metrics:") + f,
                    "views run: meters " + c.meters[a].name + "|" + c.meters[a].version + "|" + c.meters[a].schema + " and " +
                        c.meters[b].name + "|" + c.meters[b].version + "|" + c.meters[b].schema + " are the same object");
        return;
      }
  std::vector<std::unique_ptr<Instr>> instrs;
  for (auto &in : c.instrs)
  {
    instrs.emplace_back(new Instr());
    Arg an(in.name, g_name_exact), au(in.unit, g_unit_exact), ad(in.desc, true);
    instrs.back()->create(*meters[in.meter], in.kind, in.dbl, an.view(), ad.view(), au.view());
    an.kill(r);
    au.kill(r);
    ad.kill(r);
  }
  // collections[round][reader]
  std::vector<std::vector<std::vector<Stream>>> collections(2);
  for (int round = 0; round < 2; ++round)
  {
    for (size_t i = 0; i < c.instrs.size(); ++i)
    {
      auto &in = c.instrs[i];
      if (is_async(in.kind))
      {
        if (instrs[i]->st)
        {
          instrs[i]->st->current.clear();
          for (size_t s = 0; s < in.sets.size(); ++s)
            instrs[i]->st->current.emplace_back(in.sets[s], in.vals[round][s][0]);
        }
      }
      else
        for (size_t s = 0; s < in.sets.size(); ++s)
          for (double v : in.vals[round][s])
            instrs[i]->record(v, in.noattr[s] ? nullptr : &in.sets[s]);
    }
    for (auto &rd : readers)
      collections[round].push_back(collect(*rd));
  }

  // evaluate; don't-care selector matches may be read either way, but consistently
  std::vector<Finding> findings;
  bool resolved_other = false;
  for (int variant = 0; variant < (c.has_dontcare ? 2 : 1); ++variant)
  {
    std::vector<Finding> f;
    auto exp = expected_streams(c, variant == 0);
    for (int round = 0; round < 2; ++round)
      for (size_t k = 0; k < readers.size(); ++k)
        check_collection(c, exp, collections[round][k], c.readers[k], round, f);
    if (variant == 0)
      findings = f;
    else if (f.empty() && !findings.empty())
    {
      findings.clear();
      resolved_other = true;
    }
  }
  bool misapplied = false;
  for (auto &f : findings)
    misapplied |= f.assertion == "view-applied" && f.cls.compare(0, 12, "non-matching") == 0;
  std::set<std::string> reported;
  for (auto &f : findings)
    if ((!misapplied || f.assertion == "view-applied") && reported.insert(f.assertion + "/" + f.cls).second)
      R.violation(f.assertion, f.cls, f.detail + " || case: " + show_case(c));

  // coverage
  auto exp = expected_streams(c, true);
  R.count("view_cases");
  R.count("views_registered", c.views.size());
  R.count("view_instruments", c.instrs.size());
  if (c.has_dontcare)
    R.count("view_cases_with_dontcare_match");
  if (resolved_other)
    R.count("view_dontcare_resolved_as_nomatch");
  for (size_t ii = 0; ii < c.instrs.size(); ++ii)
  {
    int n = 0;
    for (auto &v : c.views)
    {
      MatchResult m = view_match(v, c.instrs[ii], c.meters[c.instrs[ii].meter]);
      if (m.tri == kYes)
      {
        ++n;
        R.count("view_pairs_matching");
        if (v.sel_name != "*" && v.sel_name != c.instrs[ii].name)
          R.count("view_pairs_matching_by_pattern");
      }
      else if (m.tri == kNo)
      {
        R.count(std::string("view_pairs_failing_") + m.field);
        // exactly one selector fails: these are the pairs that expose an ignored selector
        const InstrSpec &in = c.instrs[ii];
        const MeterSpec &ms = c.meters[in.meter];
        int fails = (v.sel_type != kind_type(in.kind)) + (v.sel_name != "*" && !std::regex_match(in.name, *v.re)) +
                    (!v.sel_unit.empty() && v.sel_unit != in.unit) + (!v.m_name.empty() && v.m_name != ms.name) +
                    (!v.m_version.empty() && !ms.version.empty() && v.m_version != ms.version) +
                    (!v.m_schema.empty() && !ms.schema.empty() && v.m_schema != ms.schema);
        bool dc = (!v.m_version.empty() && ms.version.empty()) || (!v.m_schema.empty() && ms.schema.empty());
        if (fails == 1 && !dc)
          R.count(std::string("view_pairs_failing_only_") + m.field);
      }
    }
    if (n == 0)
      R.count(std::string("default_view_") + type_name(kind_type(c.instrs[ii].kind)));
    if (n >= 2)
      R.count("instruments_with_two_matching_views");
  }
  for (auto &e : exp)
  {
    if (e.view < 0)
      continue;
    R.count("view_streams_expected");
    if (e.has_filter)
      R.count("view_streams_with_filter");
    if (e.pkind == kPHist && c.views[e.view].has_cfg)
      R.count("view_streams_with_histogram_config");
    if (!e.default_kind)
      R.count("view_streams_non_default_aggregation");
    if (!c.views[e.view].v_name.empty())
      R.count("view_streams_renamed");
  }
  for (size_t k = 0; k < readers.size(); ++k)
    R.count(c.readers[k] == sdkm::AggregationTemporality::kDelta ? "collections_delta" : "collections_cumulative", 2);
  R.nontrivial(vf::fnv1a(show_case(c)));
  if (R.want_sample(5) && !c.views.empty() && r.chance(1, 30))
    R.sample("views: " + show_case(c).substr(0, 700));
  instrs.clear();
}

// ==========================================================================================
// (c) scope configurator and provider identity
// ==========================================================================================
struct ScopeId
{
  std::string logger_name;  // logs only
  std::string name, version, schema;
  Attrs attrs;  // logs; tracers/meters only with ABI v2
  bool operator<(const ScopeId &o) const
  {
    return std::tie(logger_name, name, version, schema, attrs) < std::tie(o.logger_name, o.name, o.version, o.schema, o.attrs);
  }
  bool operator==(const ScopeId &o) const
  {
    return logger_name == o.logger_name && name == o.name && version == o.version && schema == o.schema && attrs == o.attrs;
  }
};

static std::string show_scope(const ScopeId &s)
{
  return "(" + (s.logger_name.empty() ? std::string() : "logger=" + vf::show(s.logger_name) + " ") + vf::show(s.name) + "|" +
         vf::show(s.version) + "|" + vf::show(s.schema) + "|" + show_attrs(s.attrs) + ")";
}

enum CondKind
{
  kNameEquals = 0,  // AddConditionNameEquals
  kVersionEq,
  kSchemaEq,
  kNamePrefix,
  kAlways,
  kNever,
  kNameLonger,
  kHasAttr
};

struct Cond
{
  int kind = kNameEquals;
  std::string arg;
  size_t len   = 0;
  bool enabled = true;
};

static bool cond_matches(const Cond &c, const std::string &name, const std::string &version, const std::string &schema, const Attrs &attrs)
{
  switch (c.kind)
  {
    case kNameEquals:
      return name == c.arg;
    case kVersionEq:
      return version == c.arg;
    case kSchemaEq:
      return schema == c.arg;
    case kNamePrefix:
      return name.compare(0, c.arg.size(), c.arg) == 0;
    case kAlways:
      return true;
    case kNever:
      return false;
    case kNameLonger:
      return name.size() > c.len;
    default:
      return attrs.count(c.arg) != 0;
  }
}

static std::string show_cond(const Cond &c)
{
  static const char *n[] = {"name==", "version==", "schema==", "name^=", "always", "never", "len(name)>", "has-attr:"};
  return std::string(n[c.kind]) + (c.kind == kNameLonger ? std::to_string(c.len) : vf::show(c.arg)) + "->" + (c.enabled ? "on" : "off");
}

struct RuleList
{
  std::vector<Cond> conds;
  bool default_enabled = true;
};

// first match wins
static bool model_enabled(const RuleList &rl, const std::string &name, const std::string &version, const std::string &schema, const Attrs &attrs, int *nmatch = nullptr, bool *conflict = nullptr)
{
  int first = -1, n = 0;
  bool conf = false;
  for (size_t i = 0; i < rl.conds.size(); ++i)
    if (cond_matches(rl.conds[i], name, version, schema, attrs))
    {
      if (first < 0)
        first = static_cast<int>(i);
      else if (rl.conds[i].enabled != rl.conds[static_cast<size_t>(first)].enabled)
        conf = true;
      ++n;
    }
  if (nmatch)
    *nmatch = n;
  if (conflict)
    *conflict = conf;
  return first < 0 ? rl.default_enabled : rl.conds[static_cast<size_t>(first)].enabled;
}

template <class Config>
static std::unique_ptr<sdkscope::ScopeConfigurator<Config>> build_configurator(const RuleList &rl, Rng &r)
{
  typename sdkscope::ScopeConfigurator<Config>::Builder b(rl.default_enabled ? Config::Enabled() : Config::Disabled());
  for (auto &c : rl.conds)
  {
    Config cfg = c.enabled ? Config::Enabled() : Config::Disabled();
    if (c.kind == kNameEquals)
    {
      Arg a(c.arg, true);
      b.AddConditionNameEquals(a.view(), cfg);
      a.kill(r);
    }
    else
    {
      Cond cc = c;
      b.AddCondition(
          [cc](const sdkscope::InstrumentationScope &s) {
            Attrs present;
            for (auto &kv : s.GetAttributes())
              present[kv.first] = "";
            return cond_matches(cc, s.GetName(), s.GetVersion(), s.GetSchemaURL(), present);
          },
          cfg);
    }
  }
  // the builder dies here; the configurator must own everything it needs
  auto built = std::make_unique<sdkscope::ScopeConfigurator<Config>>(b.Build());
  if (r.chance(1, 3))
  {
    // ... and must be a snapshot of the rule list at Build() time: the builder is used again afterwards (a
    // catch-all rule with the opposite of the default, then a second Build) - the first configurator must not
    // notice (from seeded change C19-w6-2)
    b.AddCondition([](const sdkscope::InstrumentationScope &) { return true; },
                   rl.default_enabled ? Config::Disabled() : Config::Enabled());
    auto second = b.Build();
    (void)second;
    vf::report().count("configurator_builders_reused_after_build");
  }
  return built;
}

struct SpanRec
{
  std::string span, name, version, schema;
};

class RecSpanExporter : public sdkt::SpanExporter
{
public:
  explicit RecSpanExporter(std::vector<SpanRec> *out) : out_(out) {}
  std::unique_ptr<sdkt::Recordable> MakeRecordable() noexcept override
  {
    return std::unique_ptr<sdkt::Recordable>(new sdkt::SpanData());
  }
  opentelemetry::sdk::common::ExportResult Export(const nostd::span<std::unique_ptr<sdkt::Recordable>> &spans) noexcept override
  {
    for (auto &s : spans)
    {
      auto *d = static_cast<sdkt::SpanData *>(s.get());
      auto &sc = d->GetInstrumentationScope();
      out_->push_back({std::string(d->GetName().data(), d->GetName().size()), sc.GetName(), sc.GetVersion(), sc.GetSchemaURL()});
    }
    return opentelemetry::sdk::common::ExportResult::kSuccess;
  }
  bool ForceFlush(std::chrono::microseconds) noexcept override { return true; }
  bool Shutdown(std::chrono::microseconds) noexcept override { return true; }

private:
  std::vector<SpanRec> *out_;
};

class RecLogExporter : public sdkl::LogRecordExporter
{
public:
  explicit RecLogExporter(std::vector<SpanRec> *out) : out_(out) {}
  std::unique_ptr<sdkl::Recordable> MakeRecordable() noexcept override
  {
    return std::unique_ptr<sdkl::Recordable>(new sdkl::ReadWriteLogRecord());
  }
  opentelemetry::sdk::common::ExportResult Export(const nostd::span<std::unique_ptr<sdkl::Recordable>> &records) noexcept override
  {
    for (auto &rec : records)
    {
      auto *d = static_cast<sdkl::ReadWriteLogRecord *>(rec.get());
      std::string body;
      auto &b = d->GetBody();
      if (nostd::holds_alternative<nostd::string_view>(b))
        body = std::string(nostd::get<nostd::string_view>(b).data(), nostd::get<nostd::string_view>(b).size());
      else if (nostd::holds_alternative<const char *>(b))
        body = nostd::get<const char *>(b);
      auto &sc = d->GetInstrumentationScope();
      out_->push_back({body, sc.GetName(), sc.GetVersion(), sc.GetSchemaURL()});
    }
    return opentelemetry::sdk::common::ExportResult::kSuccess;
  }
  bool ForceFlush(std::chrono::microseconds) noexcept override { return true; }
  bool Shutdown(std::chrono::microseconds) noexcept override { return true; }

private:
  std::vector<SpanRec> *out_;
};

static const std::vector<std::string> kScopeNames = {"lib",   "lib.a", "lib.ab", "Lib.a", "x", "",
                                                     std::string("lib\0a", 5), "lib.a ", "\xe6\x97\xa5", "other/scope"};
static const std::vector<std::string> kVersions   = {"", "1", "1.0", "2"};
static const std::vector<std::string> kSchemas    = {"", "s1", "https://x/s2"};
static const std::vector<Attrs> kScopeAttrs       = {{}, {}, {{"team", "a"}}, {{"team", "b"}}, {{"team", "a"}, {"tier", "1"}}};

// pointer identity over a sequence of requests
static bool check_identity(const char *signal,
                           const std::vector<ScopeId> &ids,
                           const std::vector<const void *> &ptrs,
                           const std::vector<bool> &enabled,
                           const std::string &ctx)
{
  auto &R = vf::report();
  for (size_t i = 0; i < ids.size(); ++i)
    for (size_t j = 0; j < i; ++j)
    {
      bool same_id = ids[i] == ids[j];
      if (same_id)
        R.count(std::string("identity_repeat_requests_") + signal);
      else
        R.count(std::string("identity_distinct_pairs_") + signal);
      if (same_id && ptrs[i] != ptrs[j])
      {
        R.violation("same-identity-same-object", std::string(signal) + (enabled[i] ? "" : ":disabled-scope"),
                    "request " + std::to_string(j) + " and " + std::to_string(i) + " for " + show_scope(ids[i]) +
                        " returned different objects; " + ctx);
        return false;
      }
      if (!same_id && ptrs[i] == ptrs[j])
      {
        const char *f = ids[i].logger_name != ids[j].logger_name ? "logger-name"
                        : ids[i].name != ids[j].name             ? "name"
                        : ids[i].version != ids[j].version       ? "version"
                        : ids[i].schema != ids[j].schema         ? "schema"
                                                                 : "attributes";
        R.violation("different-identity-different-object", std::string(signal) + ":" + f,
                    show_scope(ids[j]) + " and " + show_scope(ids[i]) + " returned the same object; " + ctx);
        return false;
      }
    }
  return true;
}

// `path` names the way the provider was constructed (part of the input class); `tally` = false for
// the second processor of a provider (same oracle, the per-request counters are not doubled)
static void check_telemetry(const char *signal_name,
                            const char *path,
                            const std::vector<ScopeId> &ids,
                            const std::vector<bool> &enabled,
                            const std::vector<SpanRec> &got,
                            const std::string &ctx,
                            bool tally = true)
{
  auto &R                  = vf::report();
  const std::string signal = std::string(signal_name) + ":" + path;  // input class
  std::map<std::string, const SpanRec *> by_tag;
  for (auto &g : got)
  {
    if (!by_tag.emplace(g.span, &g).second)
      R.violation("scope-telemetry-once", signal, "two records tagged " + g.span + "; " + ctx);
  }
  for (size_t j = 0; j < ids.size(); ++j)
  {
    std::string tag = "t" + std::to_string(j);
    auto it         = by_tag.find(tag);
    if (!enabled[j])
    {
      if (tally)
      {
        R.count(std::string("scopes_disabled_") + signal_name);
        R.count(std::string("scopes_disabled_") + signal);
      }
      if (it != by_tag.end())
        R.violation("scope-disabled-silent", signal, "disabled scope " + show_scope(ids[j]) + " produced " + tag + "; " + ctx);
    }
    else
    {
      if (tally)
      {
        R.count(std::string("scopes_enabled_") + signal_name);
        R.count(std::string("scopes_enabled_") + signal);
      }
      if (it == by_tag.end())
        R.violation("scope-enabled-records", signal, "enabled scope " + show_scope(ids[j]) + " produced nothing; " + ctx);
      else if (it->second->name != ids[j].name || it->second->version != ids[j].version || it->second->schema != ids[j].schema)
        R.violation("scope-attribution", signal,
                    tag + " of " + show_scope(ids[j]) + " exported under (" + vf::show(it->second->name) + "|" +
                        vf::show(it->second->version) + "|" + vf::show(it->second->schema) + "); " + ctx);
    }
  }
  if (got.size() > ids.size())
    R.violation("scope-telemetry-once", signal, std::to_string(got.size()) + " records for " + std::to_string(ids.size()) + " requests; " + ctx);
}

// ---- every public way to build a provider with a scope configurator -------------------------
// traces / logs: the processor(s) go in as one unique_ptr, as a vector, or inside a context that
// was built by its constructor or by the *ContextFactory; the provider is built by its constructor
// or by the *ProviderFactory.
enum ProcPath
{
  kProcessorCtor = 0,      // Provider(unique_ptr<Processor>, ..., configurator)
  kVectorCtor,             // Provider(vector<unique_ptr<Processor>>&&, ..., configurator)
  kContextCtor,            // Provider(unique_ptr<Context>(new Context(vector, ..., configurator)))
  kContextFactoryCtor,     // Provider(ContextFactory::Create(vector, ..., configurator))
  kProcessorFactory,       // ProviderFactory::Create(unique_ptr<Processor>, ..., configurator)
  kVectorFactory,          // ProviderFactory::Create(vector&&, ..., configurator)
  kContextFactory,         // ProviderFactory::Create(unique_ptr<Context>(new Context(..., configurator)))
  kContextFactoryFactory,  // ProviderFactory::Create(ContextFactory::Create(..., configurator))
  kProcPaths
};
static const char *const kProcPathName[kProcPaths] = {"processor-constructor",      "vector-constructor", "context-constructor",
                                                      "contextfactory-constructor", "processor-factory",  "vector-factory",
                                                      "context-factory",            "contextfactory-factory"};
static bool single_processor_path(int path) { return path == kProcessorCtor || path == kProcessorFactory; }

// metrics: (views, resource, configurator) directly, or inside a context
enum MeterPath
{
  kViewsCtor = 0,               // MeterProvider(views, resource, configurator)
  kViewsFactory,                // MeterProviderFactory::Create(views, resource, configurator)
  kMeterContextCtor,            // MeterProvider(unique_ptr<MeterContext>(new MeterContext(views, resource, configurator)))
  kMeterContextFactoryCtor,     // MeterProvider(MeterContextFactory::Create(views, resource, configurator))
  kMeterContextFactory,         // MeterProviderFactory::Create(unique_ptr<MeterContext>(new MeterContext(...)))
  kMeterContextFactoryFactory,  // MeterProviderFactory::Create(MeterContextFactory::Create(...))
  kMeterPaths
};
static const char *const kMeterPathName[kMeterPaths] = {"views-constructor",          "views-factory",   "context-constructor",
                                                        "contextfactory-constructor", "context-factory", "contextfactory-factory"};

static std::unique_ptr<sdkt::TracerProvider> make_tracer_provider(int path,
                                                                  std::vector<std::unique_ptr<sdkt::SpanProcessor>> procs,
                                                                  std::unique_ptr<sdkscope::ScopeConfigurator<sdkt::TracerConfig>> cfg)
{
  typedef sdkt::TracerProvider P;
  const sdkres::Resource &res = sdkres::Resource::GetEmpty();
  std::unique_ptr<sdkt::Sampler> sampler(new sdkt::AlwaysOnSampler);
  std::unique_ptr<sdkt::IdGenerator> idgen(new sdkt::RandomIdGenerator());
  switch (path)
  {
    case kProcessorCtor:
      return std::unique_ptr<P>(new P(std::move(procs[0]), res, std::move(sampler), std::move(idgen), std::move(cfg)));
    case kVectorCtor:
      return std::unique_ptr<P>(new P(std::move(procs), res, std::move(sampler), std::move(idgen), std::move(cfg)));
    case kContextCtor:
      return std::unique_ptr<P>(new P(std::unique_ptr<sdkt::TracerContext>(
          new sdkt::TracerContext(std::move(procs), res, std::move(sampler), std::move(idgen), std::move(cfg)))));
    case kContextFactoryCtor:
      return std::unique_ptr<P>(
          new P(sdkt::TracerContextFactory::Create(std::move(procs), res, std::move(sampler), std::move(idgen), std::move(cfg))));
    case kProcessorFactory:
      return sdkt::TracerProviderFactory::Create(std::move(procs[0]), res, std::move(sampler), std::move(idgen), std::move(cfg));
    case kVectorFactory:
      return sdkt::TracerProviderFactory::Create(std::move(procs), res, std::move(sampler), std::move(idgen), std::move(cfg));
    case kContextFactory:
      return sdkt::TracerProviderFactory::Create(std::unique_ptr<sdkt::TracerContext>(
          new sdkt::TracerContext(std::move(procs), res, std::move(sampler), std::move(idgen), std::move(cfg))));
    default:
      return sdkt::TracerProviderFactory::Create(
          sdkt::TracerContextFactory::Create(std::move(procs), res, std::move(sampler), std::move(idgen), std::move(cfg)));
  }
}

static std::unique_ptr<sdkl::LoggerProvider> make_logger_provider(int path,
                                                                  std::vector<std::unique_ptr<sdkl::LogRecordProcessor>> procs,
                                                                  std::unique_ptr<sdkscope::ScopeConfigurator<sdkl::LoggerConfig>> cfg)
{
  typedef sdkl::LoggerProvider P;
  const sdkres::Resource &res = sdkres::Resource::GetEmpty();
  switch (path)
  {
    case kProcessorCtor:
      return std::unique_ptr<P>(new P(std::move(procs[0]), res, std::move(cfg)));
    case kVectorCtor:
      return std::unique_ptr<P>(new P(std::move(procs), res, std::move(cfg)));
    case kContextCtor:
      return std::unique_ptr<P>(new P(std::unique_ptr<sdkl::LoggerContext>(new sdkl::LoggerContext(std::move(procs), res, std::move(cfg)))));
    case kContextFactoryCtor:
      return std::unique_ptr<P>(new P(sdkl::LoggerContextFactory::Create(std::move(procs), res, std::move(cfg))));
    case kProcessorFactory:
      return sdkl::LoggerProviderFactory::Create(std::move(procs[0]), res, std::move(cfg));
    case kVectorFactory:
      return sdkl::LoggerProviderFactory::Create(std::move(procs), res, std::move(cfg));
    case kContextFactory:
      return sdkl::LoggerProviderFactory::Create(
          std::unique_ptr<sdkl::LoggerContext>(new sdkl::LoggerContext(std::move(procs), res, std::move(cfg))));
    default:
      return sdkl::LoggerProviderFactory::Create(sdkl::LoggerContextFactory::Create(std::move(procs), res, std::move(cfg)));
  }
}

static std::unique_ptr<sdkm::MeterProvider> make_meter_provider(int path, std::unique_ptr<sdkscope::ScopeConfigurator<sdkm::MeterConfig>> cfg)
{
  typedef sdkm::MeterProvider P;
  const sdkres::Resource &res = sdkres::Resource::GetEmpty();
  std::unique_ptr<sdkm::ViewRegistry> views(new sdkm::ViewRegistry());
  switch (path)
  {
    case kViewsCtor:
      return std::unique_ptr<P>(new P(std::move(views), res, std::move(cfg)));
    case kViewsFactory:
      return sdkm::MeterProviderFactory::Create(std::move(views), res, std::move(cfg));
    case kMeterContextCtor:
      return std::unique_ptr<P>(new P(std::unique_ptr<sdkm::MeterContext>(new sdkm::MeterContext(std::move(views), res, std::move(cfg)))));
    case kMeterContextFactoryCtor:
      return std::unique_ptr<P>(new P(sdkm::MeterContextFactory::Create(std::move(views), res, std::move(cfg))));
    case kMeterContextFactory:
      return sdkm::MeterProviderFactory::Create(
          std::unique_ptr<sdkm::MeterContext>(new sdkm::MeterContext(std::move(views), res, std::move(cfg))));
    default:
      return sdkm::MeterProviderFactory::Create(sdkm::MeterContextFactory::Create(std::move(views), res, std::move(cfg)));
  }
}

static void scopes_case(uint64_t seed)
{
  auto &R = vf::report();
  Rng r(seed);
  // construction paths: own generator, so that rule lists and requests of a case do not depend on them
  Rng pr(vf::mix(seed, vf::fnv1a("construction-paths")));
  const int tpath = static_cast<int>(pr.below(kProcPaths)), mpath = static_cast<int>(pr.below(kMeterPaths)),
            lpath    = static_cast<int>(pr.below(kProcPaths));
  const size_t tprocs = single_processor_path(tpath) ? 1 : static_cast<size_t>(pr.range(1, 2));
  const size_t lprocs = single_processor_path(lpath) ? 1 : static_cast<size_t>(pr.range(1, 2));
  // the scope names of this case
  std::vector<std::string> names;
  size_t nn = static_cast<size_t>(r.range(2, 5));
  while (names.size() < nn)
  {
    std::string n = r.pick(kScopeNames);
    if (std::find(names.begin(), names.end(), n) == names.end())
      names.push_back(n);
  }
  RuleList rl;
  rl.default_enabled = r.chance(7, 10);
  size_t nc          = static_cast<size_t>(r.range(0, 6));
  for (size_t i = 0; i < nc; ++i)
  {
    Cond c;
    unsigned k = static_cast<unsigned>(r.below(100));
    c.enabled  = r.coin();
    if (k < 45)
    {
      c.kind = kNameEquals;
      c.arg  = r.chance(4, 5) ? r.pick(names) : r.pick(kScopeNames);
    }
    else if (k < 55)
    {
      c.kind = kVersionEq;
      c.arg  = r.pick(kVersions);
    }
    else if (k < 63)
    {
      c.kind = kSchemaEq;
      c.arg  = r.pick(kSchemas);
    }
    else if (k < 75)
    {
      c.kind = kNamePrefix;
      c.arg  = r.pick(std::vector<std::string>{"lib", "lib.", "L", "x", "lib.a"});
    }
    else if (k < 80)
      c.kind = kAlways;
    else if (k < 85)
      c.kind = kNever;
    else if (k < 92)
    {
      c.kind = kNameLonger;
      c.len  = static_cast<size_t>(r.range(0, 6));
    }
    else
    {
      c.kind = kHasAttr;
      c.arg  = r.pick(std::vector<std::string>{"team", "tier", "none"});
    }
    rl.conds.push_back(c);
  }
  std::string rules = std::string("rules[default ") + (rl.default_enabled ? "on" : "off");
  for (auto &c : rl.conds)
    rules += ", " + show_cond(c);
  rules += "]";

  size_t ns = static_cast<size_t>(r.range(1, 8));
  std::vector<ScopeId> reqs;
  for (size_t j = 0; j < ns; ++j)
  {
    ScopeId s;
    if (!reqs.empty() && r.chance(1, 4))
    {
      s = reqs[r.below(reqs.size())];  // the same identity again
      if (r.chance(1, 3))
      {
        // ... or differing in exactly one field
        switch (r.below(4))
        {
          case 0:
            s.version = r.pick(kVersions);
            break;
          case 1:
            s.schema = r.pick(kSchemas);
            break;
          case 2:
            s.attrs = r.pick(kScopeAttrs);
            break;
          default:
            s.name = r.pick(names);
        }
      }
    }
    else
    {
      s.name    = r.pick(names);
      s.version = r.chance(1, 2) ? "" : r.pick(kVersions);
      s.schema  = r.chance(1, 2) ? "" : r.pick(kSchemas);
      s.attrs   = r.pick(kScopeAttrs);
    }
    reqs.push_back(s);
  }
  uint64_t h = vf::fnv1a(rules);
  for (auto &s : reqs)
    h = vf::mix(h, vf::fnv1a(show_scope(s)));
  R.nontrivial(h);
  R.count("rule_lists");
  R.count("rule_conditions", rl.conds.size());
  {
    bool any_conflict = false;
    for (auto &s : reqs)
    {
      int n;
      bool conf;
      model_enabled(rl, s.name, s.version, s.schema, s.attrs, &n, &conf);
      any_conflict |= conf;
      if (n >= 2)
        R.count("scopes_matched_by_two_rules");
    }
    if (any_conflict)
      R.count("rule_lists_where_order_decides");
  }

#if OPENTELEMETRY_ABI_VERSION_NO >= 2
  const bool scope_attrs = true;
#else
  const bool scope_attrs = false;  // GetTracer/GetMeter take no attributes in ABI v1
#endif

  // ---- traces
  {
    std::vector<SpanRec> got, got2;  // got2: what the second processor saw (vector / context paths)
    std::vector<ScopeId> ids;
    std::vector<const void *> ptrs;
    std::vector<bool> enabled;
    std::vector<nostd::shared_ptr<opentelemetry::trace::Tracer>> keep;
    {
      std::vector<std::unique_ptr<sdkt::SpanProcessor>> procs;
      for (size_t k = 0; k < tprocs; ++k)
        procs.emplace_back(new sdkt::SimpleSpanProcessor(std::unique_ptr<sdkt::SpanExporter>(new RecSpanExporter(k ? &got2 : &got))));
      std::unique_ptr<sdkt::TracerProvider> provider_owner =
          make_tracer_provider(tpath, std::move(procs), build_configurator<sdkt::TracerConfig>(rl, r));
      sdkt::TracerProvider &provider = *provider_owner;
      R.count(std::string("scope_cases_traces:") + kProcPathName[tpath]);
      if (tprocs > 1)
        R.count("scope_cases_traces_two_processors");
      for (size_t j = 0; j < reqs.size(); ++j)
      {
        ScopeId id = reqs[j];
        if (!scope_attrs)
          id.attrs.clear();
        Arg a(id.name, true), b(id.version, true), s(id.schema, true);
#if OPENTELEMETRY_ABI_VERSION_NO >= 2
        common::KeyValueIterableView<Attrs> kv(id.attrs);
        auto t = id.attrs.empty() && r.coin() ? provider.GetTracer(a.view(), b.view(), s.view())
                                              : provider.GetTracer(a.view(), b.view(), s.view(), &kv);
#else
        auto t = provider.GetTracer(a.view(), b.view(), s.view());
#endif
        a.kill(r);
        b.kill(r);
        s.kill(r);
        ids.push_back(id);
        ptrs.push_back(t.get());
        enabled.push_back(model_enabled(rl, id.name, id.version, id.schema, id.attrs));
        keep.push_back(t);
        Arg sn("t" + std::to_string(j), true);
        auto span = t->StartSpan(sn.view());
        sn.kill(r);
        span->End();
      }
      std::string ctx = rules + " provider built by " + kProcPathName[tpath] + " with " + std::to_string(tprocs) + " processor(s)";
      if (check_identity("traces", ids, ptrs, enabled, ctx))
      {
        check_telemetry("traces", kProcPathName[tpath], ids, enabled, got, ctx);
        if (tprocs > 1)
          check_telemetry("traces", kProcPathName[tpath], ids, enabled, got2, ctx + " (second processor)", false);
      }
      keep.clear();
    }
  }
  // ---- metrics
  {
    std::vector<ScopeId> ids;
    std::vector<const void *> ptrs;
    std::vector<bool> enabled;
    std::vector<nostd::shared_ptr<metrics_api::Meter>> keep;
    std::vector<std::unique_ptr<Instr>> instrs;
    auto provider = make_meter_provider(mpath, build_configurator<sdkm::MeterConfig>(rl, r));
    R.count(std::string("scope_cases_metrics:") + kMeterPathName[mpath]);
    std::shared_ptr<PullReader> reader(new PullReader(sdkm::AggregationTemporality::kCumulative));
    provider->AddMetricReader(reader);
    for (size_t j = 0; j < reqs.size(); ++j)
    {
      ScopeId id = reqs[j];
      if (!scope_attrs)
        id.attrs.clear();
      Arg a(id.name, true), b(id.version, true), s(id.schema, true);
#if OPENTELEMETRY_ABI_VERSION_NO >= 2
      common::KeyValueIterableView<Attrs> kv(id.attrs);
      auto m = id.attrs.empty() && r.coin() ? provider->GetMeter(a.view(), b.view(), s.view())
                                            : provider->GetMeter(a.view(), b.view(), s.view(), &kv);
#else
      auto m = provider->GetMeter(a.view(), b.view(), s.view());
#endif
      a.kill(r);
      b.kill(r);
      s.kill(r);
      ids.push_back(id);
      ptrs.push_back(m.get());
      enabled.push_back(model_enabled(rl, id.name, id.version, id.schema, id.attrs));
      keep.push_back(m);
      // one instrument per request (unique name: requests with the same identity share the meter)
      instrs.emplace_back(new Instr());
      int kind = static_cast<int>(r.below(kKinds));
      bool dbl = r.coin();
      Arg in("t" + std::to_string(j), g_name_exact), iu("", g_unit_exact);
      instrs.back()->create(*m, kind, dbl, in.view(), "", iu.view());
      in.kill(r);
      if (!instrs.back()->non_null())
        R.violation("instrument-returned", std::string("scopes:") + type_name(kind_type(kind)), "null instrument from meter " + show_scope(id));
      else if (is_async(kind))
      {
        if (instrs.back()->st)
          instrs.back()->st->current = {{Attrs{}, static_cast<double>(j + 1)}};
      }
      else
        instrs.back()->record(static_cast<double>(j + 1), nullptr);
    }
    std::vector<SpanRec> got;
    for (auto &st : collect(*reader))
      got.push_back({st.name, st.sname, st.sver, st.sschema});
    std::string ctx = rules + " provider built by " + kMeterPathName[mpath];
    if (check_identity("metrics", ids, ptrs, enabled, ctx))
      check_telemetry("metrics", kMeterPathName[mpath], ids, enabled, got, ctx);
    instrs.clear();
    keep.clear();
  }
  // ---- logs
  {
    std::vector<SpanRec> got, got2;  // got2: what the second processor saw (vector / context paths)
    std::vector<ScopeId> ids;
    std::vector<const void *> ptrs;
    std::vector<bool> enabled;
    std::vector<nostd::shared_ptr<opentelemetry::logs::Logger>> keep;
    {
      std::vector<std::unique_ptr<sdkl::LogRecordProcessor>> procs;
      for (size_t k = 0; k < lprocs; ++k)
        procs.emplace_back(
            new sdkl::SimpleLogRecordProcessor(std::unique_ptr<sdkl::LogRecordExporter>(new RecLogExporter(k ? &got2 : &got))));
      std::unique_ptr<sdkl::LoggerProvider> provider_owner =
          make_logger_provider(lpath, std::move(procs), build_configurator<sdkl::LoggerConfig>(rl, r));
      sdkl::LoggerProvider &provider = *provider_owner;
      R.count(std::string("scope_cases_logs:") + kProcPathName[lpath]);
      if (lprocs > 1)
        R.count("scope_cases_logs_two_processors");
      // logger names: a small pool so that (logger name, scope) pairs repeat
      std::vector<std::string> lnames = {"lg", "lg2", "lib.a"};
      std::map<std::string, std::string> lname_of;  // keep repeated identities truly identical
      for (size_t j = 0; j < reqs.size(); ++j)
      {
        ScopeId id      = reqs[j];
        std::string key = show_scope(id);
        if (!lname_of.count(key) || r.chance(1, 6))
          lname_of[key] = r.pick(lnames);
        id.logger_name   = lname_of[key];
        std::string lib  = id.name;  // what is passed as library name
        if (lib.empty())
          id.name = id.logger_name;  // an empty library name means the logger name
        Arg ln(id.logger_name, true), a(lib, true), b(id.version, true), s(id.schema, true);
        common::KeyValueIterableView<Attrs> kv(id.attrs);
        auto lg = provider.GetLogger(ln.view(), a.view(), b.view(), s.view(), kv);
        ln.kill(r);
        a.kill(r);
        b.kill(r);
        s.kill(r);
        ids.push_back(id);
        ptrs.push_back(lg.get());
        enabled.push_back(model_enabled(rl, id.name, id.version, id.schema, id.attrs));
        keep.push_back(lg);
        std::string body = "t" + std::to_string(j);
        auto rec         = lg->CreateLogRecord();
        if (rec)
        {
          rec->SetBody(nostd::string_view(body));
          lg->EmitLogRecord(std::move(rec));
        }
      }
      std::string ctx = rules + " provider built by " + kProcPathName[lpath] + " with " + std::to_string(lprocs) + " processor(s)";
      if (check_identity("logs", ids, ptrs, enabled, ctx))
      {
        check_telemetry("logs", kProcPathName[lpath], ids, enabled, got, ctx);
        if (lprocs > 1)
          check_telemetry("logs", kProcPathName[lpath], ids, enabled, got2, ctx + " (second processor)", false);
      }
      keep.clear();
    }
  }
  if (R.want_sample(4) && !rl.conds.empty() && r.chance(1, 40))
  {
    std::string s = "scopes: " + rules + " requests:";
    for (auto &q : reqs)
      s += " " + show_scope(q);
    R.sample(s.substr(0, 600));
  }
}

// ==========================================================================================
int main(int argc, char **argv)
{
  auto &R = vf::report();
  R.init("C19", argc, argv);
  opentelemetry::sdk::common::internal_log::GlobalLogHandler::SetLogHandler(
      nostd::shared_ptr<opentelemetry::sdk::common::internal_log::LogHandler>(new SilentLog()));
  std::string engine = R.opt.sparam("engine", "names");
  // views=auto (default): probe once in a forked child whether an exact non-terminated name/unit
  // view is survivable; views=exact forces exact views (replaying the crash); views=tail forces tails
  std::string mode = R.opt.sparam("views", "auto");
  if (mode == "auto")
  {
    g_name_exact = probe_exact(false);
    g_unit_exact = probe_exact(true);
    R.count(g_name_exact ? "probe_exact_name_view_ok" : "probe_exact_name_view_crashed");
    R.count(g_unit_exact ? "probe_exact_unit_view_ok" : "probe_exact_unit_view_crashed");
  }
  else if (mode == "tail")
    g_name_exact = g_unit_exact = false;
  g_judge_async_filtered = R.opt.param("judge_async_filtered", 0) != 0;
  uint64_t eng           = vf::fnv1a(engine);
  R.run_cases([&](uint64_t i) {
    if (engine == "names")
      names_case(i, vf::mix(R.case_seed(i), eng));
    else if (engine == "views")
      views_case(vf::mix(R.case_seed(i), eng));
    else
      scopes_case(vf::mix(R.case_seed(i), eng));
  });
  R.count("sdk_log_messages", g_sdk_log_messages);
  return R.finish();
}
