// C17 — gauges report the latest value; observables are read once per collection.
//
// mode=seq   (asan): histories of {AddCallback, RemoveCallback, destroy instrument, Collect(reader r)}
//            over observable counters / up-down counters / gauges (int64 and double) with scripted
//            callbacks: callback j at its n-th invocation reports script[j][n] (a map attrs -> total),
//            so invocation counts and values are both decided by the model M.  A "replaying"
//            callback (1 in 3) first observes 1..2 decoy values for a set and then the real one within
//            the same invocation (gauges: the most recent observation must be reported).  Every ~8th
//            history is a directed "starved reader" history: >= 2 readers, one reader collects 34..60
//            times in a row (the observed totals keep changing) while the others do not collect, then
//            the others collect: what they are given must not depend on how often somebody else
//            collected in between.  One history in four registers ONE (function, state) pair on two or
//            three instruments of the same meter (the registrations are added and removed one by one):
//            the shared callback cannot tell which instrument it is invoked for, so the model judges the
//            number of its invocations per collection (= registrations in force) and it reports the same
//            scripted values every time.
// mode=race  (tsan + shim): AddCallback / RemoveCallback / instrument destruction racing Collect; a
//            callback is never invoked after RemoveCallback (or the destruction) returned; callbacks
//            that stay registered are invoked exactly once per collection; TSan silent.
// mode=readers (tsan + shim): 2..3 readers of mixed temporality, each collected in a loop from its OWN
//            thread at the same time; every callback invocation reports its own scripted totals
//            (value = f(instrument, set, invocation number)) and notes which reader's collection it was
//            handed to (callbacks run on the collecting thread: thread-local marker).  After the threads
//            are joined and one quiescent collection per reader: a cumulative reader's point == the
//            total reported in that reader's last collection, the sum of all points of a delta reader
//            == the total reported in its last collection, every callback ran once per collection.
// mode=gauge (asan-abi2): synchronous Gauge Record/Collect histories (ABI v2 only).
//
// Don't-care (counted, never judged): points for attribute sets that the callback did not report in
// this very collection (sets that disappeared, removed callbacks, destroyed instruments); a delta
// reader's catch-up points for such sets are followed so that "what that reader was last given"
// stays exact.  Sum points (observable counter / up-down counter) for a set that one invocation
// observed more than once: "the reported total" is not unique there (the OpenTelemetry API leaves the
// behaviour for duplicate observations unspecified), so they are counted and followed, never judged;
// gauges are judged (the statement says "the most recently observed value").
#include <thread>

#include "opentelemetry/context/context.h"
#include "opentelemetry/metrics/async_instruments.h"
#include "opentelemetry/metrics/meter.h"
#include "opentelemetry/metrics/observer_result.h"
#include "opentelemetry/metrics/sync_instruments.h"
#include "opentelemetry/sdk/metrics/meter_context.h"
#include "opentelemetry/sdk/metrics/meter_provider.h"
#include "opentelemetry/sdk/metrics/view/view_registry.h"
#include "opentelemetry/sdk/resource/resource.h"

#include "vf_metrics_model.h"
#ifdef OTEL_VERIF_SHIM
#  include "vf_runtime.h"
#endif

namespace mapi = opentelemetry::metrics;
using namespace vfm;
using vf::Rng;

enum OKind
{
  kObsCounter = 0,
  kObsUpDown  = 1,
  kObsGauge   = 2
};
static const char *kind_name(int k)
{
  return k == kObsCounter ? "counter" : (k == kObsUpDown ? "updown" : "gauge");
}
static msdk::InstrumentType otype(int k)
{
  return k == kObsCounter ? msdk::InstrumentType::kObservableCounter
                          : (k == kObsUpDown ? msdk::InstrumentType::kObservableUpDownCounter : msdk::InstrumentType::kObservableGauge);
}

static std::unique_ptr<msdk::MeterProvider> make_provider()
{
  std::unique_ptr<msdk::ViewRegistry> vr(new msdk::ViewRegistry());
  std::unique_ptr<msdk::MeterContext> ctx(new msdk::MeterContext(std::move(vr), opentelemetry::sdk::resource::Resource::GetEmpty()));
  return std::unique_ptr<msdk::MeterProvider>(new msdk::MeterProvider(std::move(ctx)));
}

static std::string reader_class(size_t nreaders, bool delta)
{
  return std::string(nreaders == 1 ? "single-reader-" : "multi-reader-") + (delta ? "delta" : "cumulative");
}

// ---------------------------------------------------------------------------------------------
// sequential histories with scripted callbacks
// ---------------------------------------------------------------------------------------------
struct SeqCase;

struct Callback
{
  SeqCase *owner = nullptr;
  int id         = 0;
  int inst       = 0;
  int fn         = 0;  // which of the two C functions it is registered with
  std::vector<int> attrs;                       // pool indices this callback owns
  std::vector<std::map<int, Val>> script;       // [n] -> attrs index -> total
  std::vector<std::map<int, std::vector<Val>>> decoy;  // [n] -> attrs index -> values observed BEFORE script[n] in the same invocation
  bool replays = false;                         // this callback observes decoys at all
  size_t invocations = 0;
  bool registered    = false;
  bool ever_added    = false;
  // filled by the callback during the current collection
  std::vector<size_t> now;  // script indices used in this collection
  bool type_wrong = false;
  // one (function, state) pair registered on several instruments of one meter: the state object handed
  // to the SDK is `group` for every member registration; the members copy its attrs/script/decoys
  Callback *group = nullptr;     // member: the shared state
  bool is_group   = false;       // the shared state itself (never in SeqCase::cbs)
  std::vector<int> members;      // group: ids of the member registrations
  size_t calls_now = 0;          // group: invocations in the current collection
  size_t collections_used = 0;   // group: collections in which it was invoked (script index)
  bool partial_remove = false;   // group: a member was removed while another one stayed registered
};

struct ObsInst
{
  int meter;
  int kind;
  bool dbl;
  ValueClass vc;
  bool monotone_script;
  std::string name;
  nostd::shared_ptr<mapi::ObservableInstrument> obj;
  bool alive = false;
  std::vector<int> cbs;
};

struct GivenCell
{
  Acc given;            // cumulative-equivalent of everything this reader was given for the set
  long double mag = 0;  // tolerance scale: magnitudes that went through the SDK's arithmetic
};

static void cb_common(mapi::ObserverResult res, void *state, int fn);
static void cb_fn_a(mapi::ObserverResult res, void *state)
{
  cb_common(res, state, 0);
}
static void cb_fn_b(mapi::ObserverResult res, void *state)
{
  cb_common(res, state, 1);
}
static mapi::ObservableCallbackPtr fn_of(int fn)
{
  return fn == 0 ? cb_fn_a : cb_fn_b;
}

struct SeqCase
{
  vf::Report &R = vf::report();
  Rng r;
  Rng rx;  // second stream: decoy observations and the starved-reader history class
  std::vector<bool> rdelta[3];  // [kind][reader]
  size_t nreaders = 1;
  bool starved_hist = false;     // directed history class: one reader collects 34..60 times in a row
  std::vector<bool> starved;     // [reader]: does not collect during that burst (decided with the configuration)
  bool burst_done = false, in_starved_collect = false, starved_judged = false, repeated_judged = false;
  bool shared_hist = false;  // one (function, state) pair registered on 2..3 instruments of one meter
  std::vector<std::unique_ptr<Callback>> groups;
  bool shared_partial_remove_collected = false;
  std::vector<std::string> meters;
  std::vector<AttrMap> pool;
  std::vector<ObsInst> insts;
  std::vector<std::unique_ptr<Callback>> cbs;
  std::unique_ptr<msdk::MeterProvider> provider;
  std::vector<std::shared_ptr<PullReader>> readers;
  std::vector<nostd::shared_ptr<mapi::Meter>> meter_objs;
  // model
  std::map<std::tuple<size_t, int, int>, GivenCell> given;  // (reader, inst, attr)
  std::map<std::pair<int, int>, long double> magsum;        // (inst, attr): sum of |total| observed
  std::map<std::pair<std::string, std::string>, int> inst_index;
  std::string trace;
  uint64_t chash = 0;
  size_t witnesses = 0, collects = 0;
  int64_t last_ns = 0;
  bool removal_between_collections = false, saw_decrease = false, readd_after_remove = false;
  int pending_removal_phase = 0;  // 1: collect happened, 2: then a removal, 3: then another collect
  bool collected_once = false, removed_after_collect = false;

  explicit SeqCase(uint64_t seed) : r(seed), rx(vf::mix(seed, 0x17dec0)), starved_hist(vf::mix(seed, 0x57a17ed) % 8 == 0), shared_hist(vf::mix(seed, 0x5a4ed57) % 4 == 0) {}

  // the state pointer a registration hands to the SDK
  static void *state_of(Callback &cb) { return cb.group ? static_cast<void *>(cb.group) : static_cast<void *>(&cb); }

  // input class of a judged point: instrument kind / reader configuration (never the outcome)
  std::string point_class(int kind, size_t ri, bool delta) const
  {
    return std::string(kind_name(kind)) + "/" + reader_class(nreaders, delta) + (starved[ri] ? ":starved-reader" : "");
  }

  void note(const std::string &s)
  {
    if (trace.size() < 1400)
      trace += s + " ";
    chash = vf::mix(chash, vf::fnv1a(s));
  }
  std::string describe() const
  {
    std::string s = "readers[";
    for (size_t i = 0; i < nreaders; ++i)
      s += std::string(rdelta[0][i] ? "D" : "C") + (rdelta[1][i] ? "D" : "C") + (rdelta[2][i] ? "D" : "C") + (starved[i] ? "*starved " : " ");
    s += "] insts[";
    for (size_t i = 0; i < insts.size(); ++i)
    {
      s += std::to_string(i) + ":" + insts[i].name + "@" + std::to_string(insts[i].meter) + ":" + kind_name(insts[i].kind) + ":" + class_name(insts[i].vc) +
           (insts[i].monotone_script ? ":mono" : ":nonmono") + ":cbs{";
      for (int c : insts[i].cbs)
      {
        s += std::to_string(c) + "(fn" + std::to_string(cbs[c]->fn) + (cbs[c]->group ? ":shared-state" : "") + (cbs[c]->replays ? ":replays" : "") + ":a";
        for (int a : cbs[c]->attrs)
          s += std::to_string(a) + ".";
        s += ") ";
      }
      s += "} ";
    }
    return s + "] pool=" + std::to_string(pool.size());
  }
  std::string witness(const std::string &what)
  {
    if (++witnesses > 4)
      return what;
    return what + " || config: " + describe() + " || history: " + trace;
  }

  Val gen_total(const ObsInst &in, const Val &prev, bool first)
  {
    Val v = prev;
    if (in.vc == kTolDouble)
    {
      static const double sc[] = {1e-3, 1.0, 10.0, 1e4, 1e8};
      double inc              = r.unit() * sc[r.below(5)];
      if (in.kind == kObsGauge)
        v.d = (r.coin() ? inc : -inc);
      else if (in.monotone_script)
        v.d = first ? inc : prev.d + (r.chance(1, 6) ? 0 : inc);
      else
      {
        v.d = first ? (in.kind == kObsCounter ? inc : (r.coin() ? inc : -inc)) : prev.d + (r.coin() ? inc : -inc);
        if (in.kind == kObsCounter && v.d < 0)
          v.d = 0;  // a counter's total is never negative (it may still decrease: a reset)
      }
      return v;
    }
    int64_t unit = in.vc == kExactDouble ? 1 : 1;
    int64_t inc  = 0;
    switch (r.below(4))
    {
      case 0:
        inc = 0;
        break;
      case 1:
        inc = unit * r.range(1, 10);
        break;
      case 2:
        inc = r.range(1, 5000);
        break;
      default:
        inc = static_cast<int64_t>(r.below(uint64_t(1) << 34));
    }
    if (in.kind == kObsGauge)
      v.fx = r.coin() ? inc : -inc;
    else if (in.monotone_script)
      v.fx = first ? inc : prev.fx + inc;
    else
    {
      v.fx = first ? (in.kind == kObsCounter ? inc : (r.coin() ? inc : -inc)) : prev.fx + (r.coin() ? inc : -inc);
      if (in.kind == kObsCounter && v.fx < 0)
        v.fx = 0;
    }
    return v;
  }

  // a value that differs from `real`, of the instrument's class and sign rules, observed for the same
  // attribute set earlier in the same invocation
  Val gen_decoy(const ObsInst &in, const Val &real)
  {
    Val v         = real;
    bool positive = in.kind == kObsCounter || rx.coin();  // a counter's total is never negative
    if (in.vc == kTolDouble)
    {
      double off = std::fabs(real.d) * 0.25 + 0.5 + rx.unit();
      v.d        = positive ? real.d + off : real.d - off;
      return v;
    }
    int64_t off = rx.coin() ? rx.range(1, 10) : rx.range(11, 5000);
    v.fx        = positive ? real.fx + off : real.fx - off;
    return v;
  }

  void generate()
  {
    nreaders = r.chance(3, 10) ? 1 : static_cast<size_t>(r.range(2, 3));
    if (starved_hist && nreaders == 1)
      nreaders = static_cast<size_t>(rx.range(2, 3));
    for (size_t i = 0; i < nreaders; ++i)
    {
      bool d = r.coin();
      for (int k = 0; k < 3; ++k)
        rdelta[k].push_back(r.chance(1, 8) ? !d : d);
    }
    starved.assign(nreaders, false);
    if (starved_hist)
    {
      size_t fast = static_cast<size_t>(rx.below(nreaders));
      for (size_t i = 0; i < nreaders; ++i)
        starved[i] = i != fast;
    }
    size_t nmeters = r.chance(2, 3) ? 1 : 2;
    for (size_t i = 0; i < nmeters; ++i)
      meters.push_back("obs_meter" + std::to_string(i));
    static const char *keys[]        = {"k1", "k2", "host"};
    static const std::string svals[] = {"", "a", "b", std::string("x\0y", 3), "\x80\xff"};
    size_t npool                     = static_cast<size_t>(r.range(2, 6));
    std::set<std::string> seen;
    for (size_t tries = 0; pool.size() < npool && tries < 60; ++tries)
    {
      AttrMap m;
      size_t nk = pool.empty() && r.coin() ? 0 : static_cast<size_t>(r.range(0, 3));
      for (size_t k = 0; k < nk; ++k)
      {
        std::string key = keys[r.below(3)];
        switch (r.below(4))
        {
          case 0:
            m[key] = AV::i64(r.range(-2, 2));
            break;
          case 1:
            m[key] = AV::boolean(r.coin());
            break;
          case 2:
            m[key] = AV::dbl(0.5 * static_cast<double>(r.range(-2, 2)));
            break;
          default:
            m[key] = AV::str(svals[r.below(5)]);
        }
      }
      if (seen.insert(canon(m)).second)
        pool.push_back(m);
    }
    // script of one callback: long enough for every collection of the history (and some spare)
    auto make_script = [&](Callback &cb, const ObsInst &in) {
      std::map<int, Val> cur;
      std::map<int, bool> have;
      for (size_t n = 0; n < 160; ++n)
      {
        std::map<int, Val> e;
        std::map<int, std::vector<Val>> dec;
        for (int a : cb.attrs)
        {
          if (!r.chance(85, 100))
            continue;  // the set is not reported this time (it may come back)
          Val v   = gen_total(in, cur[a], !have[a]);
          cur[a]  = v;
          have[a] = true;
          e[a]    = v;
          if (cb.replays && rx.chance(1, 3))
            for (int64_t k = rx.range(1, 2); k > 0; --k)
              dec[a].push_back(gen_decoy(in, v));
        }
        cb.script.push_back(e);
        cb.decoy.push_back(dec);
      }
    };
    size_t ninst = static_cast<size_t>(r.range(1, 3));
    if (shared_hist && ninst < 2)
      ninst = static_cast<size_t>(rx.range(2, 3));
    // the first `nshared` instruments carry a registration of the shared (function, state) pair: same
    // meter, and same kind / value type / value class so that one script fits all of them
    size_t nshared = !shared_hist ? 0 : (ninst == 2 ? 2 : static_cast<size_t>(rx.range(2, 3)));
    Callback *grp  = nullptr;
    for (size_t i = 0; i < ninst; ++i)
    {
      ObsInst in;
      in.meter           = static_cast<int>(r.below(nmeters));
      in.kind            = static_cast<int>(r.below(3));
      if (starved_hist && i == 0 && in.kind == kObsGauge)
        in.kind = static_cast<int>(rx.below(2));  // the starved-reader class is about running totals
      in.dbl             = r.coin();
      in.vc              = !in.dbl ? kIntClass : (r.chance(1, 3) ? kTolDouble : kExactDouble);
      in.monotone_script = r.chance(55, 100);
      if (i > 0 && i < nshared)
      {
        in.meter           = insts[0].meter;
        in.kind            = insts[0].kind;
        in.dbl             = insts[0].dbl;
        in.vc              = insts[0].vc;
        in.monotone_script = insts[0].monotone_script;
      }
      in.name            = std::string("obs_") + kind_name(in.kind) + "_" + std::to_string(i);
      // 1..3 callbacks on disjoint attribute sets
      std::vector<int> avail;
      for (size_t a = 0; a < pool.size(); ++a)
        avail.push_back(static_cast<int>(a));
      for (size_t a = avail.size(); a > 1; --a)
        std::swap(avail[a - 1], avail[r.below(a)]);
      if (i == 0 && nshared)
      {
        // the shared state: 1..2 attribute sets of its own, one script for every registration
        groups.emplace_back(new Callback());
        grp           = groups.back().get();
        grp->owner    = this;
        grp->id       = -1;
        grp->is_group = true;
        grp->inst     = 0;
        grp->fn       = static_cast<int>(rx.below(2));
        grp->replays  = rx.chance(1, 3);
        size_t own    = std::min<size_t>(static_cast<size_t>(rx.range(1, 2)), pool.size() - 1);
        for (size_t k = 0; k < own; ++k)
          grp->attrs.push_back(avail[avail.size() - 1 - k]);
        make_script(*grp, in);
      }
      if (i < nshared)
      {
        for (int a : grp->attrs)
          avail.erase(std::remove(avail.begin(), avail.end(), a), avail.end());
        std::unique_ptr<Callback> cb(new Callback());
        cb->owner   = this;
        cb->id      = static_cast<int>(cbs.size());
        cb->inst    = static_cast<int>(i);
        cb->fn      = grp->fn;
        cb->replays = grp->replays;
        cb->attrs   = grp->attrs;
        cb->script  = grp->script;
        cb->decoy   = grp->decoy;
        cb->group   = grp;
        grp->members.push_back(cb->id);
        in.cbs.push_back(cb->id);
        cbs.push_back(std::move(cb));
      }
      size_t ncb = std::min<size_t>(static_cast<size_t>(r.range(1, 3)), avail.size());
      for (size_t c = 0; c < ncb; ++c)
      {
        std::unique_ptr<Callback> cb(new Callback());
        cb->owner  = this;
        cb->id     = static_cast<int>(cbs.size());
        cb->inst   = static_cast<int>(i);
        cb->fn     = static_cast<int>(r.below(2));
        cb->replays = rx.chance(1, 3);
        size_t own = std::min<size_t>(static_cast<size_t>(r.range(1, 3)), avail.size() - (ncb - c - 1));
        for (size_t k = 0; k < own && !avail.empty(); ++k)
        {
          cb->attrs.push_back(avail.back());
          avail.pop_back();
        }
        make_script(*cb, in);
        in.cbs.push_back(cb->id);
        cbs.push_back(std::move(cb));
      }
      insts.push_back(std::move(in));
    }
  }

  void build()
  {
    provider = make_provider();
    for (size_t i = 0; i < nreaders; ++i)
    {
      auto rd = std::make_shared<PullReader>(msdk::AggregationTemporality::kCumulative);
      for (int k = 0; k < 3; ++k)
        rd->set(otype(k), rdelta[k][i] ? msdk::AggregationTemporality::kDelta : msdk::AggregationTemporality::kCumulative);
      readers.push_back(rd);
      provider->AddMetricReader(rd);
    }
    for (auto &m : meters)
      meter_objs.push_back(provider->GetMeter(m));
    for (size_t i = 0; i < insts.size(); ++i)
    {
      auto &in = insts[i];
      auto &m  = *meter_objs[in.meter];
      // exact-size + NUL name, freed right after the call
      char *n = static_cast<char *>(malloc(in.name.size() + 1));
      memcpy(n, in.name.c_str(), in.name.size() + 1);
      nostd::string_view nv(n, in.name.size());
      if (in.kind == kObsCounter)
        in.obj = in.dbl ? m.CreateDoubleObservableCounter(nv, "d", "u") : m.CreateInt64ObservableCounter(nv, "d", "u");
      else if (in.kind == kObsUpDown)
        in.obj = in.dbl ? m.CreateDoubleObservableUpDownCounter(nv, "d", "u") : m.CreateInt64ObservableUpDownCounter(nv, "d", "u");
      else
        in.obj = in.dbl ? m.CreateDoubleObservableGauge(nv, "d", "u") : m.CreateInt64ObservableGauge(nv, "d", "u");
      free(n);
      in.alive = true;
      inst_index[std::make_pair(scope_id(meters[in.meter], "", ""), in.name)] = static_cast<int>(i);
    }
  }

  // ---- the callback body
  void invoked(Callback &cb, mapi::ObserverResult &res, int fn)
  {
    size_t n = cb.invocations++;
    if (fn != cb.fn)
      cb.type_wrong = true;
    if (cb.is_group)
    {
      // the shared state cannot know which registration this is: it counts, and reports the same
      // scripted values in every invocation of one collection
      n = cb.collections_used;
      ++cb.calls_now;
    }
    size_t idx = std::min(n, cb.script.size() - 1);
    cb.now.push_back(idx);
    auto &in    = insts[cb.inst];
    bool is_dbl = nostd::holds_alternative<nostd::shared_ptr<mapi::ObserverResultT<double>>>(res);
    if (is_dbl != in.dbl)
    {
      cb.type_wrong = true;
      return;
    }
    // one Observe call for attribute set m; every overload is used
    auto observe_one = [&](const AttrMap &m, const Val &val, Rng &g) {
      bool bare = m.empty() && g.coin();
      if (in.dbl)
      {
        auto &o  = nostd::get<nostd::shared_ptr<mapi::ObserverResultT<double>>>(res);
        double v = val.as_double(in.vc);
        if (bare)
          o->Observe(v);
        else
        {
          AttrArg a(m, g);
          const common::KeyValueIterable &kv = a;
          if (g.coin())
            o->Observe(v, kv);
          else
          {
            auto p = a.pairs();
            o->Observe(v, p);
          }
          a.kill(g.coin());
        }
      }
      else
      {
        auto &o   = nostd::get<nostd::shared_ptr<mapi::ObserverResultT<int64_t>>>(res);
        int64_t v = val.fx;
        if (bare)
          o->Observe(v);
        else
        {
          AttrArg a(m, g);
          const common::KeyValueIterable &kv = a;
          if (g.coin())
            o->Observe(v, kv);
          else
          {
            auto p = a.pairs();
            o->Observe(v, p);
          }
          a.kill(g.coin());
        }
      }
    };
    for (auto &e : cb.script[idx])
    {
      // a replaying callback first observes older/provisional values for the same attribute set
      // (own key order, own overload, own buffers), then the real one: the last observation counts
      auto d = cb.decoy[idx].find(e.first);
      if (d != cb.decoy[idx].end())
        for (auto &dv : d->second)
        {
          observe_one(pool[e.first], dv, rx);
          R.count("op_decoy_observe");
        }
      observe_one(pool[e.first], e.second, r);
    }
  }

  void op_add(Callback &cb)
  {
    insts[cb.inst].obj->AddCallback(fn_of(cb.fn), state_of(cb));
    if (cb.ever_added)
      readd_after_remove = true;
    cb.registered = true;
    cb.ever_added = true;
    note("add(cb" + std::to_string(cb.id) + ")");
    R.count("op_add_callback");
  }
  void op_remove(Callback &cb)
  {
    insts[cb.inst].obj->RemoveCallback(fn_of(cb.fn), state_of(cb));
    cb.registered = false;
    note("remove(cb" + std::to_string(cb.id) + ")");
    R.count("op_remove_callback");
    if (cb.group)
      for (int m : cb.group->members)
        if (cbs[m]->registered)
        {
          // the same (function, state) pair stays registered on another instrument
          cb.group->partial_remove = true;
          R.count("op_remove_one_registration_of_shared_callback");
        }
    if (collected_once)
      removed_after_collect = true;
  }
  void op_destroy(size_t i)
  {
    auto &in = insts[i];
    in.obj   = nostd::shared_ptr<mapi::ObservableInstrument>();
    in.alive = false;
    for (int c : in.cbs)
      cbs[c]->registered = false;
    note("destroy(i" + std::to_string(i) + ")");
    R.count("op_destroy_instrument");
    if (collected_once)
      removed_after_collect = true;
  }

  void op_collect(size_t ri)
  {
    // clock-tie independence: the previous observation and this one are ordered by the model, so
    // the system clock must have advanced in between
    last_ns = wait_clock_after(last_ns);
    std::vector<size_t> before;
    for (auto &cb : cbs)
    {
      before.push_back(cb->invocations);
      cb->now.clear();
    }
    for (auto &g : groups)
    {
      g->calls_now = 0;
      g->now.clear();
    }
    auto got = readers[ri]->collect();
    last_ns  = wait_clock_after(now_ns());
    ++collects;
    note("collect(r" + std::to_string(ri) + ")");
    R.count("op_collect");
    if (removed_after_collect)
      removal_between_collections = true;
    collected_once = true;

    // ---- invocation counts of a shared (function, state) pair: once per registration in force.  When
    // the count is right one invocation is attributed to every registered member; when it is wrong the
    // assertion fires here once and the values of the member instruments are not judged in this
    // collection (nobody can tell which registrations were served).
    for (auto &gp : groups)
    {
      Callback &g = *gp;
      size_t m = 0, alive_members = 0;
      bool ever = false;
      for (int id : g.members)
      {
        m += cbs[id]->registered ? 1 : 0;
        alive_members += insts[cbs[id]->inst].alive ? 1 : 0;
        ever |= cbs[id]->ever_added;
      }
      size_t k = g.calls_now;
      if (k)
        ++g.collections_used;
      R.count("shared_callback_collections_checked");
      if (g.partial_remove && m > 0)
      {
        R.count("shared_callback_collections_after_partial_remove");
        shared_partial_remove_collected = true;
      }
      std::string rc = std::string(nreaders == 1 ? "single-reader" : "multi-reader") + ":shared-callback-state";
      std::string what = "the (function, state) pair shared by the instruments of callbacks";
      for (int id : g.members)
        what += " " + std::to_string(id) + (cbs[id]->registered ? "[registered]" : "[not registered]");
      what += " was invoked " + std::to_string(k) + " times in one collection by reader " + std::to_string(ri) + " with " + std::to_string(m) + " registration(s) in force";
      if (k != m && m > 0)
        R.violation("invoked-once", rc, witness(what));
      else if (k != m)
        R.violation("removed-not-invoked", std::string(!ever ? "never-added" : (alive_members == g.members.size() ? "after-remove" : "after-destroy")) + ":shared-callback-state", witness(what));
      for (int id : g.members)
        if (cbs[id]->registered)
        {
          ++cbs[id]->invocations;  // the model's attribution; the per-callback check below then holds
          if (k == m)
            cbs[id]->now = g.now.empty() ? std::vector<size_t>() : std::vector<size_t>(1, g.now.back());
        }
      if (g.type_wrong)
      {
        R.violation("observer-type", std::string(kind_name(insts[g.inst].kind)) + ":shared-callback-state", witness("the shared callback was handed the wrong ObserverResult alternative or function"));
        g.type_wrong = false;
      }
    }

    // ---- invocation counts
    for (auto &cbp : cbs)
    {
      Callback &cb = *cbp;
      size_t k     = cb.invocations - before[cb.id];
      if (cb.registered)
      {
        R.count("registered_callback_collections");
        if (k != 1)
          R.violation("invoked-once", nreaders == 1 ? "single-reader" : "multi-reader",
                      witness("callback " + std::to_string(cb.id) + " of instrument " + std::to_string(cb.inst) + " is registered and was invoked " + std::to_string(k) +
                              " times in one collection by reader " + std::to_string(ri)));
      }
      else
      {
        R.count("unregistered_callback_collections");
        if (k != 0)
          R.violation("removed-not-invoked", !cb.ever_added ? "never-added" : (insts[cb.inst].alive ? "after-remove" : "after-destroy"),
                      witness("callback " + std::to_string(cb.id) + " of instrument " + std::to_string(cb.inst) + " is not registered and was invoked " + std::to_string(k) +
                              " times in a collection by reader " + std::to_string(ri)));
      }
      if (cb.type_wrong)
      {
        R.violation("observer-type", kind_name(insts[cb.inst].kind), witness("callback " + std::to_string(cb.id) + " was handed the wrong ObserverResult alternative or function"));
        cb.type_wrong = false;
      }
    }

    // ---- what was reported in this collection: (inst, attr) -> total, from the callbacks' own record
    std::map<std::pair<int, int>, Val> reported;
    std::map<std::pair<int, int>, const std::vector<Val> *> repeated;  // sets observed more than once in this invocation
    for (auto &cbp : cbs)
      if (!cbp->now.empty())
      {
        for (auto &e : cbp->script[cbp->now.back()])
        {
          reported[std::make_pair(cbp->inst, e.first)] = e.second;
          auto &in                                     = insts[cbp->inst];
          magsum[std::make_pair(cbp->inst, e.first)] += std::fabs(static_cast<long double>(e.second.as_double(in.vc)));
        }
        for (auto &d : cbp->decoy[cbp->now.back()])
        {
          repeated[std::make_pair(cbp->inst, d.first)] = &d.second;
          for (auto &dv : d.second)  // the decoys may have gone through the SDK's arithmetic too
            magsum[std::make_pair(cbp->inst, d.first)] += std::fabs(static_cast<long double>(dv.as_double(insts[cbp->inst].vc)));
        }
        if (cbp->now.size() >= 1 && cbp->now.back() > 0)
        {
          auto &prev = cbp->script[cbp->now.back() - 1];
          for (auto &e : cbp->script[cbp->now.back()])
          {
            auto p = prev.find(e.first);
            if (p != prev.end() && e.second.as_double(insts[cbp->inst].vc) < p->second.as_double(insts[cbp->inst].vc) && insts[cbp->inst].kind != kObsGauge)
              saw_decrease = true;
          }
        }
      }

    // ---- points
    std::map<std::pair<int, std::string>, const GotPoint *> pts;
    std::map<std::string, int> attr_of;
    for (size_t a = 0; a < pool.size(); ++a)
      attr_of[canon(pool[a])] = static_cast<int>(a);
    for (auto &g : got)
    {
      auto ii = inst_index.find(std::make_pair(g.scope, g.name));
      if (ii == inst_index.end())
      {
        R.violation("unexpected-stream", "sequential", witness("stream " + g.scope + "/" + g.name));
        continue;
      }
      auto &in   = insts[ii->second];
      bool delta = rdelta[in.kind][ri];
      for (auto &p : g.points)
      {
        auto ai = attr_of.find(p.attrs);
        if (ai == attr_of.end())
        {
          R.violation("phantom-series", point_class(in.kind, ri, delta), witness("instrument " + in.name + " point with attrs " + show_canon(p.attrs) + " that no callback ever reports"));
          continue;
        }
        auto key = std::make_pair(ii->second, p.attrs);
        if (pts.count(key))
          R.violation("point-unique", point_class(in.kind, ri, delta), witness("instrument " + in.name + " two points for attrs " + show_canon(p.attrs) + " in one collection"));
        pts[key] = &p;
        if (!reported.count(std::make_pair(ii->second, ai->second)))
        {
          // don't-care: the set was not reported in this collection.  Follow a delta reader's
          // catch-up so that "what this reader was last given" stays exact.
          R.count("point_for_unreported_set_dontcare");
          if (in.kind != kObsGauge && delta && p.kind == 0)
          {
            auto &gc = given[std::make_tuple(ri, ii->second, ai->second)];
            if (in.vc == kTolDouble)
              gc.given.d += p.v.as_double();
            else if (in.vc == kExactDouble)
              gc.given.fx += static_cast<int64_t>(std::llround(p.v.as_double() * kFx));
            else
              gc.given.fx += p.v.is_int ? p.v.i : static_cast<int64_t>(p.v.d);
            gc.mag += std::fabs(static_cast<long double>(p.v.as_double()));
          }
        }
      }
    }
    for (auto &rp : reported)
    {
      int ii     = rp.first.first;
      int a      = rp.first.second;
      auto &in   = insts[ii];
      bool delta = rdelta[in.kind][ri];
      std::string cls = point_class(in.kind, ri, delta);
      auto pi    = pts.find(std::make_pair(ii, canon(pool[a])));
      const GotPoint *p = pi == pts.end() ? nullptr : pi->second;
      Got got_v;
      if (p)
        got_v = p->v;
      std::string where = "reader " + std::to_string(ri) + (delta ? "(delta)" : "(cumulative)") + " instrument " + in.name + " attrs " + show_canon(canon(pool[a])) + ": ";
      Acc total;
      total.add(in.vc, rp.second);
      long double ms = magsum[rp.first] * 2;
      auto rpt = repeated.find(rp.first);
      std::string earlier;  // the values observed for this set earlier in the same invocation
      if (rpt != repeated.end())
        for (auto &dv : *rpt->second)
        {
          Acc da;
          da.add(in.vc, dv);
          earlier += (earlier.empty() ? "" : ", ") + show(in.vc, da);
        }
      if (in.kind == kObsGauge)
      {
        R.count("gauge_points_checked");
        bool okv = p && p->kind == 1 && p->lv_valid &&
                   (in.vc == kTolDouble ? (!got_v.is_int && got_v.d == rp.second.d) : matches(in.vc, total, got_v));
        if (rpt != repeated.end())
        {
          // the callback observed this set 2..3 times in this invocation: the most recent one counts
          R.count("gauge_points_checked_repeated_observe");
          repeated_judged = true;
          if (!okv)
            R.violation("gauge-latest", cls + ":repeated-observe-in-one-invocation",
                        witness(where + "got " + show(got_v) + (p && p->kind != 1 ? " (not a last-value point)" : "") + " want " + show(in.vc, total) +
                                ", the most recent of the values the callback observed for this set in this collection (it observed " + earlier + " first, then " + show(in.vc, total) + ")"));
          continue;
        }
        if (!okv)
          R.violation("gauge-latest", cls, witness(where + "got " + show(got_v) + (p && p->kind != 1 ? " (not a last-value point)" : "") + " want the value observed in this collection " + show(in.vc, total)));
        continue;
      }
      auto &gc = given[std::make_tuple(ri, ii, a)];
      if (rpt != repeated.end())
      {
        // don't-care: "the reported total" is not unique when one invocation reports several totals
        // for the set.  Follow what a delta reader was given so that its next difference stays exact
        // (whichever of the totals the SDK kept, the following deltas telescope to the next total).
        R.count("sum_point_for_repeatedly_observed_set_dontcare");
        if (delta && p && p->kind == 0)
        {
          if (in.vc == kTolDouble)
            gc.given.d += p->v.as_double();
          else if (in.vc == kExactDouble)
            gc.given.fx += static_cast<int64_t>(std::llround(p->v.as_double() * kFx));
          else
            gc.given.fx += p->v.is_int ? p->v.i : static_cast<int64_t>(p->v.d);
          gc.mag += std::fabs(static_cast<long double>(p->v.as_double()));
        }
        continue;
      }
      if (in_starved_collect)
      {
        R.count(delta ? "starved_reader_delta_points_checked" : "starved_reader_cumulative_points_checked");
        starved_judged = true;
      }
      if (!delta)
      {
        R.count("cumulative_points_checked");
        bool okv = p && p->kind == 0 && matches(in.vc, total, got_v, ms);
        if (!okv)
          R.violation("cumulative-total", cls, witness(where + "got " + show(got_v) + " want the reported total " + show(in.vc, total)));
        continue;
      }
      R.count("delta_points_checked");
      Acc want;
      want.fx  = total.fx - gc.given.fx;
      want.d   = total.d - gc.given.d;
      want.mag = 0;
      bool okv;
      if (!p)
        okv = want.is_zero(in.vc) || (in.vc == kTolDouble && std::fabs(want.d) <= (ms + gc.mag) * 1e-9L);
      else
        okv = p->kind == 0 && matches(in.vc, want, got_v, ms + gc.mag);
      if (gc.given.n)
        R.count("delta_points_checked_against_earlier_given");
      if (!okv)
        R.violation("delta-difference", cls,
                    witness(where + "got " + show(got_v) + " want " + show(in.vc, want) + " = reported total " + show(in.vc, total) + " minus what this reader was last given " + show(in.vc, gc.given)));
      // continue from the model: this reader now holds the reported total
      gc.given.fx = total.fx;
      gc.given.d  = total.d;
      gc.given.n += 1;
      gc.mag      = 0;
    }
  }

  // one step of the random walk over {AddCallback, RemoveCallback, destroy, RemoveCallback of
  // something not registered, Collect}.  In a starved-reader history instrument 0 (a counter or
  // up-down counter) is not destroyed before the burst is over.
  void random_step()
  {
    unsigned c = static_cast<unsigned>(r.below(100));
    if (c < 12)
    {
      std::vector<Callback *> cand;
      for (auto &cb : cbs)
        if (!cb->registered && insts[cb->inst].alive)
          cand.push_back(cb.get());
      if (!cand.empty())
        op_add(*cand[r.below(cand.size())]);
    }
    else if (c < 24)
    {
      std::vector<Callback *> cand;
      for (auto &cb : cbs)
        if (cb->registered)
          cand.push_back(cb.get());
      if (!cand.empty())
        op_remove(*cand[r.below(cand.size())]);
    }
    else if (c < 26)
    {
      std::vector<size_t> cand;
      for (size_t i = 0; i < insts.size(); ++i)
        if (insts[i].alive && !(starved_hist && !burst_done && i == 0))
          cand.push_back(i);
      if (cand.size() > 1 || (cand.size() == 1 && r.chance(1, 4)))
        op_destroy(cand[r.below(cand.size())]);
    }
    else if (c < 30)
    {
      // RemoveCallback of something that is not registered (other function / never added): no effect
      auto &cb = *cbs[r.below(cbs.size())];
      if (insts[cb.inst].alive)
      {
        if (cb.registered)
          insts[cb.inst].obj->RemoveCallback(fn_of(1 - cb.fn), state_of(cb));  // same state, other function
        else
          insts[cb.inst].obj->RemoveCallback(fn_of(cb.fn), state_of(cb));  // for a shared pair: not registered on THIS instrument
        note("remove-unregistered(cb" + std::to_string(cb.id) + ")");
        R.count("op_remove_not_registered");
      }
    }
    else
      op_collect(static_cast<size_t>(r.below(nreaders)));
  }

  // directed history: a short random prefix, then one reader collects 34..60 times in a row while the
  // callbacks of instrument 0 keep reporting changing totals (an occasional AddCallback/RemoveCallback
  // in between) and the starved readers do not collect; then every starved reader collects; then a
  // short random suffix.  Returns the number of steps.
  size_t run_starved()
  {
    size_t steps = 0;
    for (size_t k = static_cast<size_t>(rx.range(0, 15)); k > 0; --k, ++steps)
      random_step();
    for (int c : insts[0].cbs)
      if (!cbs[c]->registered)
        op_add(*cbs[c]);
    size_t fast = 0;
    for (size_t i = 0; i < nreaders; ++i)
      if (!starved[i])
        fast = i;
    size_t burst = static_cast<size_t>(rx.range(34, 60));
    for (size_t k = 0; k < burst; ++k, ++steps)
    {
      if (rx.chance(1, 12))
      {
        std::vector<Callback *> cand;
        bool add = rx.coin();
        for (auto &cb : cbs)
          if (insts[cb->inst].alive && cb->registered != add)
            cand.push_back(cb.get());
        if (!cand.empty())
        {
          Callback &cb = *cand[rx.below(cand.size())];
          if (add)
            op_add(cb);
          else
            op_remove(cb);
        }
      }
      op_collect(fast);
    }
    burst_done = true;
    R.maxi("max_collections_between_two_of_a_starved_reader", burst);
    for (int c : insts[0].cbs)
      if (!cbs[c]->registered)
        op_add(*cbs[c]);  // so that the starved readers' collections see reported (judged) totals
    in_starved_collect = true;
    for (size_t i = 0; i < nreaders; ++i, ++steps)
      if (starved[i])
        op_collect(i);
    in_starved_collect = false;
    for (size_t k = static_cast<size_t>(rx.range(0, 15)); k > 0; --k, ++steps)
      random_step();
    return steps;
  }

  void run()
  {
    generate();
    build();
    size_t nsteps = static_cast<size_t>(r.range(5, 100));
    // most histories start with the callbacks registered
    for (auto &cb : cbs)
      if (r.chance(7, 10))
        op_add(*cb);
    if (starved_hist)
      nsteps = run_starved();
    else
      for (size_t step = 0; step < nsteps; ++step)
        random_step();
    for (size_t ri = 0; ri < nreaders; ++ri)
      op_collect(ri);

    R.count("histories");
    if (removal_between_collections)
      R.count("hist_removal_between_collections");
    if (starved_hist && starved_judged)
      R.count("hist_starved_reader");
    if (repeated_judged)
      R.count("hist_gauge_repeated_observe");
    if (shared_partial_remove_collected)
      R.count("hist_shared_callback_state");
    bool mixed = false;
    for (int k = 0; k < 3; ++k)
      for (size_t i = 1; i < nreaders; ++i)
        mixed |= rdelta[k][i] != rdelta[k][0];
    if (mixed)
      R.count("hist_readers_mixed_temporality");
    if (saw_decrease)
      R.count("hist_non_monotone_script");
    if (readd_after_remove)
      R.count("hist_readd_after_remove");
    bool shared_fn = false;
    for (auto &in : insts)
      for (size_t x = 0; x < in.cbs.size(); ++x)
        for (size_t y = x + 1; y < in.cbs.size(); ++y)
          shared_fn |= cbs[in.cbs[x]]->fn == cbs[in.cbs[y]]->fn;
    if (shared_fn)
      R.count("hist_callbacks_sharing_a_function_pointer");
    R.maxi("max_steps", nsteps);
    if (collects > nreaders)
      R.nontrivial(chash);
    if (R.want_sample(5))
      R.sample("history: " + describe() + " :: " + trace.substr(0, 400));
    for (auto &in : insts)
      in.obj = nostd::shared_ptr<mapi::ObservableInstrument>();
    meter_objs.clear();
    provider.reset();
  }
};

static void cb_common(mapi::ObserverResult res, void *state, int fn)
{
  Callback *cb = static_cast<Callback *>(state);
  cb->owner->invoked(*cb, res, fn);
}

// ---------------------------------------------------------------------------------------------
// AddCallback / RemoveCallback / destruction racing Collect
// ---------------------------------------------------------------------------------------------
struct RaceCb
{
  vf::raw_atomic<uint64_t> invocations{0};
  vf::raw_atomic<bool> unregistered{true};   // set after RemoveCallback / destruction returned
  vf::raw_atomic<uint64_t> late{0};          // invocations seen while `unregistered` was set
  bool destroyed = false;  // written by the owning mutator thread, read after the threads are joined
};

static void race_cb(mapi::ObserverResult res, void *state)
{
  RaceCb *cb = static_cast<RaceCb *>(state);
  if (cb->unregistered.load())
    cb->late.fetch_add(1);
  uint64_t n = cb->invocations.fetch_add(1);
  if (nostd::holds_alternative<nostd::shared_ptr<mapi::ObserverResultT<double>>>(res))
    nostd::get<nostd::shared_ptr<mapi::ObserverResultT<double>>>(res)->Observe(static_cast<double>(n) * 0.5);
  else
    nostd::get<nostd::shared_ptr<mapi::ObserverResultT<int64_t>>>(res)->Observe(static_cast<int64_t>(n));
}
static void race_cb2(mapi::ObserverResult res, void *state)
{
  race_cb(res, state);
}

static void race_case(uint64_t seed)
{
  auto &R = vf::report();
  Rng r(seed);
  auto provider   = make_provider();
  size_t nreaders = static_cast<size_t>(r.range(1, 2));
  std::vector<std::shared_ptr<PullReader>> readers;
  for (size_t i = 0; i < nreaders; ++i)
  {
    auto rd = std::make_shared<PullReader>(r.coin() ? msdk::AggregationTemporality::kDelta : msdk::AggregationTemporality::kCumulative);
    readers.push_back(rd);
    provider->AddMetricReader(rd);
  }
  auto meter = provider->GetMeter("race_meter");
  // stable instruments with stable callbacks (registered throughout)
  size_t ninst = static_cast<size_t>(r.range(1, 2));
  std::vector<nostd::shared_ptr<mapi::ObservableInstrument>> insts;
  for (size_t i = 0; i < ninst; ++i)
  {
    std::string n = "race_obs_" + std::to_string(i);
    insts.push_back(r.coin() ? meter->CreateInt64ObservableCounter(n) : (r.coin() ? meter->CreateDoubleObservableGauge(n) : meter->CreateInt64ObservableUpDownCounter(n)));
  }
  std::vector<std::unique_ptr<RaceCb>> stable;
  for (size_t i = 0; i < ninst; ++i)
    if (i == 0 || r.coin())
    {
      stable.emplace_back(new RaceCb());
      stable.back()->unregistered.store(false);
      insts[i]->AddCallback(race_cb, stable.back().get());
    }
  // mutators: each owns a few callbacks it adds and removes in a loop, and optionally a victim
  // instrument that it destroys while collections are running
  size_t nmut = static_cast<size_t>(r.range(1, 2));
  struct Mut
  {
    std::vector<std::unique_ptr<RaceCb>> own;
    std::vector<size_t> on;  // instrument index per callback
    nostd::shared_ptr<mapi::ObservableInstrument> victim;
    std::vector<std::unique_ptr<RaceCb>> victim_cbs;
    size_t rounds = 0;
    uint64_t adds = 0, removes = 0;
  };
  std::vector<Mut> muts(nmut);
  for (size_t m = 0; m < nmut; ++m)
  {
    size_t k = static_cast<size_t>(r.range(1, 3));
    for (size_t j = 0; j < k; ++j)
    {
      muts[m].own.emplace_back(new RaceCb());
      muts[m].on.push_back(static_cast<size_t>(r.below(ninst)));
    }
    muts[m].rounds = static_cast<size_t>(r.range(20, 120));
    if (r.chance(1, 2))
    {
      muts[m].victim = meter->CreateInt64ObservableGauge("race_victim_" + std::to_string(m));
      size_t vc      = static_cast<size_t>(r.range(1, 2));
      for (size_t j = 0; j < vc; ++j)
      {
        muts[m].victim_cbs.emplace_back(new RaceCb());
        muts[m].victim_cbs.back()->unregistered.store(false);
        muts[m].victim->AddCallback(j ? race_cb2 : race_cb, muts[m].victim_cbs.back().get());
      }
    }
  }
  size_t ncoll = static_cast<size_t>(r.range(20, 80));
  vf::raw_atomic<bool> go{false};
  vf::raw_atomic<uint64_t> collections{0};
  vf::raw_atomic<int> mutators_running{static_cast<int>(nmut)};
#ifdef OTEL_VERIF_SHIM
  vf_configure(seed, 30000, 5000, 0, 0, 200);
#endif
  std::vector<std::thread> th;
  for (size_t ri = 0; ri < nreaders; ++ri)
    th.emplace_back([&, ri] {
      Rng tr(vf::mix(seed, 300 + ri));
      while (!go.load())
        std::this_thread::yield();
      // keep collecting while mutators run, at least ncoll times
      for (size_t k = 0; k < ncoll || mutators_running.load() > 0; ++k)
      {
        readers[ri]->collect();
        collections.fetch_add(1);
        if (tr.chance(1, 4))
          std::this_thread::sleep_for(std::chrono::microseconds(tr.below(100)));
      }
    });
  for (size_t m = 0; m < nmut; ++m)
    th.emplace_back([&, m] {
      Rng tr(vf::mix(seed, 400 + m));
      Mut &mu = muts[m];
      while (!go.load())
        std::this_thread::yield();
      size_t destroy_at = mu.victim ? tr.below(mu.rounds) : mu.rounds + 1;
      for (size_t k = 0; k < mu.rounds; ++k)
      {
        size_t j   = tr.below(mu.own.size());
        RaceCb &cb = *mu.own[j];
        auto fn    = (j & 1) ? race_cb2 : race_cb;
        if (cb.unregistered.load())
        {
          cb.unregistered.store(false);
          insts[mu.on[j]]->AddCallback(fn, &cb);
          ++mu.adds;
        }
        else
        {
          insts[mu.on[j]]->RemoveCallback(fn, &cb);
          cb.unregistered.store(true);  // from here on an invocation is a violation
          ++mu.removes;
        }
        if (k == destroy_at)
        {
          mu.victim = nostd::shared_ptr<mapi::ObservableInstrument>();  // last reference: destroyed
          for (auto &vcb : mu.victim_cbs)
          {
            vcb->unregistered.store(true);
            vcb->destroyed = true;
          }
        }
        if (tr.chance(1, 3))
          std::this_thread::yield();
      }
      mutators_running.fetch_sub(1);
    });
  go.store(true);
  for (auto &t : th)
    t.join();
#ifdef OTEL_VERIF_SHIM
  vf_configure(0, 0, 0, 0, 0, 0);
#endif
  // quiescent epilogue: one more collection per reader; registered callbacks exactly once each,
  // removed ones not at all
  std::vector<RaceCb *> all;
  for (auto &s : stable)
    all.push_back(s.get());
  for (auto &mu : muts)
  {
    for (auto &c : mu.own)
      all.push_back(c.get());
    for (auto &c : mu.victim_cbs)
      all.push_back(c.get());
  }
  for (size_t ri = 0; ri < nreaders; ++ri)
  {
    std::vector<uint64_t> before;
    for (auto *c : all)
      before.push_back(c->invocations.load());
    readers[ri]->collect();
    collections.fetch_add(1);
    for (size_t k = 0; k < all.size(); ++k)
    {
      uint64_t d = all[k]->invocations.load() - before[k];
      bool reg   = !all[k]->unregistered.load();
      if (reg && d != 1)
        R.violation("invoked-once", "after-racing-add-remove", "a registered callback was invoked " + std::to_string(d) + " times in the quiescent collection that follows the race");
      if (!reg && d != 0)
        R.violation("removed-not-invoked", all[k]->destroyed ? "after-destroy" : "after-remove", "quiescent collection after the race invoked an unregistered callback " + std::to_string(d) + " times");
    }
  }
  uint64_t total = collections.load();
  for (auto &s : stable)
    if (s->invocations.load() != total)
      R.violation("invoked-once", "racing-add-remove",
                  "a callback that stayed registered was invoked " + std::to_string(s->invocations.load()) + " times in " + std::to_string(total) + " collections by " + std::to_string(nreaders) +
                      " reader(s) while " + std::to_string(nmut) + " thread(s) added/removed other callbacks");
  uint64_t adds = 0, removes = 0, churn_inv = 0;
  for (auto *c : all)
    if (c->late.load())
      R.violation("removed-not-invoked", c->destroyed ? "destroyed-racing-collect" : "removed-racing-collect",
                  "a callback was invoked " + std::to_string(c->late.load()) + " times after RemoveCallback / the instrument's destruction had returned (" + std::to_string(nreaders) + " collecting reader(s))");
  for (auto &mu : muts)
  {
    adds += mu.adds;
    removes += mu.removes;
    for (auto &c : mu.own)
      churn_inv += c->invocations.load();
    if (!mu.victim_cbs.empty())
      R.count("race_instrument_destroyed_during_collections");
  }
  R.count("race_runs");
  R.count("race_collections", total);
  R.count("race_add_callback", adds);
  R.count("race_remove_callback", removes);
  R.count("race_invocations_of_churning_callbacks", churn_inv);
  if (churn_inv > 0 && removes >= 5)
    R.count("race_runs_removal_interleaved_with_invocations");
  R.nontrivial(vf::mix(seed, total));
  R.signature(vf::mix(vf::mix(seed, total), churn_inv));
  if (R.want_sample(3))
    R.sample("race: readers=" + std::to_string(nreaders) + " mutators=" + std::to_string(nmut) + " collections=" + std::to_string(total) + " add=" + std::to_string(adds) +
             " remove=" + std::to_string(removes) + " invocations of churning callbacks=" + std::to_string(churn_inv));
  for (auto &mu : muts)
    mu.victim = nostd::shared_ptr<mapi::ObservableInstrument>();
  insts.clear();
  meter = nostd::shared_ptr<mapi::Meter>();
  provider.reset();
}

// ---------------------------------------------------------------------------------------------
// readers collecting concurrently, each from its own thread
// ---------------------------------------------------------------------------------------------
static thread_local int tl_collecting_reader = -1;  // set by the thread that calls Collect for reader i

struct CrInst
{
  int kind     = kObsCounter;
  bool dbl     = false;
  size_t nsets = 1;
  uint64_t salt = 0;
  std::string name;
  std::vector<int64_t> step, off;  // per set
  nostd::shared_ptr<mapi::ObservableInstrument> obj;
  vf::raw_atomic<uint64_t> invocations{0};
  // [reader]: written only by the thread that collects for that reader (or by the main thread after
  // the join): number of invocations handed to that reader and the invocation number of the last one
  std::vector<uint64_t> handed_count, handed_last;
  // the total this instrument's callback reports for set a at its n-th invocation (fixed point: the
  // integer value, or value*1024 for a double instrument).  Counters: strictly increasing in n.
  int64_t value(size_t a, uint64_t n) const
  {
    if (kind == kObsCounter)
      return off[a] + static_cast<int64_t>(n + 1) * step[a];
    return off[a] + static_cast<int64_t>(vf::mix(salt, n * 1024 + a) % 200001) - 100000;
  }
};

static void cr_callback(mapi::ObserverResult res, void *state)
{
  CrInst *in = static_cast<CrInst *>(state);
  uint64_t n = in->invocations.fetch_add(1);
  int ri     = tl_collecting_reader;
  if (ri >= 0 && static_cast<size_t>(ri) < in->handed_count.size())
  {
    ++in->handed_count[ri];
    in->handed_last[ri] = n;
  }
  bool is_dbl = nostd::holds_alternative<nostd::shared_ptr<mapi::ObserverResultT<double>>>(res);
  for (size_t a = 0; a < in->nsets; ++a)
  {
    int64_t v = in->value(a, n);
    int64_t k = static_cast<int64_t>(a);
    if (is_dbl)
    {
      auto &o = nostd::get<nostd::shared_ptr<mapi::ObserverResultT<double>>>(res);
      if (a == 0)
        o->Observe(static_cast<double>(v) / kFx);
      else
        o->Observe(static_cast<double>(v) / kFx, {{"k", k}});
    }
    else
    {
      auto &o = nostd::get<nostd::shared_ptr<mapi::ObserverResultT<int64_t>>>(res);
      if (a == 0)
        o->Observe(v);
      else
        o->Observe(v, {{"k", k}});
    }
  }
}

static void readers_case(uint64_t seed)
{
  auto &R = vf::report();
  Rng r(seed);
  auto provider   = make_provider();
  size_t nreaders = static_cast<size_t>(r.range(2, 3));
  std::vector<std::shared_ptr<PullReader>> readers;
  std::vector<bool> rdelta[3];
  bool d0 = r.coin();
  for (size_t i = 0; i < nreaders; ++i)
  {
    // the first two readers differ in temporality in two cases out of three
    bool d  = i == 0 ? d0 : (i == 1 ? (r.chance(2, 3) ? !d0 : d0) : r.coin());
    auto rd = std::make_shared<PullReader>(msdk::AggregationTemporality::kCumulative);
    for (int k = 0; k < 3; ++k)
    {
      rdelta[k].push_back(r.chance(1, 8) ? !d : d);
      rd->set(otype(k), rdelta[k].back() ? msdk::AggregationTemporality::kDelta : msdk::AggregationTemporality::kCumulative);
    }
    readers.push_back(rd);
    provider->AddMetricReader(rd);
  }
  size_t nmeters = r.chance(3, 4) ? 1 : 2;
  std::vector<nostd::shared_ptr<mapi::Meter>> meters;
  for (size_t i = 0; i < nmeters; ++i)
    meters.push_back(provider->GetMeter("cr_meter" + std::to_string(i)));
  // instrument 0 of three cases in four is ballast: an observable with many attribute sets, created
  // first, so that a reader spends some time between running the callbacks and collecting the
  // storages of the instruments created after it (it is judged like the others)
  size_t ninst = static_cast<size_t>(r.range(2, 3));
  bool ballast = r.chance(3, 4);
  std::vector<std::unique_ptr<CrInst>> insts;
  std::map<std::string, size_t> by_name;
  for (size_t i = 0; i < ninst; ++i)
  {
    std::unique_ptr<CrInst> in(new CrInst());
    unsigned k = static_cast<unsigned>(r.below(10));
    in->kind   = k < 5 ? kObsCounter : (k < 8 ? kObsUpDown : kObsGauge);
    in->dbl    = r.coin();
    in->nsets  = (i == 0 && ballast) ? static_cast<size_t>(r.range(30, 120)) : static_cast<size_t>(r.range(1, 3));
    in->salt   = vf::mix(seed, 900 + i);
    in->name   = std::string("cr_") + kind_name(in->kind) + "_" + std::to_string(i);
    for (size_t a = 0; a < in->nsets; ++a)
    {
      in->step.push_back(r.range(1, 1000));
      in->off.push_back(in->kind == kObsCounter ? r.range(0, 100000) : r.range(-100000, 100000));
    }
    in->handed_count.assign(nreaders, 0);
    in->handed_last.assign(nreaders, 0);
    auto &m = *meters[r.below(nmeters)];
    if (in->kind == kObsCounter)
      in->obj = in->dbl ? m.CreateDoubleObservableCounter(in->name, "d", "u") : m.CreateInt64ObservableCounter(in->name, "d", "u");
    else if (in->kind == kObsUpDown)
      in->obj = in->dbl ? m.CreateDoubleObservableUpDownCounter(in->name, "d", "u") : m.CreateInt64ObservableUpDownCounter(in->name, "d", "u");
    else
      in->obj = in->dbl ? m.CreateDoubleObservableGauge(in->name, "d", "u") : m.CreateInt64ObservableGauge(in->name, "d", "u");
    in->obj->AddCallback(cr_callback, in.get());
    by_name[in->name] = i;
    insts.push_back(std::move(in));
  }
  // canonical attribute sets: set 0 has no attributes, set a has {k: a}
  size_t maxsets = 0;
  for (auto &in : insts)
    maxsets = std::max(maxsets, in->nsets);
  std::map<std::string, size_t> set_of;
  for (size_t a = 0; a < maxsets; ++a)
  {
    AttrMap m;
    if (a)
      m["k"] = AV::i64(static_cast<int64_t>(a));
    set_of[canon(m)] = a;
  }
  // per reader: what it was given.  Written by that reader's thread only, read after the join.
  struct Cell
  {
    int64_t sum  = 0;   // delta reader: sum of all its points; otherwise the point of its latest collection
    bool present = false;
    uint64_t at  = 0;   // number of the reader's collection that carried the latest point
    bool bad     = false;
  };
  struct PerReader
  {
    std::vector<std::vector<Cell>> cell;  // [inst][set]
    uint64_t collections = 0;
    std::string problem;  // first structural problem (wrong point kind, unknown stream/set)
    std::string problem_class;
  };
  std::vector<PerReader> pr(nreaders);
  for (auto &p : pr)
    for (auto &in : insts)
      p.cell.emplace_back(in->nsets);
  auto to_fx = [](const CrInst &in, const Got &g, bool *ok) -> int64_t {
    *ok = g.present && g.is_int == !in.dbl;
    if (!*ok)
      return 0;
    if (!in.dbl)
      return g.i;
    double x = g.d * kFx;
    *ok      = x == std::floor(x) && std::fabs(x) < 9e15;
    return static_cast<int64_t>(x);
  };
  auto digest = [&](size_t ri, const std::vector<GotMetric> &got) {
    PerReader &p = pr[ri];
    ++p.collections;
    for (auto &g : got)
    {
      auto ii = by_name.find(g.name);
      if (ii == by_name.end())
      {
        if (p.problem.empty())
          p.problem = "stream " + g.scope + "/" + g.name, p.problem_class = "unexpected-stream";
        continue;
      }
      CrInst &in = *insts[ii->second];
      bool delta = rdelta[in.kind][ri] && in.kind != kObsGauge;
      for (auto &pt : g.points)
      {
        auto ai = set_of.find(pt.attrs);
        if (ai == set_of.end() || ai->second >= in.nsets)
        {
          if (p.problem.empty())
            p.problem = "instrument " + in.name + " point with attrs " + show_canon(pt.attrs) + " that its callback never reports", p.problem_class = "phantom-series";
          continue;
        }
        Cell &c = p.cell[ii->second][ai->second];
        bool ok = false;
        int64_t v = to_fx(in, pt.v, &ok);
        if (!ok || pt.kind != (in.kind == kObsGauge ? 1 : 0) || (in.kind == kObsGauge && !pt.lv_valid))
          c.bad = true;
        if (delta)
          c.sum += v;
        else
          c.sum = v;
        c.present = true;
        c.at      = p.collections;
      }
    }
  };
  size_t rounds = static_cast<size_t>(r.range(15, 60));
  bool ticks    = r.coin();  // every round starts at (nearly) the same time for all readers, like periodic readers with one interval
  vf::raw_atomic<bool> go{false};
  vf::raw_atomic<uint64_t> arrived{0};
#ifdef OTEL_VERIF_SHIM
  vf_configure(seed, 30000, 5000, 0, 0, 200);
#endif
  std::vector<std::thread> th;
  for (size_t ri = 0; ri < nreaders; ++ri)
    th.emplace_back([&, ri] {
      Rng tr(vf::mix(seed, 500 + ri));
      tl_collecting_reader = static_cast<int>(ri);
      while (!go.load())
        std::this_thread::yield();
      for (size_t k = 0; k < rounds; ++k)
      {
        if (ticks)
        {
          arrived.fetch_add(1);
          while (arrived.load() < nreaders * (k + 1))
            std::this_thread::yield();
        }
        else if (tr.chance(1, 4))
          std::this_thread::sleep_for(std::chrono::microseconds(tr.below(100)));
        digest(ri, readers[ri]->collect());
      }
      tl_collecting_reader = -1;
    });
  go.store(true);
  for (auto &t : th)
    t.join();
#ifdef OTEL_VERIF_SHIM
  vf_configure(0, 0, 0, 0, 0, 0);
#endif
  // one quiescent collection per reader, then the comparison
  int64_t last_ns = now_ns();
  for (size_t ri = 0; ri < nreaders; ++ri)
  {
    last_ns              = wait_clock_after(last_ns);
    tl_collecting_reader = static_cast<int>(ri);
    digest(ri, readers[ri]->collect());
    tl_collecting_reader = -1;
    last_ns              = wait_clock_after(now_ns());
  }
  std::string cfg = "readers[";
  for (size_t ri = 0; ri < nreaders; ++ri)
    cfg += std::string(rdelta[0][ri] ? "D" : "C") + (rdelta[1][ri] ? "D" : "C") + (rdelta[2][ri] ? "D" : "C") + " ";
  cfg += "] meters=" + std::to_string(nmeters) + " insts[";
  for (auto &in : insts)
    cfg += in->name + (in->dbl ? ":double" : ":int") + ":sets=" + std::to_string(in->nsets) + " ";
  cfg += "] rounds=" + std::to_string(rounds) + (ticks ? " common-ticks" : " free-running");
  uint64_t total_collections = 0;
  for (auto &p : pr)
    total_collections += p.collections;
  for (size_t ri = 0; ri < nreaders; ++ri)
  {
    PerReader &p = pr[ri];
    if (!p.problem.empty())
      R.violation(p.problem_class, "concurrent-readers", "reader " + std::to_string(ri) + ": " + p.problem + " || " + cfg);
    for (size_t ii = 0; ii < insts.size(); ++ii)
    {
      CrInst &in = *insts[ii];
      bool delta = rdelta[in.kind][ri] && in.kind != kObsGauge;
      std::string cls = std::string(kind_name(in.kind)) + "/concurrent-readers";
      // invoked exactly once in each of this reader's collections
      if (in.handed_count[ri] != p.collections)
        R.violation("invoked-once", "concurrent-readers",
                    "the callback of " + in.name + " ran " + std::to_string(in.handed_count[ri]) + " times on the thread of reader " + std::to_string(ri) + " which collected " + std::to_string(p.collections) + " times || " + cfg);
      uint64_t n    = in.handed_last[ri];  // the invocation that served this reader's final (quiescent) collection
      bool reported = false;
      size_t further = 0;
      for (size_t a = 0; a < in.nsets; ++a)
      {
        Cell &c      = p.cell[ii][a];
        int64_t want = in.value(a, n);
        bool okv;
        const char *assertion;
        if (in.kind == kObsGauge)
        {
          assertion = "gauge-latest";
          okv       = c.present && !c.bad && c.at == p.collections && c.sum == want;
          R.count("conc_readers_gauge_points_checked");
        }
        else if (!delta)
        {
          assertion = "cumulative-total";
          okv       = c.present && !c.bad && c.at == p.collections && c.sum == want;
          R.count("conc_readers_cumulative_points_checked");
        }
        else
        {
          assertion = "delta-difference";
          okv       = !c.bad && c.sum == want;  // no point at all == a sum of zero
          R.count("conc_readers_delta_sums_checked");
        }
        if (okv)
          continue;
        if (reported)
        {
          ++further;
          continue;
        }
        reported = true;
        char b[160];
        snprintf(b, sizeof b, "got %.17g want %.17g", static_cast<double>(c.sum) / (in.dbl ? kFx : 1.0), static_cast<double>(want) / (in.dbl ? kFx : 1.0));
        R.violation(assertion, cls,
                    "reader " + std::to_string(ri) + (in.kind == kObsGauge ? "" : (delta ? "(delta): the sum of all its points " : "(cumulative): its last point ")) + "for " + in.name + " set " + std::to_string(a) + ": " +
                        (c.present ? "" : "[no point] ") + (c.bad ? "[wrong point kind or value type] " : "") + (!delta && c.present && c.at != p.collections ? "[no point in its last collection] " : "") + b +
                        " = the total the callback reported in this reader's last collection (invocation " + std::to_string(n) + " of " + std::to_string(in.invocations.load()) + "), after " +
                        std::to_string(p.collections) + " collections of this reader running concurrently with " + std::to_string(nreaders - 1) + " other reader(s) and one quiescent collection || " + cfg);
      }
      if (further)
        R.count("conc_readers_further_sets_same_instrument", further);
    }
  }
  for (auto &in : insts)
    if (in->invocations.load() != total_collections)
      R.violation("invoked-once", "concurrent-readers", "the callback of " + in->name + " ran " + std::to_string(in->invocations.load()) + " times in " + std::to_string(total_collections) + " collections || " + cfg);
  bool mixed = false;
  for (int k = 0; k < 2; ++k)
    for (size_t i = 1; i < nreaders; ++i)
      mixed |= rdelta[k][i] != rdelta[k][0];
  R.count("conc_readers_runs");
  R.count("conc_readers_collections", total_collections);
  if (mixed)
    R.count("conc_readers_runs_mixed_temporality");
  if (ticks)
    R.count("conc_readers_runs_common_ticks");
  if (ballast)
    R.count("conc_readers_runs_with_ballast");
  R.nontrivial(vf::mix(seed, total_collections));
  R.signature(vf::mix(seed, total_collections));
  if (R.want_sample(2))
    R.sample("concurrent readers: " + cfg);
  for (auto &in : insts)
    in->obj = nostd::shared_ptr<mapi::ObservableInstrument>();
  meters.clear();
  provider.reset();
}

// ---------------------------------------------------------------------------------------------
// synchronous Gauge (ABI v2)
// ---------------------------------------------------------------------------------------------
#if OPENTELEMETRY_ABI_VERSION_NO >= 2
static void gauge_case(uint64_t seed)
{
  auto &R = vf::report();
  Rng r(seed);
  auto provider   = make_provider();
  size_t nreaders = r.chance(3, 10) ? 1 : static_cast<size_t>(r.range(2, 3));
  std::vector<std::shared_ptr<PullReader>> readers;
  std::vector<bool> asked_delta;
  for (size_t i = 0; i < nreaders; ++i)
  {
    bool d  = r.coin();  // delta is answered with cumulative for a synchronous gauge; the value rule is the same
    auto rd = std::make_shared<PullReader>(d ? msdk::AggregationTemporality::kDelta : msdk::AggregationTemporality::kCumulative);
    readers.push_back(rd);
    asked_delta.push_back(d);
    provider->AddMetricReader(rd);
  }
  auto meter = provider->GetMeter("gauge_meter");
  struct G
  {
    bool dbl;
    std::string name;
    nostd::unique_ptr<mapi::Gauge<int64_t>> gi;
    nostd::unique_ptr<mapi::Gauge<double>> gd;
    std::map<int, std::pair<uint64_t, Val>> last;  // attr -> (logical time, value)
  };
  std::vector<G> gs(static_cast<size_t>(r.range(1, 2)));
  for (size_t i = 0; i < gs.size(); ++i)
  {
    gs[i].dbl  = r.coin();
    gs[i].name = "sync_gauge_" + std::to_string(i);
    if (gs[i].dbl)
      gs[i].gd = meter->CreateDoubleGauge(gs[i].name, "d", "u");
    else
      gs[i].gi = meter->CreateInt64Gauge(gs[i].name, "d", "u");
  }
  std::vector<AttrMap> pool;
  std::set<std::string> seen;
  static const char *keys[] = {"k1", "k2"};
  for (size_t tries = 0; pool.size() < 4 && tries < 30; ++tries)
  {
    AttrMap m;
    size_t nk = pool.empty() ? 0 : static_cast<size_t>(r.range(0, 2));
    for (size_t k = 0; k < nk; ++k)
      m[keys[r.below(2)]] = r.coin() ? AV::i64(r.range(0, 2)) : AV::str(r.coin() ? "a" : "b");
    if (seen.insert(canon(m)).second)
      pool.push_back(m);
  }
  std::map<std::string, int> attr_of;
  for (size_t a = 0; a < pool.size(); ++a)
    attr_of[canon(pool[a])] = static_cast<int>(a);
  std::vector<uint64_t> cursor(nreaders, 0);
  uint64_t lt = 0, chash = 0;
  int64_t last_ns = 0;
  std::string trace;
  size_t records = 0, collects = 0;
  auto collect = [&](size_t ri) {
    last_ns  = wait_clock_after(last_ns);
    auto got = readers[ri]->collect();
    last_ns  = wait_clock_after(now_ns());
    ++lt;
    ++collects;
    if (trace.size() < 1200)
      trace += "collect(r" + std::to_string(ri) + ") ";
    std::string cls = reader_class(nreaders, asked_delta[ri]);
    for (size_t gi = 0; gi < gs.size(); ++gi)
    {
      std::map<int, const GotPoint *> pts;
      for (auto &g : got)
        if (g.name == gs[gi].name)
          for (auto &p : g.points)
          {
            auto ai = attr_of.find(p.attrs);
            if (ai == attr_of.end())
              R.violation("phantom-series", "gauge/" + cls, "sync gauge point with attrs " + show_canon(p.attrs) + " never recorded || " + trace);
            else
              pts[ai->second] = &p;
          }
      for (auto &le : gs[gi].last)
      {
        bool fresh = le.second.first > cursor[ri];
        auto pi    = pts.find(le.first);
        if (pi == pts.end())
        {
          if (fresh)
            R.violation("gauge-latest", "gauge/" + cls, "sync gauge " + gs[gi].name + " attrs " + show_canon(canon(pool[le.first])) + " recorded since reader " + std::to_string(ri) + "'s previous collection but no point || " + trace);
          else
            R.count("gauge_no_point_for_set_not_recorded_since_dontcare");
          continue;
        }
        const GotPoint &p = *pi->second;
        Acc want;
        want.add(gs[gi].dbl ? kTolDouble : kIntClass, le.second.second);
        bool okv = p.kind == 1 && p.lv_valid && (gs[gi].dbl ? (!p.v.is_int && p.v.d == le.second.second.d) : (p.v.is_int && p.v.i == le.second.second.fx));
        R.count(fresh ? "sync_gauge_points_checked_fresh" : "sync_gauge_points_checked_stale");
        if (!okv)
          R.violation("gauge-latest", "gauge/" + cls, "sync gauge " + gs[gi].name + " attrs " + show_canon(canon(pool[le.first])) + ": reader " + std::to_string(ri) + " got " + show(p.v) + " want the most recently recorded value " +
                                                          show(gs[gi].dbl ? kTolDouble : kIntClass, want) + " || " + trace);
      }
    }
    cursor[ri] = lt;
  };
  size_t nsteps = static_cast<size_t>(r.range(5, 100));
  for (size_t step = 0; step < nsteps; ++step)
  {
    if (r.chance(7, 10))
    {
      G &g  = gs[r.below(gs.size())];
      int a = static_cast<int>(r.below(pool.size()));
      Val v;
      if (g.dbl)
        v.d = (r.coin() ? 1 : -1) * r.unit() * 1000.0;
      else
        v.fx = r.range(-1000000, 1000000);
      // the model orders this record after every earlier one: let the clock advance first
      last_ns  = wait_clock_after(last_ns);
      int mode = pool[a].empty() ? static_cast<int>(r.below(4)) : static_cast<int>(r.range(2, 3));
      opentelemetry::context::Context ctx{};
      AttrArg arg(pool[a], r);
      const common::KeyValueIterable &kv = arg;
      if (g.dbl)
      {
        if (mode == 0)
          g.gd->Record(v.d);
        else if (mode == 1)
          g.gd->Record(v.d, ctx);
        else if (mode == 2)
          g.gd->Record(v.d, kv);
        else
          g.gd->Record(v.d, kv, ctx);
      }
      else
      {
        if (mode == 0)
          g.gi->Record(v.fx);
        else if (mode == 1)
          g.gi->Record(v.fx, ctx);
        else if (mode == 2)
          g.gi->Record(v.fx, kv);
        else
          g.gi->Record(v.fx, kv, ctx);
      }
      arg.kill(r.coin());
      last_ns = wait_clock_after(now_ns());
      g.last[a] = std::make_pair(++lt, v);
      ++records;
      chash = vf::mix(chash, static_cast<uint64_t>(a) * 77 + static_cast<uint64_t>(g.dbl ? static_cast<int64_t>(v.d * 1000) : v.fx));
      char b[48];
      snprintf(b, sizeof b, "%.17g", g.dbl ? v.d : static_cast<double>(v.fx));
      if (trace.size() < 1200)
        trace += "record(" + g.name + "," + b + ",a" + std::to_string(a) + ") ";
      R.count("op_gauge_record");
    }
    else
      collect(static_cast<size_t>(r.below(nreaders)));
  }
  for (size_t ri = 0; ri < nreaders; ++ri)
    collect(ri);
  R.count("gauge_histories");
  if (nreaders >= 2)
    R.count("gauge_hist_multi_reader");
  if (records && collects)
    R.nontrivial(chash);
  if (R.want_sample(2))
    R.sample("sync gauge: readers=" + std::to_string(nreaders) + " :: " + trace.substr(0, 300));
  gs.clear();
  meter = nostd::shared_ptr<mapi::Meter>();
  provider.reset();
}
#endif

int main(int argc, char **argv)
{
  auto &R = vf::report();
  R.init("C17", argc, argv);
  auto *logs       = install_silent_log_handler();
  std::string mode = R.opt.sparam("mode", "seq");
#if OPENTELEMETRY_ABI_VERSION_NO < 2
  if (mode == "gauge")
  {
    fprintf(stderr, "mode=gauge needs the asan-abi2 flavour\n");
    return 3;
  }
#endif
  static Watchdog *dog = nullptr;  // never destroyed: its thread is detached
  if (mode == "race" || mode == "readers")
    dog = new Watchdog(static_cast<int>(R.opt.param("watchdog_s", R.opt.thorough ? 600 : 300)));
  R.run_cases([&](uint64_t i) {
    uint64_t seed = R.case_seed(i);
    if (mode == "race")
    {
      dog->begin("callback-churn-vs-collect");
      race_case(seed);
      dog->end();
    }
    else if (mode == "readers")
    {
      dog->begin("concurrent-readers");
      readers_case(seed);
      dog->end();
    }
#if OPENTELEMETRY_ABI_VERSION_NO >= 2
    else if (mode == "gauge")
      gauge_case(seed);
#endif
    else
    {
      SeqCase c(seed);
      c.run();
    }
  });
  R.count("sdk_log_messages", logs->total());
  return R.finish();
}
