// Propagators are shared objects: one HttpTraceContext / B3 / Jaeger / Baggage / Composite instance is installed
// globally and used by every request thread at once.  The round-trip clauses of C09, C15 and C16 therefore also
// have to hold when 2..8 threads inject and extract through the SAME propagator object concurrently, each with
// its own carrier and context.  tsan flavour + perturbation shim: ThreadSanitizer reports any shared mutable
// state inside a propagator (a function-local static scratch buffer, say) and the per-thread oracle reports a
// carrier that received another thread's ids.  Added after the seeded change C16-w3-2 (Jaeger Inject formatting
// into a static buffer) was missed by the sequential engines.
//   --param prop=C09   HttpTraceContext (+ TraceState parse/Set on the side)
//   --param prop=C15   BaggagePropagator and a CompositePropagator over all built-in propagators
//   --param prop=C16   B3 single, B3 multi, Jaeger
#include <map>
#include <thread>
#include <vector>

#include "opentelemetry/baggage/baggage.h"
#include "opentelemetry/baggage/baggage_context.h"
#include "opentelemetry/baggage/propagation/baggage_propagator.h"
#include "opentelemetry/context/propagation/composite_propagator.h"
#include "opentelemetry/context/propagation/text_map_propagator.h"
#include "opentelemetry/trace/context.h"
#include "opentelemetry/trace/default_span.h"
#include "opentelemetry/trace/propagation/b3_propagator.h"
#include "opentelemetry/trace/propagation/http_trace_context.h"
#include "opentelemetry/trace/propagation/jaeger.h"
#include "opentelemetry/trace/span_context.h"
#include "opentelemetry/trace/trace_state.h"

#include "vf_core.h"
#include "vf_history.h"
#include "vf_runtime.h"

namespace nostd       = opentelemetry::nostd;
namespace trace_api   = opentelemetry::trace;
namespace context_api = opentelemetry::context;
namespace baggage_api = opentelemetry::baggage;
using vf::Rng;

class MapCarrier : public context_api::propagation::TextMapCarrier
{
public:
  nostd::string_view Get(nostd::string_view key) const noexcept override
  {
    auto it = kv.find(std::string(key.data(), key.size()));
    return it == kv.end() ? nostd::string_view("", 0) : nostd::string_view(it->second);
  }
  void Set(nostd::string_view key, nostd::string_view value) noexcept override
  {
    kv[std::string(key.data(), key.size())] = std::string(value.data(), value.size());
  }
  std::map<std::string, std::string> kv;
  std::string show() const
  {
    std::string s;
    for (auto &e : kv)
      s += e.first + ": '" + vf::show(e.second, 80) + "' ";
    return s;
  }
};

struct Props
{
  trace_api::propagation::HttpTraceContext w3c;
  trace_api::propagation::B3Propagator b3;
  trace_api::propagation::B3PropagatorMultiHeader b3m;
  trace_api::propagation::JaegerPropagator jaeger;
  baggage_api::propagation::BaggagePropagator baggage;
  std::unique_ptr<context_api::propagation::CompositePropagator> composite;
  Props()
  {
    std::vector<std::unique_ptr<context_api::propagation::TextMapPropagator>> v;
    v.emplace_back(new trace_api::propagation::HttpTraceContext());
    v.emplace_back(new baggage_api::propagation::BaggagePropagator());
    composite.reset(new context_api::propagation::CompositePropagator(std::move(v)));
  }
};

static std::string hex(const uint8_t *p, size_t n)
{
  static const char *d = "0123456789abcdef";
  std::string s;
  for (size_t i = 0; i < n; ++i)
  {
    s.push_back(d[p[i] >> 4]);
    s.push_back(d[p[i] & 15]);
  }
  return s;
}
static std::string show_sc(const trace_api::SpanContext &sc)
{
  return hex(sc.trace_id().Id().data(), 16) + "/" + hex(sc.span_id().Id().data(), 8) + "/" +
         std::to_string(static_cast<unsigned>(sc.trace_flags().flags()));
}

struct Miss
{
  std::string assertion, cls, detail;
};

// one thread's work: `rounds` round trips through the shared propagators selected by `which`
static void worker(Props &P, const std::string &which, uint64_t seed, int rounds, std::vector<Miss> &out, uint64_t &done)
{
  Rng r(seed);
  for (int k = 0; k < rounds; ++k)
  {
    uint8_t tid[16], sid[8];
    for (auto &b : tid)
      b = static_cast<uint8_t>(r.below(256));
    for (auto &b : sid)
      b = static_cast<uint8_t>(r.below(256));
    tid[15] |= 1;
    sid[7] |= 1;
    uint8_t flags = static_cast<uint8_t>(r.coin() ? r.below(2) : r.below(256));
    std::string tsh;
    if (which == "C09" && r.coin())
      tsh = "k" + std::to_string(r.below(50)) + "=v" + std::to_string(r.below(1000)) + ",z=1";
    trace_api::SpanContext sc(trace_api::TraceId(tid), trace_api::SpanId(sid), trace_api::TraceFlags(flags), false,
                              tsh.empty() ? trace_api::TraceState::GetDefault() : trace_api::TraceState::FromHeader(tsh));
    context_api::Context ctx;
    ctx = ctx.SetValue(trace_api::kSpanKey, nostd::shared_ptr<trace_api::Span>(new trace_api::DefaultSpan(sc)));
    std::vector<std::pair<std::string, std::string>> bag;
    if (which == "C15")
    {
      auto b = baggage_api::Baggage::GetDefault();
      int n  = static_cast<int>(r.range(1, 6));
      for (int i = 0; i < n; ++i)
      {
        std::string key = "k" + std::to_string(i) + (r.coin() ? " x" : "");
        std::string val = "v" + std::to_string(r.below(100000)) + (r.coin() ? "=,%" : "");
        b               = b->Set(key, val);
        bag.emplace_back(key, val);
      }
      ctx = baggage_api::SetBaggage(ctx, b);
    }
    context_api::propagation::TextMapPropagator *prop = nullptr;
    const char *pname                                 = "";
    bool ids = true, exact_flags = false, baggage = false;
    if (which == "C09")
    {
      prop        = &P.w3c;
      pname       = "w3c";
      exact_flags = true;
    }
    else if (which == "C16")
    {
      switch (r.below(3))
      {
        case 0:
          prop  = &P.b3;
          pname = "b3single";
          break;
        case 1:
          prop  = &P.b3m;
          pname = "b3multi";
          break;
        default:
          prop  = &P.jaeger;
          pname = "jaeger";
      }
    }
    else
    {
      baggage = true;
      if (r.coin())
      {
        prop  = &P.baggage;
        pname = "baggage";
        ids   = false;
      }
      else
      {
        prop        = P.composite.get();
        pname       = "composite";
        exact_flags = true;
      }
    }
    MapCarrier c;
    vf::EventLog::now();
    prop->Inject(c, ctx);
    context_api::Context empty;
    context_api::Context got = prop->Extract(c, empty);
    if (ids)
    {
      auto gsc = trace_api::GetSpan(got)->GetContext();
      bool ok  = gsc.trace_id() == sc.trace_id() && gsc.span_id() == sc.span_id() && gsc.IsSampled() == sc.IsSampled() &&
                (!exact_flags || gsc.trace_flags().flags() == flags);
      if (ok && which == "C09")
        ok = gsc.trace_state()->ToHeader() == sc.trace_state()->ToHeader();
      if (!ok)
        out.push_back(Miss{"concurrent-roundtrip", pname,
                           "injected " + show_sc(sc) + " tracestate '" + tsh + "', extracted " + show_sc(gsc) + " from " + c.show()});
    }
    if (baggage)
    {
      auto gb = baggage_api::GetBaggage(got);
      std::vector<std::pair<std::string, std::string>> have;
      gb->GetAllEntries([&](nostd::string_view k2, nostd::string_view v2) {
        have.emplace_back(std::string(k2.data(), k2.size()), std::string(v2.data(), v2.size()));
        return true;
      });
      // Set puts the newest key first; compare as maps and by count
      std::map<std::string, std::string> a(bag.begin(), bag.end()), b2(have.begin(), have.end());
      if (a != b2 || have.size() != a.size())
        out.push_back(Miss{"concurrent-roundtrip", std::string(pname) + ":baggage",
                           std::to_string(bag.size()) + " entries set, " + std::to_string(have.size()) + " extracted from " + c.show()});
    }
    ++done;
  }
}

static void one_case(Props &P, const std::string &which, uint64_t seed)
{
  auto &R      = vf::report();
  Rng r(seed);
  int nthreads = static_cast<int>(r.range(2, 8));
  int rounds   = static_cast<int>(r.range(20, 200));
  bool shim    = r.coin();
  vf_configure(seed, shim ? 40000 : 0, shim ? 2000 : 0, 0, 0, 100);
  std::vector<std::vector<Miss>> miss(static_cast<size_t>(nthreads));
  std::vector<uint64_t> done(static_cast<size_t>(nthreads), 0);
  vf::raw_atomic<int> ready{0}, go{0};
  {
    vf::WatchdogScope wd("concurrent-propagation", 120);
    std::vector<std::thread> th;
    for (int t = 0; t < nthreads; ++t)
      th.emplace_back([&, t] {
        ready.fetch_add(1, std::memory_order_relaxed);
        while (!go.load(std::memory_order_relaxed))
          ;
        worker(P, which, seed * 1315423911ull + static_cast<uint64_t>(t), rounds, miss[static_cast<size_t>(t)],
               done[static_cast<size_t>(t)]);
      });
    while (ready.load(std::memory_order_relaxed) < nthreads)
      usleep(20);
    go.store(1, std::memory_order_relaxed);
    for (auto &t : th)
      t.join();
  }
  vf_configure(0, 0, 0, 0, 0, 0);
  uint64_t total = 0;
  for (int t = 0; t < nthreads; ++t)
  {
    total += done[static_cast<size_t>(t)];
    for (auto &m : miss[static_cast<size_t>(t)])
      R.violation(m.assertion, m.cls, m.detail + " (" + std::to_string(nthreads) + " threads)");
  }
  R.count("concurrent_roundtrips", total);
  R.count("concurrent_cases");
  if (nthreads >= 4)
    R.count("concurrent_cases_ge4_threads");
  R.nontrivial(seed);
}

int main(int argc, char **argv)
{
  auto &R           = vf::report();
  std::string which = "C16";
  for (int i = 1; i + 1 < argc; ++i)
    if (std::string(argv[i]) == "--param" && std::string(argv[i + 1]).rfind("prop=", 0) == 0)
      which = std::string(argv[i + 1]).substr(5);
  R.init(which, argc, argv);
  vf::Watchdog::get().start();
  Props P;
  R.run_cases([&](uint64_t i) { one_case(P, which, R.case_seed(i)); });
  return R.finish();
}
